"""C09 — deferred synchronisation never changes the physics.

proof:   lean/RV/Props/C09.lean — theorems about the flag machines of
         lean/RV/Model/Sync.lean (WHFast all kernels/correctors/coordinates, SABA,
         MERCURIUS, EOS) over uninterpreted primitives
tie:     schedule replay: drv_c09 prints, for a random op sequence and option
         combination, the list of primitive calls the model predicts; the list is
         executed through the real exported C primitives on one simulation, the real
         reb_simulation_step / reb_simulation_synchronize on a twin; particles,
         p_jh, t and the flags must agree bit for bit after every operation
search:  the property statement on the real code: (i) keep_unsynchronized + any
         interleaving of synchronize/energy/copy/save/... leaves the final bits unchanged,
         (ii) safe vs unsafe agree to rounding (EOS: to truncation), (iii) sync twice = once
"""
import ctypes, json, math, os, re, sys, tempfile
sys.path.insert(0, os.path.dirname(os.path.abspath(__file__)))
from common import *
import common

D = ctypes.c_double

# ----------------------------------------------------------------------------- watchdog
# a real C call that never returns (observed: MERCURIUS integrate() with a shortened last step during a
# close encounter, corpus/C09/mercurius_integrate_hang.json) must not hang the check: ctypes releases the
# GIL, so a thread can see the stall; it is an infrastructure failure (exit 2), not a C09 verdict
import threading, time as _time
_HEART = {"t": _time.time(), "ctx": "", "limit": 3000.0}     # generous while lake may wait for the shared lock


def beat(ctx):
    _HEART["t"] = _time.time()
    _HEART["ctx"] = ctx


def _watchdog():
    while True:
        _time.sleep(5)
        if _time.time() - _HEART["t"] > _HEART["limit"]:
            try:
                open(os.path.join(common.ROOT, "corpus", "C09", "last_hang.txt"), "w").write(_HEART["ctx"])
            except Exception:
                pass
            sys.stderr.write("INFRA-FAILURE C09: a call into librebound did not return within %ds: %s\n" % (_HEART["limit"], _HEART["ctx"][:600]))
            sys.stderr.flush()
            os._exit(2)


threading.Thread(target=_watchdog, daemon=True).start()
COORD_NAMES = ["jacobi", "democraticheliocentric", "whds", "barycentric"]
SABA_ROWS = {0x0: "SABA1", 0x1: "SABA2", 0x2: "SABA3", 0x3: "SABA4", 0x100: "SABACM1", 0x101: "SABACM2",
             0x102: "SABACM3", 0x103: "SABACM4", 0x200: "SABACL1", 0x201: "SABACL2", 0x202: "SABACL3",
             0x203: "SABACL4", 0x4: "SABA(10,4)", 0x5: "SABA(8,6,4)", 0x6: "SABA(10,6,4)",
             0x7: "SABAH(8,4,4)", 0x8: "SABAH(8,6,4)", 0x9: "SABAH(10,6,4)"}


# ----------------------------------------------------------------------------- constants from the C source
def extract_constants(c):
    """numeric tables the primitive-call lists refer to by name; parsed from the sources of the
    tree under test (the *structure* — which constant where — is the hand-written Lean model)."""
    src = open(os.path.join(common.REPO, "src", "integrator_whfast.c")).read()
    K = {"A": {}, "B": {}}
    for m in re.finditer(r"static const double reb_whfast_corrector_a_(\d+)\s*=\s*([-+0-9.eE]+)\s*;", src):
        K["A"][int(m.group(1))] = float(m.group(2))
    for m in re.finditer(r"static const double reb_whfast_corrector_b_(\d+)\s*=\s*([-+0-9.eE]+)\s*;", src):
        K["B"][int(m.group(1))] = float(m.group(2))
    m = re.search(r"static const double reb_whfast_corrector2_b\s*=\s*([-+0-9.eE]+)\s*;", src)
    K["C2B"] = float(m.group(1)) if m else None
    saba = open(os.path.join(common.REPO, "src", "integrator_saba.c")).read()

    def table(name, two_d):
        mm = re.search(r"static const double %s(\[\d+\])+\s*=\s*\{(.*?)\};" % name, saba, flags=re.S)
        if not mm:
            return None
        body = re.sub(r"//[^\n]*", "", mm.group(2))
        if two_d:
            return [[float(x) for x in re.findall(r"[-+]?\d*\.\d+(?:[eE][-+]?\d+)?|[-+]?\d+\.", row)]
                    for row in re.findall(r"\{([^{}]*)\}", body)]
        return [float(x) for x in re.findall(r"[-+]?\d*\.\d+(?:[eE][-+]?\d+)?", body)]

    # which variant of reb_whfast_apply_corrector2 does the tree have (see RV.Sync.corrector2Ops)?
    m = re.search(r"static void reb_whfast_apply_corrector2\(.*?\n\}", src, flags=re.S)
    body = m.group(0) if m else ""
    if "reb_whfast_operator_Uinv" in body and re.search(r"if\s*\(\s*inv\s*>\s*0", body):
        K["c2fixed"] = 1
    elif re.search(r"a\s*=\s*0\.5\s*\*\s*inv\s*\*\s*r->dt", body) and body.count("reb_whfast_operator_U(") == 2:
        K["c2fixed"] = 0
    else:
        K["c2fixed"] = 0
        c.broken.append("proof obligation: reb_whfast_apply_corrector2 has neither of the two modelled shapes")
    c.cov["corrector2_source_variant"] = "repaired (Uinv, reversed order)" if K["c2fixed"] else "as found (sign flip of a and b: F18)"
    # the N_var_config block of part2 with keep_unsynchronized: is the variational centre-of-mass drift redone
    # on the restored p_jh (repaired) or lost with the discarded synchronised copy (as found)?  (Config.vfix)
    mp2 = re.search(r"void reb_integrator_whfast_part2\(.*?\n\}", src, flags=re.S)
    p2 = mp2.group(0) if mp2 else ""
    mrs = re.search(r"memcpy\(p_j,\s*sync_pj,[^;]*;(.*?)ri_whfast->is_synchronized\s*=\s*0;", p2, flags=re.S)
    if not mrs or len(re.findall(r"memcpy\(sync_pj,\s*p_j,", p2)) != 1:
        c.broken.append("proof obligation: reb_integrator_whfast_part2: the keep_unsynchronized cache/restore of the N_var_config block was not found")
    tail = mrs.group(1) if mrs else ""
    redo = re.findall(r"p_j\[index\]\.([xyz])\s*\+=\s*r->dt/2\.\*p_j\[index\]\.v\1;", tail)
    if sorted(redo) == ["x", "y", "z"] and "N_var_config" in tail:
        K["vfix"] = 1
    elif "+=" not in tail and "for" not in tail:
        K["vfix"] = 0
    else:
        K["vfix"] = 0
        c.broken.append("proof obligation: reb_integrator_whfast_part2: the code after the p_jh restore of the N_var_config block has neither of the two modelled shapes")
    if len(re.findall(r"p_j\[index\]\.x\s*\+=\s*r->dt/2\.\*p_j\[index\]\.vx;", p2)) != 1 + K["vfix"]:
        c.broken.append("proof obligation: reb_integrator_whfast_part2: unexpected number of variational centre-of-mass drifts")
    c.cov["whfast_var_keep_variant"] = "centre-of-mass drift redone after the restore" if K["vfix"] else "as found (drift lost with keep_unsynchronized: C09:whfast-var-keep-com-drift-lost)"
    # reb_simulation_rescale_var (tools.c): the replay executes a re-implementation and the model carries its flag effect
    # (`vRescaleF`): threshold 1e100, only when synchronised, m/x/y/z/vx/vy/vz divided, lrescale += log(scale), and for
    # WHFast with safe_mode = 0 nothing but `recalculate_coordinates_this_timestep = 1`
    tsrc = open(os.path.join(common.REPO, "src", "tools.c")).read()
    mrv = re.search(r"void reb_simulation_rescale_var\(.*?\n\}", tsrc, flags=re.S)
    rv = mrv.group(0) if mrv else ""
    rv_nc = re.sub(r"//[^\n]*", "", rv)
    want = [r"if \(scale > 1e100\)\{", r"if \(is_synchronized == 0\)\{.*?return;", r"vc->lrescale \+= log\(scale\);",
            r"particles\[i\]\.m /= scale;\s*particles\[i\]\.x /= scale;\s*particles\[i\]\.y /= scale;\s*particles\[i\]\.z /= scale;\s*particles\[i\]\.vx /= scale;\s*particles\[i\]\.vy /= scale;\s*particles\[i\]\.vz /= scale;",
            r"if \(r->integrator == REB_INTEGRATOR_WHFAST(?: && r->ri_whfast\.safe_mode == 0)?\)\{\s*r->ri_whfast\.recalculate_coordinates_this_timestep = 1;\s*\}",
            r"r->integrator == REB_INTEGRATOR_WHFAST && r->ri_whfast\.is_synchronized == 0"]
    miss = [w for w in want if not re.search(w, rv_nc, flags=re.S)]
    if miss or "p_jh" in rv_nc or len(re.findall(r"/= scale", rv_nc)) != 8:
        c.broken.append("proof obligation: reb_simulation_rescale_var has not the modelled shape (missing: %s; touches p_jh: %s; %d divisions by scale, expected 8)"
                        % ([w[:40] for w in miss], "p_jh" in rv_nc, len(re.findall(r"/= scale", rv_nc))))
    # source variant: is the recalculate flag set only `if safe_mode == 0` (as found: stale p_jh if safe_mode is switched
    # off before the next step) or for WHFast in any mode (repaired)?  (`rfix` of vRescaleF)
    K["rfix"] = int(bool(re.search(r"if \(r->integrator == REB_INTEGRATOR_WHFAST\)\{\s*r->ri_whfast\.recalculate_coordinates_this_timestep = 1;", rv_nc)))
    c.cov["rescale_var_shape"] = ("as modelled, recalculate flag %s" % ("in any mode" if K["rfix"] else "only if safe_mode == 0 (as found: C09:rescale-var-stale-pjh-after-safe-mode-off)")) if not miss else "UNKNOWN"
    # part1 of WHFast / SABA: after `from_inertial; recalculate_coordinates_this_timestep = 0;` does the source set
    # is_synchronized = 1 (repaired, 35adc5c) or leave the flag alone (as found)?  (Config.p1fix / SabaConfig.p1fix)
    for fam_, text_, ri_ in (("W", src, "ri_whfast"), ("S", saba, "ri_saba")):
        mp1 = re.search(r"void reb_integrator_%s_part1\(.*?\n\}" % ("whfast" if fam_ == "W" else "saba"), text_, flags=re.S)
        b1 = mp1.group(0) if mp1 else ""
        sites = re.findall(r"reb_integrator_whfast_from_inertial\(r\);\s*ri_whfast->recalculate_coordinates_this_timestep\s*=\s*0;((?:\s*//[^\n]*\n)*)\s*([^\n]*)", b1)
        if len(sites) != 1:
            c.broken.append("proof obligation: part1 of %s: %d 'from_inertial; recalculate = 0' sites (expected 1)" % (ri_, len(sites)))
            K["p1fix" + fam_] = 0
            continue
        nxt = sites[0][1].strip()
        if re.fullmatch(r"%s->is_synchronized\s*=\s*1;" % ri_, nxt):
            K["p1fix" + fam_] = 1
        elif nxt == "}":
            K["p1fix" + fam_] = 0
        else:
            K["p1fix" + fam_] = 0
            c.broken.append("proof obligation: part1 of %s: the statement after 'from_inertial; recalculate = 0' (%r) has neither of the two modelled shapes" % (ri_, nxt))
        if len(re.findall(r"is_synchronized\s*=\s*1", b1)) != K["p1fix" + fam_]:
            c.broken.append("proof obligation: part1 of %s: unexpected number of assignments is_synchronized = 1" % ri_)
    # SABA part1: does it synchronise before `from_inertial` when unsynchronised (repaired) or transform the stale
    # particles (as found: C09:saba-part1-recalculates-unsynchronised)?  (SabaConfig.p1sync)
    msp = re.search(r"void reb_integrator_saba_part1\(.*?\n\}", saba, flags=re.S)
    sp1 = re.sub(r"//[^\n]*", "", msp.group(0)) if msp else ""
    nsy = len(re.findall(r"reb_integrator_saba_synchronize\(r\);", sp1))
    if nsy == 0:
        K["p1sync"] = 0
    elif nsy == 1 and re.search(r"recalculate_coordinates_this_timestep\)\{\s*if \(ri_saba->is_synchronized\s*==\s*0\)\{\s*reb_integrator_saba_synchronize\(r\);.*?\}\s*\}\s*reb_integrator_whfast_from_inertial\(r\);", sp1, flags=re.S):
        K["p1sync"] = 1
    else:
        K["p1sync"] = 0
        c.broken.append("proof obligation: reb_integrator_saba_part1: %d synchronize calls in a shape that is not modelled" % nsy)
    c.cov["saba_part1_sync_variant"] = "synchronises before recalculating" if K["p1sync"] else "as found (from_inertial on unsynchronised particles: C09:saba-part1-recalculates-unsynchronised)"
    c.cov["part1_recalculate_variant"] = {k_: ("is_synchronized = 1 after from_inertial" if K["p1fix" + f_] else "as found (flag left alone: extra half drift with keep_unsynchronized + callbacks)")
                                          for k_, f_ in (("whfast", "W"), ("saba", "S"))}
    # does reb_simulation_integrate_raw synchronise before it changes the sign of dt?
    rsrc = open(os.path.join(common.REPO, "src", "rebound.c")).read()
    m2 = re.search(r"if \(thread_info->tmax != r->t\)\{(.*?)\n    \}", rsrc, flags=re.S)
    blk = m2.group(1) if m2 else ""
    asg = re.search(r"r->dt\s*=\s*copysign", blk)
    if not asg:
        c.broken.append("proof obligation: the dt sign assignment of reb_simulation_integrate_raw was not found")
    K["syncFirst"] = int(bool(asg) and "reb_simulation_synchronize" in blk[:asg.start()])
    # do the synchronisations that precede an assignment to dt ignore keep_unsynchronized?
    nforce = len(re.findall(r"reb_simulation_synchronize_before_dt_change\(r\);", rsrc))
    mce = re.search(r"int reb_check_exit\(.*?\n\}", rsrc, flags=re.S)
    nplain = len(re.findall(r"reb_simulation_synchronize\(r\);\s*(?:if \(r->dt_last_done[^\n]*\n[^\n]*\n\s*\}\s*)?r->dt = tmax-r->t;", mce.group(0))) if mce else -1
    if nforce == 4 and nplain == 0:
        K["forceSync"] = 1
    elif nforce == 0 and nplain == 2:
        K["forceSync"] = 0
    else:
        K["forceSync"] = 0
        c.broken.append("proof obligation: reb_check_exit / integrate_raw: %d forced and %d plain synchronisations before dt assignments (expected 4/0 or 0/2)" % (nforce, nplain))
    c.cov["dt_assignment_sync_variant"] = "forced (ignores keep_unsynchronized)" if K["forceSync"] else "as found (honours keep_unsynchronized: C09:exact-finish-with-keep-unsynchronized)"
    c.cov["integrate_entry_variant"] = "synchronises before flipping dt" if K["syncFirst"] else "as found (flips the sign of dt without synchronising: C09-integrate-reverse)"
    # SABA source variants: (1) which N_active do the transformation calls of integrator_saba.c pass,
    # (2) is the keep_unsynchronized copy taken inside the is_synchronized test (see RV.Sync.SabaConfig)
    calls = re.findall(r"reb_particles_transform_\w+\(([^;]*?)\);", saba)
    nn = sum(1 for a in calls if re.search(r",\s*N\s*,\s*N\s*$", a))
    na = sum(1 for a in calls if re.search(r",\s*N\s*,\s*N_active\s*$", a))
    c.cov["saba_transformation_calls"] = {"N,N": nn, "N,N_active": na}
    if len(calls) != 7 or not (nn == 7 or na == 7):
        c.broken.append("proof obligation: integrator_saba.c transformation calls: %d found, %d with (N,N), %d with (N,N_active); expected 7 of one kind" % (len(calls), nn, na))
    K["sabaSplit"] = int(na == 7)
    ms = re.search(r"void reb_integrator_saba_synchronize\(.*?\n\}", saba, flags=re.S)
    sb = ms.group(0) if ms else ""
    i_if, i_cp = sb.find("is_synchronized == 0"), sb.find("memcpy(sync_pj")
    if i_if < 0 or i_cp < 0:
        c.broken.append("proof obligation: reb_integrator_saba_synchronize: is_synchronized test / p_jh copy not found")
    K["copyInside"] = int(0 <= i_if < i_cp)
    c.cov["saba_sync_copy_variant"] = "inside the is_synchronized test" if K["copyInside"] else "before the test (F19)"
    K["SC"] = table("reb_saba_c", True)
    K["SD"] = table("reb_saba_d", True)
    K["SCC"] = table("reb_saba_cc", False)
    counts = {"corrector_a": len(K["A"]), "corrector_b": len(K["B"]), "corrector2_b": int(K["C2B"] is not None),
              "saba_c_rows": len(K["SC"] or []), "saba_d_rows": len(K["SD"] or []), "saba_cc": len(K["SCC"] or [])}
    c.cov["extracted_constants"] = counts
    want = {"corrector_a": 8, "corrector_b": 19, "corrector2_b": 1, "saba_c_rows": 10, "saba_d_rows": 10, "saba_cc": 4}
    if counts != want:
        c.broken.append("proof obligation: constant extraction found %s, expected %s" % (counts, want))
    return K


EOS_TABLES = [("lf4_a", 0), ("lf6_a", 5), ("lf8_a", 9), ("lf4_2_a", 0), ("lf8_6_4_a", 4), ("lf8_6_4_b", 4), ("pmlf6_a", 2),
              ("pmlf6_b", 2), ("pmlf6_c", 2), ("pmlf6_z", 6), ("pmlf6_y", 6), ("pmlf6_v", 6), ("pmlf4_y", 3), ("pmlf4_z", 3),
              ("plf7_6_4_a", 2), ("plf7_6_4_b", 2), ("plf7_6_4_z", 6), ("plf7_6_4_y", 6)]


def extract_eos(c):
    """translator: the coefficient tables of integrator_eos.c -> lean/RV/Gen/C09Eos.lean (bit patterns
    of the doubles the C compiler sees); item counts are obligations"""
    src = open(os.path.join(common.REPO, "src", "integrator_eos.c")).read()
    fields, total = [], 0
    for name, n in EOS_TABLES:
        m = re.search(r"static const double %s(?:\[(\d+)\])?\s*=\s*(\{[^;]*\}|[^;{]+);" % name, src)
        if not m:
            c.broken.append("proof obligation: EOS table %s not found in integrator_eos.c" % name)
            vals = [0.0] * max(n, 1)
        else:
            vals = [float(x) for x in re.findall(r"[-+]?(?:\d+\.\d*|\.\d+|\d+)(?:[eE][-+]?\d+)?", m.group(2))]
        if len(vals) != max(n, 1):
            c.broken.append("proof obligation: EOS table %s has %d entries, expected %d" % (name, len(vals), max(n, 1)))
        total += len(vals)
        hexs = ['fh "%s"' % d2h(v) for v in vals]
        fields.append("  %s := %s" % (name, hexs[0] if n == 0 else "[" + ", ".join(hexs) + "]"))
    c.cov["extracted_eos_table_entries"] = total
    txt = ("/- GENERATED by rv/c09.py (extract_eos) from src/integrator_eos.c — do not edit.\n"
           "   The coefficient tables as the bit patterns of the doubles the compiler sees. -/\n"
           "import RV.Model.SyncEos\nnamespace RV.Gen.C09\nopen RV\n\n"
           "def fh (s : String) : Float := floatOfHex s\n\n"
           "def eosTab : RV.Sync.Eos.Tab Float where\n" + "\n".join(fields) + "\n\nend RV.Gen.C09\n")
    write_if_changed(os.path.join(common.LEAN, "RV", "Gen", "C09Eos.lean"), txt)


def ev(tok, dt, K):
    """coefficient token -> double, in the operation order of the C expression"""
    k = tok.split(":")
    if k[0] == "F":
        return (float(int(k[1])) * dt) / float(int(k[2]))
    if k[0] == "CA":
        return float(int(k[2])) * (K["A"][int(k[1])] * dt)
    if k[0] == "CB":
        return float(int(k[2])) * (K["B"][int(k[1])] * dt)
    if k[0] == "C2B":
        return float(int(k[1])) * (K["C2B"] * dt)
    if k[0] == "SC":
        return float(int(k[3])) * (K["SC"][int(k[1])][int(k[2])] * dt)
    if k[0] == "SD":
        return K["SD"][int(k[1])][int(k[2])] * dt
    if k[0] == "SCC":
        return float(int(k[2])) * (K["SCC"][int(k[1])] * dt)
    raise Infra("bad coefficient token " + tok)


# ----------------------------------------------------------------------------- systems
DIMS = {}


def dim(name, n=1):
    """coverage.dimensions: number of evaluated cases per cross-cutting dimension"""
    DIMS[name] = DIMS.get(name, 0) + n


def dims_of(system, where):
    """count the dimensions a generated system carries, once per evaluated case"""
    for d in system.get("dims", []):
        dim(d)
        dim(d + " @" + where)


FORCED = ["many", "hyper", "single", "massive0", "massive1", "massless0", "massless1", "zeroactive", "long", "neg", "huge", "soft", "G"]


def gen_system(rng, physics=False, force=None, spec=None):
    """star + planets (+ test particles): list of (m, x,y,z, vx,vy,vz), N_active, testparticle_type, dt,
    crossed with the cross-cutting dimensions (particle roles, G, softening, sign of dt, start time,
    geometry, scale).  `physics`: for the to-rounding comparisons leave out what only makes sense for the
    bitwise clauses (steps longer than a period, hyperbolic fly-by, huge |t|/dt, hundreds of particles)."""
    dims = []
    if spec is not None:
        # deterministic values of the pairwise factors `roles`, `neg`, `feature`
        physics = False
        force = {"plain": "_plain", "massless0": "massless0", "massless1": "massless1", "massive0": "massive0", "massive1": "massive1",
                 "single": "single", "zeroactive": "zeroactive"}[spec["roles"]]
    feat = spec["feature"] if spec is not None else None

    def want(name, p):
        if spec is not None:
            return feat == name
        return rng.chance(p) or force == name
    npl = rng.randint(1, 4)
    ntp = rng.choice([0, 0, 1, 2])
    if force == "_plain" or (spec is not None and spec["roles"] == "zeroactive"):
        ntp = 0
    if force in ("single", "massive0", "massive1", "massless0", "massless1") and ntp == 0:
        ntp = 2
    if force == "zeroactive" and npl < 2:
        npl = 3
    m0 = rng.choice([1.0, 1.0, 0.7, 2.5])
    G = rng.choice([1.0, 1.0, 1.0, 39.47841760435743, 0.3])
    if force == "G":
        G = 39.47841760435743
    if spec is not None:
        G = 39.47841760435743 if feat == "G" else 1.0
    if G != 1.0:
        dims.append("G != 1")
    ps = [(m0, 0.0, 0.0, 0.0, 0.0, 0.0, 0.0)]
    a = rng.uniform(0.6, 1.4)
    amin = a
    role = rng.choice(["massless", "massless", "massive", "zero-mass-active", "plain"])
    if force in ("massive0", "massive1"):
        role = "massive"
    if force in ("massless0", "massless1"):
        role = "massless"
    if force == "zeroactive":
        role = "zero-mass-active"
    if spec is not None and spec["roles"] in ("plain", "single"):
        role = "plain" if spec["roles"] == "plain" else "massless"
    many = (not physics) and want("many", 0.04)
    if many and spec is not None and ntp == 0:
        many = False                     # 'many' needs test particles: excluded pair (roles without test particles)
    if many:
        ntp = rng.randint(125, 135)       # crosses the 128-entry allocation boundary
        dims.append("N > 128 (allocation boundary)")
    for i in range(npl + ntp):
        m = 0.0 if i >= npl else rng.loguniform(1e-6, 1e-3)
        if i >= npl and role == "massive" and not many:
            m = rng.loguniform(1e-7, 1e-4)          # massive test particle
        if i == npl - 1 and npl >= 2 and role == "zero-mass-active":
            m = 0.0                                  # a zero-mass body among the active ones
        e = rng.uniform(0.0, 0.25)
        inc = rng.uniform(0.0, 0.2)
        f = rng.uniform(0, 2 * math.pi)
        om = rng.uniform(0, 2 * math.pi)
        aa = a if not (many and i >= npl) else rng.uniform(0.5, 6.0)
        r = aa * (1 - e * e) / (1 + e * math.cos(f))
        v0 = math.sqrt(G * m0 / (aa * (1 - e * e)))
        xo, yo = r * math.cos(f), r * math.sin(f)
        vxo, vyo = -v0 * math.sin(f), v0 * (e + math.cos(f))
        co, so, ci, si = math.cos(om), math.sin(om), math.cos(inc), math.sin(inc)
        x, y, z = co * xo - so * yo * ci, so * xo + co * yo * ci, yo * si
        vx, vy, vz = co * vxo - so * vyo * ci, so * vxo + co * vyo * ci, vyo * si
        ps.append((m, x, y, z, vx, vy, vz))
        if not (many and i >= npl):
            a *= rng.uniform(1.6, 2.2)
    if (not physics) and want("hyper", 0.08):
        # an unbound (hyperbolic) light body passing outside the system
        q, vinf = a * 1.5, math.sqrt(G * m0 / a) * 1.2
        vp = math.sqrt(vinf * vinf + 2 * G * m0 / q)
        ps.append((0.0 if ntp else 1e-9, q, 0.0, 0.0, 0.0, vp, 0.0))
        if ntp:
            ntp += 1
        else:
            npl += 1
        dims.append("hyperbolic body")
    # centre of mass away from the origin and moving
    off = [rng.normal() * 0.3 for _ in range(6)]
    ps = [(p[0],) + tuple(p[1 + k] + off[k] for k in range(6)) for p in ps]
    dims.append("centre of mass offset and moving")
    tp_type = rng.choice([0, 0, 1]) if ntp else 0
    n_active = (npl + 1) if (ntp and rng.chance(0.8)) else -1
    if force in ("massive0", "massless0", "massive1", "massless1"):
        tp_type = int(force[-1])
        n_active = npl + 1
    if spec is not None and ntp and spec["roles"] != "single" and not force.startswith(("massive", "massless")):
        n_active = -1
    if ntp and ((spec is None and rng.chance(0.1)) or force == "single"):
        n_active = 1                                 # a single active body, everything else test particles
        dims.append("single active body")
    if n_active != -1:
        dims.append("N_active < N, testparticle_type %d" % tp_type)
        if any(p[0] != 0.0 for p in ps[n_active:]):
            dims.append("massive test particles, type %d" % tp_type)
        else:
            dims.append("massless test particles")
    if any(p[0] == 0.0 for p in ps[1:(n_active if n_active != -1 else len(ps))]):
        dims.append("zero-mass active body")
    period = 2 * math.pi * amin ** 1.5 / math.sqrt(G * m0)
    dt = period * rng.uniform(0.01, 0.06)
    if (not physics) and want("long", 0.07):
        dt = period * rng.uniform(1.1, 2.3)
        dims.append("step longer than a period")
    if (spec["neg"] if spec is not None else (rng.chance(0.2) or force == "neg")):
        dt = -dt
        dims.append("dt < 0")
    t0 = 0.0
    if (not physics) and want("huge", 0.08):
        t0 = dt * rng.uniform(1e9, 1e12)
        dims.append("|t|/dt huge")
    soft = 0.0
    if want("soft", 0.08):
        soft = 1e-3 * amin
        dims.append("softening != 0")
    return {"particles": ps, "N_active": n_active, "testparticle_type": tp_type, "dt": dt, "G": G, "t0": t0,
            "softening": soft, "dims": dims}


def no_testparticles(system):
    system["N_active"], system["testparticle_type"] = -1, 0
    system["dims"] = [d for d in system.get("dims", []) if not d.startswith(("N_active", "massive test", "massless test", "single active"))]
    return system


def gen_crossing(rng):
    """star + two planets on crossing orbits started close to each other (+ a third one far out,
    + sometimes a test particle): close encounters within the first steps"""
    m0 = 1.0
    ps = [(m0, 0.0, 0.0, 0.0, 0.0, 0.0, 0.0)]
    f0 = rng.uniform(0, 2 * math.pi)
    for k, (a, e, df) in enumerate([(1.0, rng.uniform(0.0, 0.1), 0.0), (rng.uniform(1.01, 1.06), rng.uniform(0.05, 0.15), rng.uniform(-0.06, 0.02)),
                                    (rng.uniform(2.6, 3.2), 0.02, 2.0)]):
        m = rng.loguniform(3e-5, 1e-3)
        f = f0 + df
        r = a * (1 - e * e) / (1 + e * math.cos(f))
        v0 = math.sqrt(m0 / (a * (1 - e * e)))
        ps.append((m, r * math.cos(f), r * math.sin(f), 0.01 * k, -v0 * math.sin(f), v0 * (e + math.cos(f)), 0.0))
    ntp = rng.choice([0, 0, 1])
    if ntp:
        ps.append((0.0, 1.03 * math.cos(f0 + 0.03), 1.03 * math.sin(f0 + 0.03), 0.0, -0.98 * math.sin(f0 + 0.03), 0.98 * math.cos(f0 + 0.03), 0.0))
    return {"particles": ps, "N_active": (4 if ntp and rng.chance(0.7) else -1), "testparticle_type": rng.choice([0, 1]) if ntp else 0,
            "dt": 2 * math.pi * rng.uniform(0.01, 0.03), "dims": ["close encounters (MERCURIUS)"]}


class LibProxy:
    """records which functions of librebound this run calls (entry-point obligation)"""

    def __init__(self, real):
        object.__setattr__(self, "_real", real)
        object.__setattr__(self, "used", {})

    def __getattr__(self, name):
        self.used[name] = self.used.get(name, 0) + 1
        return getattr(self._real, name)


PYUSED = {}


def pyused(name):
    PYUSED[name] = PYUSED.get(name, 0) + 1


class World:
    """the scratch build + helpers that construct simulations and execute primitive lists"""

    def __init__(self, rebound, K):
        self.rb = rebound
        self.lib = LibProxy(rebound.clibrebound)
        self.K = K
        self.P = rebound.Particle
        self.psz = ctypes.sizeof(rebound.Particle)
        lib = self.lib
        for n in ("reb_whfast_kepler_step", "reb_whfast_com_step", "reb_whfast_jump_step", "reb_whfast_interaction_step",
                  "reb_integrator_mercurius_interaction_step", "reb_integrator_mercurius_jump_step",
                  "reb_integrator_mercurius_com_step", "reb_integrator_mercurius_kepler_step"):
            getattr(lib, n).argtypes = [ctypes.c_void_p, D]
            getattr(lib, n).restype = None
        for n in ("reb_integrator_whfast_from_inertial", "reb_integrator_whfast_to_inertial", "reb_simulation_update_acceleration",
                  "reb_whfast_calculate_jerk", "reb_simulation_step", "reb_simulation_synchronize", "reb_simulation_rescale_var", "reb_simulation_reset_integrator",
                  "reb_integrator_mercurius_inertial_to_dh", "reb_integrator_mercurius_dh_to_inertial",
                  "reb_integrator_mercurius_part2"):
            getattr(lib, n).argtypes = [ctypes.c_void_p]
            getattr(lib, n).restype = None
        lib.reb_integrator_whfast_init.argtypes = [ctypes.c_void_p]
        lib.reb_integrator_whfast_init.restype = ctypes.c_int
        lib.reb_simulation_energy.restype = D
        lib.reb_calculate_and_apply_jerk.argtypes = [ctypes.c_void_p, D]
        lib.reb_calculate_and_apply_jerk.restype = None
        lib.reb_simulation_integrate.argtypes = [ctypes.c_void_p, D]
        lib.reb_simulation_integrate.restype = ctypes.c_int
        lib.reb_integrator_mercurius_calculate_dcrit_for_particle.argtypes = [ctypes.c_void_p, ctypes.c_uint]
        lib.reb_integrator_mercurius_calculate_dcrit_for_particle.restype = D
        self.libc = ctypes.CDLL(None)
        self.libc.malloc.restype = ctypes.c_void_p
        self.libc.malloc.argtypes = [ctypes.c_size_t]

    # -- construction
    def sim(self, system, integrator, setup):
        s = self.rb.Simulation()
        for (m, x, y, z, vx, vy, vz) in system["particles"]:
            s.add(m=m, x=x, y=y, z=z, vx=vx, vy=vy, vz=vz)
        s.N_active = system["N_active"]
        s.testparticle_type = system["testparticle_type"]
        s.dt = system["dt"]
        s.G = system.get("G", 1.0)
        s.t = system.get("t0", 0.0)
        s.softening = system.get("softening", 0.0)
        s.integrator = integrator
        setup(s)
        return s

    # -- observation
    def pbytes(self, ptr, n, nbytes=80):
        """first 80 bytes (x y z vx vy vz ax ay az m) of each particle"""
        if not ptr:
            return None
        base = ctypes.addressof(ptr.contents)
        return [ctypes.string_at(base + i * self.psz, nbytes) for i in range(n)]

    def snap(self, s, which="whfast"):
        d = {"particles": self.pbytes(s._particles, s.N), "t": d2h(s.t), "dt": d2h(s.dt)}
        if which in ("whfast", "saba"):
            pj = self.pbytes(s.ri_whfast._p_jh, s.N) if s.ri_whfast._N_allocated == s.N else None
            d["p_jh"] = pj
        return d

    def zero_pjh_acc(self, s):
        """p_jh comes from realloc: give its never-written members a defined value in both twins"""
        pj = s.ri_whfast._p_jh
        for i in range(s.N):
            pj[i].ax = pj[i].ay = pj[i].az = 0.0
            pj[i].m = 0.0

    # -- the executor of primitive-call lists
    def execute(self, s, prims, st):
        lib, K = self.lib, self.K
        r = ctypes.byref(s)
        N = s.N
        nact = N if (s.N_active == -1 or s.testparticle_type == 1) else s.N_active
        for p in prims:
            name, _, arg = p.partition("=")
            dt = s.dt
            if name == "cbEdit":
                if st.get("in_cb"):          # the plain user 'poke' op is applied to both twins by the caller
                    cb_edit(s)
            elif name == "stepEnd":
                st["dld"] = s.dt
                s.dt_last_done = s.dt
            elif name == "flipDt":
                s.dt = -s.dt
            elif name == "intBegin":
                st["last_full"] = s.dt
                st["dld"] = 0.0
                s.dt_last_done = 0.0
            elif name == "setDtLast":
                if st["dld"] != 0.:
                    st["last_full"] = st["dld"]
                s.dt = st["tmax"] - s.t
            elif name == "restoreDt":
                s.dt = st["last_full"]
            elif name == "init":
                had = s.ri_whfast._N_allocated == N
                if lib.reb_integrator_whfast_init(r) != 0:
                    raise Infra("replay: init failed on a configuration the model accepts")
                if not had:
                    self.zero_pjh_acc(s)
            elif name == "warn":
                st["warn"] = st.get("warn", 0) + 1
            elif name == "fromI":
                lib.reb_integrator_whfast_from_inertial(r)
                st["pj_defined"] = True
            elif name == "toI":
                lib.reb_integrator_whfast_to_inertial(r)
            elif name == "posJ":
                lib.reb_particles_transform_jacobi_to_inertial_pos(s._particles, s.ri_whfast._p_jh, s._particles,
                                                                   ctypes.c_uint(N), ctypes.c_uint(nact))
            elif name == "posB":
                lib.reb_particles_transform_barycentric_to_inertial_pos(s._particles, s.ri_whfast._p_jh,
                                                                        ctypes.c_uint(N), ctypes.c_uint(nact))
            elif name == "K":
                lib.reb_whfast_kepler_step(r, ev(arg, dt, K))
            elif name == "C":
                lib.reb_whfast_com_step(r, ev(arg, dt, K))
            elif name == "J":
                lib.reb_whfast_jump_step(r, ev(arg, dt, K))
            elif name == "I":
                lib.reb_whfast_interaction_step(r, ev(arg, dt, K))
            elif name == "upd":
                lib.reb_simulation_update_acceleration(r)
            elif name == "jerk":
                lib.reb_whfast_calculate_jerk(r)
            elif name == "mkFold":
                pj, pp = s.ri_whfast._p_jh, s._particles
                pre = dt * dt / 12.
                for i in range(N):
                    pp[i].ax = pp[i].ax + pre * pj[i].ax
                    pp[i].ay = pp[i].ay + pre * pj[i].ay
                    pp[i].az = pp[i].az + pre * pj[i].az
            elif name == "jacAcc":
                lib.reb_particles_transform_inertial_to_jacobi_acc(s._particles, s.ri_whfast._p_jh, s._particles,
                                                                   ctypes.c_uint(N), ctypes.c_uint(nact))
            elif name == "lazyShift":
                pj = s.ri_whfast._p_jh
                st["tmp"] = [(pj[i].x, pj[i].y, pj[i].z, pj[i].ax, pj[i].ay, pj[i].az) for i in range(N)]
                pre = dt * dt / 12.
                for i in range(1, N):
                    t = st["tmp"][i]
                    pj[i].x = pj[i].x + pre * t[3]
                    pj[i].y = pj[i].y + pre * t[4]
                    pj[i].z = pj[i].z + pre * t[5]
            elif name == "lazyReset":
                pj = s.ri_whfast._p_jh
                for i in range(1, N):
                    pj[i].x, pj[i].y, pj[i].z = st["tmp"][i][:3]
            elif name == "save":
                st["saved"] = ctypes.string_at(ctypes.addressof(s.ri_whfast._p_jh.contents), N * self.psz)
            elif name == "restore":
                ctypes.memmove(ctypes.addressof(s.ri_whfast._p_jh.contents), st["saved"], N * self.psz)
            elif name == "T":
                s.t = s.t + ev(arg, dt, K)
            elif name == "mAllocD":
                rim = s.ri_mercurius
                rim._dcrit = ctypes.cast(self.libc.malloc(8 * N), ctypes.POINTER(D))
                rim._N_allocated_dcrit = N
            elif name == "mAllocT":
                rim = s.ri_mercurius
                rim._particles_backup = ctypes.cast(self.libc.malloc(self.psz * N), ctypes.POINTER(self.P))
                rim._encounter_map = ctypes.cast(self.libc.malloc(4 * N), ctypes.POINTER(ctypes.c_int))
                rim._N_allocated = N
            elif name == "mToDh":
                lib.reb_integrator_mercurius_inertial_to_dh(r)
            elif name == "mToI":
                lib.reb_integrator_mercurius_dh_to_inertial(r)
            elif name == "mDcrit":
                rim = s.ri_mercurius
                rim._dcrit[0] = 2. * s._particles[0].r
                for i in range(1, N):
                    rim._dcrit[i] = lib.reb_integrator_mercurius_calculate_dcrit_for_particle(r, ctypes.c_uint(i))
            elif name == "mSetup":
                rim = s.ri_mercurius
                s._gravity = 4                 # REB_GRAVITY_MERCURIUS
                rim.mode = 0
                if not rim._L:
                    FT = type(rim._L)
                    rim._L = FT(("reb_integrator_mercurius_L_mercury", lib))
            elif name == "mPart2":
                s.ri_mercurius.is_synchronized = int(arg)
                if st.get("post_cb"):
                    # MERCURIUS also calls post_timestep_modifications inside the IAS15 sub-steps of a
                    # close encounter (mercurius.c:362-364): part2 must see the callback
                    def cb(sp):
                        cb_edit(sp.contents)
                    s.post_timestep_modifications = cb
                lib.reb_integrator_mercurius_part2(r)
                if st.get("post_cb"):
                    s._post_timestep_modifications = type(s._post_timestep_modifications)()
            elif name == "mI":
                lib.reb_integrator_mercurius_interaction_step(r, ev(arg, dt, K))
            elif name == "mJ":
                lib.reb_integrator_mercurius_jump_step(r, ev(arg, dt, K))
            elif name == "mC":
                lib.reb_integrator_mercurius_com_step(r, ev(arg, dt, K))
            elif name == "mKE":
                rim = s.ri_mercurius
                ctypes.memmove(ctypes.addressof(rim._particles_backup.contents), ctypes.addressof(s._particles.contents), N * self.psz)
                lib.reb_integrator_mercurius_kepler_step(r, ev(arg, dt, K))
                # encounter_predict / encounter_step are static: the replay is restricted to steps
                # without close encounter (checked on the twin), where they change nothing persisted
            elif name in ("vC", "vPos", "vPosvel"):
                nreal = N - s.N_var
                nact_r = nreal if (s.N_active == -1 or s.testparticle_type == 1) else s.N_active
                for v in range(s.N_var_config):
                    idx = s.var_config[v].index
                    pjv = ctypes.cast(ctypes.addressof(s.ri_whfast._p_jh.contents) + idx * self.psz, ctypes.POINTER(self.P))
                    ppv = ctypes.cast(ctypes.addressof(s._particles.contents) + idx * self.psz, ctypes.POINTER(self.P))
                    if name == "vC":
                        tau = ev(arg, dt, K)
                        pjv[0].x = pjv[0].x + tau * pjv[0].vx
                        pjv[0].y = pjv[0].y + tau * pjv[0].vy
                        pjv[0].z = pjv[0].z + tau * pjv[0].vz
                    elif name == "vPos":
                        lib.reb_particles_transform_jacobi_to_inertial_pos(ppv, pjv, s._particles, ctypes.c_uint(nreal), ctypes.c_uint(nact_r))
                    else:
                        lib.reb_particles_transform_jacobi_to_inertial_posvel(ppv, pjv, s._particles, ctypes.c_uint(nreal), ctypes.c_uint(nact_r))
            elif name == "vRescale":
                # reb_simulation_rescale_var re-implemented (tools.c; shape checked by extract_constants): arg = the
                # model's verdict (1: a coordinate exceeds 1e100 AND the integrator is synchronised -> rescale)
                nreal_ = s.N - s.N_var
                for v in range(s.N_var_config):
                    vc = s.var_config[v]
                    if vc._lrescale < 0:
                        continue
                    scale = 0.0
                    for i in range(nreal_):
                        q = s._particles[vc.index + i]
                        scale = max(abs(q.x), abs(q.y), abs(q.z), abs(q.vx), abs(q.vy), abs(q.vz), scale)
                    if (scale > 1e100) and arg != "1":
                        st["rescale_note"] = "coordinate > 1e100, model: not rescaled (unsynchronised)"
                        continue
                    if not (scale > 1e100):
                        if arg == "1":
                            st["rescale_mismatch"] = "model says a rescaling happens, no variational coordinate exceeds 1e100"
                        continue
                    s.var_config[v]._lrescale = vc._lrescale + math.log(scale)
                    for i in range(nreal_):
                        q = s._particles[vc.index + i]
                        q.m = q.m / scale
                        q.x, q.y, q.z = q.x / scale, q.y / scale, q.z / scale
                        q.vx, q.vy, q.vz = q.vx / scale, q.vy / scale, q.vz / scale
                    st["rescaled"] = st.get("rescaled", 0) + 1
            elif name == "sabaInit":
                if arg == "1":
                    s._gravity = 5            # REB_GRAVITY_JACOBI
                else:
                    s.gravity_ignore = 1
            elif name == "posJA":
                lib.reb_particles_transform_jacobi_to_inertial_pos(s._particles, s.ri_whfast._p_jh, s._particles,
                                                                   ctypes.c_uint(N), ctypes.c_uint(nact if K["sabaSplit"] else N))
            elif name == "jacAccA":
                lib.reb_particles_transform_inertial_to_jacobi_acc(s._particles, s.ri_whfast._p_jh, s._particles,
                                                                   ctypes.c_uint(N), ctypes.c_uint(nact if K["sabaSplit"] else N))
            elif name == "toIA":
                lib.reb_particles_transform_jacobi_to_inertial_posvel(s._particles, s.ri_whfast._p_jh, s._particles,
                                                                      ctypes.c_uint(N), ctypes.c_uint(nact if K["sabaSplit"] else N))
            elif name == "sabaFold":
                pj, pp = s.ri_whfast._p_jh, s._particles
                pre = dt * dt
                for i in range(N):
                    pp[i].ax = pre * pj[i].ax
                    pp[i].ay = pre * pj[i].ay
                    pp[i].az = pre * pj[i].az
            elif name == "sabaLazyKick":
                pj = s.ri_whfast._p_jh
                pre = ev(arg, dt, K) * 12.
                for i in range(1, N):
                    t = st["tmp"][i]
                    pj[i].vx = pj[i].vx + pre * (pj[i].ax - t[3])
                    pj[i].vy = pj[i].vy + pre * (pj[i].ay - t[4])
                    pj[i].vz = pj[i].vz + pre * (pj[i].az - t[5])
                    pj[i].x, pj[i].y, pj[i].z = t[:3]
            else:
                raise Infra("replay: unknown primitive " + p)


# ----------------------------------------------------------------------------- WHFast replay
def whfast_options(rng):
    """a point of the option lattice the init routine accepts (mostly) or rejects (sometimes)"""
    coord = rng.choice([0, 0, 1, 2, 3])
    kernel = rng.choice([0, 0, 1, 2, 3]) if coord == 0 else 0
    corrector = rng.choice([0, 0, 3, 5, 7, 11, 17]) if coord in (0, 3) else 0
    corrector2 = 1 if (coord == 0 and rng.chance(0.3)) else 0
    mode = rng.choice(["safe", "unsafe", "unsafe", "keep", "keep"])
    return dict(coord=coord, kernel=kernel, corrector=corrector, corrector2=corrector2,
                safe=int(mode == "safe"), keep=int(mode == "keep"))


def gen_ops(rng, n, allow_user=True):
    ops = []
    for _ in range(n):
        u = rng.uniform()
        if u < 0.5:
            ops.append("s")
        elif u < 0.75:
            ops.append("y")
        elif u < 0.85:
            ops.append("r")
        elif allow_user and u < 0.93:
            ops += ["y", "p", "f"]       # the documented way to modify particles in unsafe mode
        elif allow_user and u < 0.97:
            ops.append("f")
        elif allow_user:
            ops.append("p")              # the user forgets the flag
        else:
            ops.append("s")
    return ops


class Clock:
    """emulation of the time arithmetic of reb_simulation_step / reb_check_exit / integrate_raw
    (decides how many full and shortened steps an integrate call makes)"""

    def __init__(self, dt, halves, t0=0.0):
        self.t, self.dt, self.halves = t0, dt, halves

    def step(self):
        if self.halves:
            self.t = self.t + self.dt / 2.
            self.t = self.t + self.dt / 2.
        else:
            self.t = self.t + self.dt

    def integrate(self, tmax, exact):
        reverse = 0
        if tmax != self.t:
            nd = math.copysign(self.dt, 1.0 if tmax > self.t else -1.0)
            reverse = int(nd != self.dt)
            self.dt = nd
        last_full, dld, last = self.dt, 0.0, False
        n = k = 0
        for _ in range(100000):
            sg = math.copysign(1., self.dt)
            if exact:
                if (self.t + self.dt) * sg >= tmax * sg:
                    if self.t == tmax:
                        break
                    if last:
                        ts = 1e-12 * abs(tmax)
                        if ts < 1e-200:
                            ts = 1e-12
                        if abs(self.t - tmax) < ts:
                            break
                    else:
                        last = True
                        if dld != 0.:
                            last_full = dld
                    self.dt = tmax - self.t
                    k += 1
                elif last:
                    raise Infra("clock emulation: unexpected return to RUNNING")
            elif self.t * sg >= tmax * sg:
                break
            self.step()
            dld = self.dt
            if not last:
                n += 1
        rc = int(bool(exact) and self.dt != last_full)
        if exact:
            self.dt = last_full
        return n, k, reverse, rc


def add_integrates(rng, ops, clock, syncFirst, pure=False, no_exact=False, no_cb=False):
    """replace some ops by integrate calls; returns (driver tokens, python ops)"""
    toks, pyops = [], []
    for op in ops:
        if op == "s" and rng.chance(0.35):
            kind = rng.choice(["lt", "lt", "eq", "gt", "gt", "rev", "zero"])
            adt = abs(clock.dt)
            delta = {"lt": rng.uniform(0.05, 0.95) * adt, "eq": adt, "gt": rng.uniform(1.05, 4.5) * adt,
                     "rev": -rng.uniform(0.05, 3.5) * adt, "zero": 0.0}[kind]
            fwd = math.copysign(1., clock.dt)
            tmax = clock.t + fwd * delta
            exact = 0 if no_exact else int(rng.chance(0.6))
            n, k, rev, rc = clock.integrate(tmax, exact)
            toks.append("i:%d:%d:%d:%d:%d:%d:%d" % (n, k, exact, rev, syncFirst[0], syncFirst[1], rc))
            pyops.append(("i", tmax, exact, kind))
        elif op == "s" and rng.chance(0.25) and not no_cb:
            pre, post = rng.choice([(1, 0), (0, 1), (1, 1)])
            clock.step()
            toks.append("c:%d:%d" % (pre, post))
            pyops.append(("c", pre, post))
        else:
            if op == "s":
                clock.step()
            toks.append(op)
            pyops.append((op,))
    return toks, pyops


VAR_HUGE = 1e105     # variational coordinates ~1e102: reb_simulation_rescale_var (threshold 1e100) fires at the end of the next step


def seed_variation(s, var, scale=1.0):
    """add_variation() creates all-zero variational particles, which every linear map leaves at zero:
    give them a deterministic non-trivial displacement (scale = VAR_HUGE: large enough for a rescaling event)"""
    nreal = s.N - s.N_var
    for i in range(nreal):
        p = s.particles[var.index + i]
        k = var.index + i
        p.x, p.y, p.z = scale * 1e-3 * math.sin(1.0 + k), scale * 1e-3 * math.cos(2.0 + 3 * k), scale * 1e-4 * math.sin(5.0 * k)
        p.vx, p.vy, p.vz = scale * 1e-3 * math.cos(0.3 + k), -scale * 1e-3 * math.sin(1.7 * k + 0.1), scale * 1e-4 * math.cos(4.0 * k)


def var_big(s):
    """does a coordinate of a set of variational particles exceed the rescaling threshold?"""
    nreal = s.N - s.N_var
    for v in range(s.N_var_config):
        idx = s.var_config[v].index
        for i in range(nreal):
            p = s._particles[idx + i]
            if max(abs(p.x), abs(p.y), abs(p.z), abs(p.vx), abs(p.vy), abs(p.vz)) > 1e100:
                return 1
    return 0


def cb_edit(s):
    """what the pre/post timestep callbacks do in the replay: a small drag on the velocities"""
    pp = s._particles
    for i in range(1, s.N):
        pp[i].vx = pp[i].vx * (1. - 1e-3)
        pp[i].vy = pp[i].vy * (1. - 1e-3)
        pp[i].vz = pp[i].vz * (1. - 2e-3)


def real_step_with_callbacks(W, A, pre, post):
    def cb(sp):
        cb_edit(sp.contents)
    if pre:
        A.pre_timestep_modifications = cb
    if post:
        A.post_timestep_modifications = cb
    W.lib.reb_simulation_step(ctypes.byref(A))
    FT = type(A._pre_timestep_modifications)
    A._pre_timestep_modifications = FT()
    A._post_timestep_modifications = FT()


# ----------------------------------------------------------------------------- pairwise covering arrays
ROLES = ["plain", "massless0", "massless1", "massive0", "massive1", "single", "zeroactive"]
FEATURES = ["none", "G", "soft", "long", "huge", "hyper", "many"]
EVENTS = ["s", "y", "r", "p", "f", "g", "c", "ie", "in", "ir", "iz", "ms", "mk"]
PAIRS = {"seen": set(), "adj": set(), "tri": set()}


def family_factors(family):
    """the explicit factors of one replay family and their finite value sets"""
    common = {"roles": ROLES, "neg": [0, 1], "feature": FEATURES}
    if family == "whfast":
        f = {"coord": [0, 1, 2, 3], "kernel": [0, 1, 2, 3], "corrector": [0, 3, 5, 7, 11, 17], "corrector2": [0, 1],
             "mode": ["safe", "unsafe", "keep"], "event": [e for e in EVENTS if e != "g"]}
    elif family == "saba":
        f = {"type": sorted(SABA_ROWS), "mode": ["safe", "unsafe", "keep"], "event": [e for e in EVENTS if e != "g"]}
    elif family == "var":
        f = {"nvar": [1, 2], "vscale": ["normal", "huge"], "mode": ["safe", "unsafe", "keep"], "event": [e for e in EVENTS if e != "g"]}
        common = {"roles": ["plain", "zeroactive"], "neg": [0, 1], "feature": [x for x in FEATURES if x != "many"]}
    elif family == "mercurius":
        f = {"mode": ["safe", "unsafe"], "event": [e for e in EVENTS if e != "mk"]}
        common = {"roles": ROLES, "neg": [0, 1], "feature": ["none", "G", "soft", "huge"]}
    elif family == "mercuriusEnc":
        # no 'ie' (shortened last step) and no callback steps here: both were observed to make the IAS15 sub-integration
        # of an encounter spin forever (corpus/C09/mercurius_integrate_hang.json, last_hang.txt) — termination is not C09's
        f = {"mode": ["safe", "unsafe"], "event": [e for e in EVENTS if e not in ("mk", "ie", "c")]}
        common = {"neg": [0, 1]}
    else:  # eos
        f = {"phi0": list(range(9)), "phi1": list(range(9)), "n": [1, 2, 3], "mode": ["safe", "unsafe"], "event": ["s", "y", "r", "ms"]}
    f.update(common)
    return f


def case_ok(family, cs):
    """constraints: combinations the code rejects or that have no meaning — listed, never silent"""
    if family == "whfast":
        if cs.get("kernel") and cs.get("coord", 0) != 0:
            return False            # whfast_init: "Non-standard kernel requires Jacobi coordinates."
        if cs.get("corrector") and cs.get("coord", 0) not in (0, 3):
            return False            # whfast_init: correctors only with Jacobi / barycentric coordinates
    if cs.get("feature") == "many" and cs.get("roles") in ("plain", "zeroactive"):
        return False                # >128 particles are test particles here: needs a role with test particles
    if cs.get("event") == "mk" and cs.get("mode") == "safe":
        return False                # keep_unsynchronized=1 with safe_mode=1 is an error configuration (whfast_init / saba part1)
    return True


def pair_ok(family, f, a, g, b):
    cs = {f: a, g: b}
    return case_ok(family, cs)


def all_pairs(family):
    F = family_factors(family)
    names = sorted(F)
    ok, excl = [], 0
    for i, f in enumerate(names):
        for g in names[i + 1:]:
            for a in F[f]:
                for b in F[g]:
                    if pair_ok(family, f, a, g, b):
                        ok.append((family, f, a, g, b))
                    else:
                        excl += 1
    return ok, excl


def covering_array(family, rng, ncand=60):
    """greedy all-pairs: repeatedly take, from random candidates, the case covering most uncovered pairs"""
    F = family_factors(family)
    names = sorted(F)
    order = [p[1:] for p in all_pairs(family)[0]]      # deterministic order (no set iteration: hash seeds differ per process)
    need = set(order)
    cases = []
    ptr = 0
    while need:
        while order[ptr] not in need:
            ptr += 1
        best, bestn = None, -1
        seedp = order[ptr]                  # guarantee progress: candidates contain one uncovered pair
        legal = 0
        for _ in range(40 * ncand):
            cs = {f: rng.choice(F[f]) for f in names}
            cs[seedp[0]], cs[seedp[2]] = seedp[1], seedp[3]
            if not case_ok(family, cs):
                continue
            legal += 1
            n = sum(1 for i, f in enumerate(names) for g in names[i + 1:] if (f, cs[f], g, cs[g]) in need)
            if n > bestn:
                best, bestn = cs, n
            if legal >= ncand:
                break
        if best is None:
            need.discard(seedp)             # cannot be completed to a legal case: counts as excluded below
            continue
        cases.append(best)
        for i, f in enumerate(names):
            for g in names[i + 1:]:
                need.discard((f, best[f], g, best[g]))
    return cases


def three_way(family, rng):
    """full factorial of the three factors closest to the mechanism (mode x event x dt sign), the other
    factors random — thorough tier"""
    F = family_factors(family)
    out = []
    for m in F["mode"]:
        for e in F["event"]:
            for ng in F.get("neg", [0]):
                for _ in range(20):
                    cs = {f: rng.choice(F[f]) for f in F}
                    cs.update(mode=m, event=e, neg=ng)
                    if case_ok(family, cs):
                        out.append(cs)
                        break
    return out


def record_case(family, cs, events):
    names = sorted(cs)
    for i, f in enumerate(names):
        for g in names[i + 1:]:
            PAIRS["seen"].add((family, f, cs[f], g, cs[g]))
    for a, b in zip(events, events[1:]):
        PAIRS["adj"].add((family, a, b))
    if "mode" in cs and "event" in cs:
        PAIRS["tri"].add((family, cs["mode"], cs["event"], cs.get("neg", 0)))


def build_events(rng, family, cs, length=None):
    """an op sequence (event names) that contains the required event and prefers adjacency pairs
    (event A directly followed by event B) not yet generated for this family"""
    alpha = family_factors(family)["event"]
    n = length or rng.randint(6, 10)
    ev = ["s"] if rng.chance(0.8) else []
    mode = cs.get("mode", "unsafe")
    while len(ev) < n:
        prev = ev[-1] if ev else None
        cand = [e for e in alpha if not (e == "mk" and family in ("mercurius", "mercuriusEnc", "eos"))]
        fresh = [e for e in cand if prev is not None and (family, prev, e) not in PAIRS["adj"] and (family, prev, e) not in PAIRS.setdefault("adjplan", set())]
        e = rng.choice(fresh) if fresh and rng.chance(0.8) else rng.choice(cand + ["s", "s", "y"])
        if prev is not None:
            PAIRS["adjplan"].add((family, prev, e))
        ev.append(e)
    if cs.get("event") and cs["event"] not in ev:
        ev.insert(rng.randint(1, len(ev)), cs["event"])
    if "s" not in ev and "c" not in ev:
        ev.append("s")
    return ev


def materialize(rng, events, clock, K, mode, family):
    """event names -> (driver tokens, python ops); integrate calls get their (n, k, …) from the clock emulation;
    ms / mk toggle safe_mode / keep_unsynchronized unless that would create the error configuration"""
    toks, pyops, done = [], [], []
    safe, keep = int(mode == "safe"), int(mode == "keep")
    for e in events:
        if e in ("ie", "in", "ir", "iz"):
            adt = abs(clock.dt)
            kind, exact = {"ie": (rng.choice(["lt", "gt"]), 1), "in": (rng.choice(["lt", "eq", "gt"]), 0),
                           "ir": ("rev", int(rng.chance(0.5)) if family != "mercuriusEnc" else 0), "iz": ("zero", 1)}[e]
            delta = {"lt": rng.uniform(0.05, 0.95) * adt, "eq": adt, "gt": rng.uniform(1.05, 4.5) * adt,
                     "rev": -rng.uniform(0.05, 3.5) * adt, "zero": 0.0}[kind]
            tmax = clock.t + math.copysign(1., clock.dt) * delta
            n, k, rev, rc = clock.integrate(tmax, exact)
            toks.append("i:%d:%d:%d:%d:%d:%d:%d" % (n, k, exact, rev, K["syncFirst"], K["forceSync"], rc))
            pyops.append(("i", tmax, exact, kind))
        elif e == "c":
            pre, post = rng.choice([(1, 0), (0, 1), (1, 1)])
            clock.step()
            toks.append("c:%d:%d" % (pre, post))
            pyops.append(("c", pre, post))
        elif e == "ms":
            if safe == 0 and keep == 1:
                continue                          # would be keep_unsynchronized=1 with safe_mode=1
            safe = 1 - safe
            toks.append("ms%d" % safe)
            pyops.append(("ms", safe))
        elif e == "mk":
            if family in ("mercurius", "mercuriusEnc", "eos") or (keep == 0 and safe == 1):
                continue
            keep = 1 - keep
            toks.append("mk%d" % keep)
            pyops.append(("mk", keep))
        else:
            if e == "s":
                clock.step()
            toks.append(e)
            pyops.append((e,))
        done.append(e)
    return toks, pyops, done


def dry_done(family, cs, events):
    """which events survive materialisation (toggles that would create the error configuration are skipped)"""
    class _K(dict):
        def __missing__(self, k):
            return 0
    return materialize(SplitMix(1), events, Clock(0.1, False), _K(), cs.get("mode", "unsafe"), family)[2]


def family_specs(c, family):
    """the cases of this run, each with its op sequence (`_events`): thorough = the full pairwise array + the
    3-way block + a fill that makes every feasible event adjacency (A directly followed by B) occur; quick = a
    slice of the array rotated by VERIF_SEED (every pair is generated within 4 consecutive seeds)"""
    rng = SplitMix(977 + sum(ord(ch) for ch in family))      # the array itself does not depend on the seed
    arr = covering_array(family, rng)
    if c.thorough:
        arr = arr + three_way(family, rng)
    PAIRS.setdefault("adjplan", set())
    adj = set()
    for cs in arr:
        cs["_events"] = build_events(rng, family, cs, length=(rng.randint(8, 14) if family == "mercuriusEnc" else rng.randint(3, 6) if family == "eos" else None))
        d = dry_done(family, cs, cs["_events"])
        adj |= set(zip(d, d[1:]))
    alpha = family_factors(family)["event"]
    infeasible = []
    if c.thorough:
        F = family_factors(family)
        for a in alpha:
            for b in alpha:
                if (a, b) in adj:
                    continue
                placed = False
                for m in F["mode"]:
                    for pre in (["s"], ["s", "mk"], ["s", "ms"], []):
                        for _ in range(10):
                            cs = {f: rng.choice(F[f]) for f in F}
                            cs.update(mode=m, event=a)
                            if case_ok(family, cs):
                                break
                        else:
                            continue
                        ev = pre + [a, b, "s"]
                        d = dry_done(family, cs, ev)
                        if (a, b) in set(zip(d, d[1:])):
                            cs["_events"] = ev
                            arr.append(cs)
                            adj |= set(zip(d, d[1:]))
                            placed = True
                            break
                    if placed:
                        break
                if not placed:
                    infeasible.append((a, b))
    PAIRS.setdefault("adj_infeasible", {})[family] = infeasible
    if c.thorough:
        return arr
    return [cs for i, cs in enumerate(arr) if i % 4 == c.seed % 4]


def spec_core(cs):
    return {k: v for k, v in cs.items() if not k.startswith("_")}


def set_mode_flags(s, family, what, b):
    ri = {"whfast": s.ri_whfast, "var": s.ri_whfast, "saba": s.ri_saba, "mercurius": s.ri_mercurius, "mercuriusEnc": s.ri_mercurius,
          "eos": s.ri_eos}[family]
    if what == "ms":
        ri.safe_mode = b
    else:
        ri.keep_unsynchronized = b


def whfast_setup(o):
    def f(s):
        w = s.ri_whfast
        w._coordinates = o["coord"]
        w._kernel = o["kernel"]
        w.corrector = o["corrector"]
        w.corrector2 = o["corrector2"]
        w.safe_mode = o["safe"]
        w.keep_unsynchronized = o["keep"]
    return f


def saba_setup(o):
    def f(s):
        s.ri_saba._type = o["type"]
        s.ri_saba.safe_mode = o["safe"]
        s.ri_saba.keep_unsynchronized = o["keep"]
    return f


def replay(c, W, exe, ncases, family):
    """family: 'whfast' | 'saba'.  Twin simulations: A runs the real API calls, B executes the
    model's primitive-call list; everything persisted must agree bit for bit after every op."""
    lines, cases = [], []
    specs = family_specs(c, family)
    for case in range(len(specs) + ncases):
        rng = c.rng.fork()
        cs = specs[case] if case < len(specs) else None
        if cs is not None:
            system = gen_system(rng, spec=cs)
            toks, ops, done = materialize(rng, cs["_events"], Clock(system["dt"], family in ("whfast", "var"), system.get("t0", 0.0)), W.K, cs["mode"], family)
            record_case(family, spec_core(cs), done)
        else:
            system = gen_system(rng, force=(FORCED[case - len(specs)] if case - len(specs) < len(FORCED) else None))
            ops = gen_ops(rng, rng.randint(3, 9))
            if "s" not in ops:
                ops.append("s")
            toks, ops = add_integrates(rng, ops, Clock(system["dt"], family in ("whfast", "var"), system.get("t0", 0.0)), (W.K["syncFirst"], W.K["forceSync"]))
        if family == "var":
            mode = cs["mode"] if cs else rng.choice(["safe", "unsafe", "keep", "keep"])
            o = dict(coord=0, kernel=0, corrector=0, corrector2=0, safe=int(mode == "safe"), keep=int(mode == "keep"),
                     nvar=(cs["nvar"] if cs else rng.randint(1, 2)),
                     huge=int((cs["vscale"] == "huge") if cs else rng.chance(0.3)))
            no_testparticles(system)
            system["dims"].append("variational particles (1st order, non-zero)")
            if o["huge"]:
                system["dims"].append("variational coordinates > 1e100 (rescaling event)")
            lines.append("V %d %d %d %d %d %d 1 0 0 %s" % (o["safe"], o["keep"], W.K["vfix"], W.K["p1fixW"], W.K["rfix"], o["huge"], " ".join(toks)))
            base = whfast_setup(o)

            def setup(s, base=base, nv=o["nvar"], sc=(VAR_HUGE if o["huge"] else 1.0)):
                base(s)
                for _ in range(nv):
                    seed_variation(s, s.add_variation(), sc)
            key = ("var", o["nvar"], o["safe"], o["keep"])
        elif family == "whfast":
            o = whfast_options(rng)
            if cs:
                o = dict(coord=cs["coord"], kernel=cs["kernel"], corrector=cs["corrector"], corrector2=cs["corrector2"],
                         safe=int(cs["mode"] == "safe"), keep=int(cs["mode"] == "keep"))
            lines.append("W %d %d %d %d %d %d %d %d 1 0 0 %s" % (o["coord"], o["kernel"], o["corrector"], o["corrector2"],
                                                                 o["safe"], o["keep"], W.K["c2fixed"], W.K["p1fixW"], " ".join(toks)))
            setup = whfast_setup(o)
            key = (o["coord"], o["kernel"], o["corrector"], o["corrector2"], o["safe"], o["keep"])
        else:
            mode = cs["mode"] if cs else rng.choice(["safe", "unsafe", "unsafe", "keep", "keep"])
            o = dict(type=(cs["type"] if cs else rng.choice(sorted(SABA_ROWS))), safe=int(mode == "safe"), keep=int(mode == "keep"))
            if cs is None and rng.chance(0.3):
                no_testparticles(system)
            lines.append("S %d %d %d %d %d %d 1 0 0 %s" % (o["type"], o["safe"], o["keep"], W.K["copyInside"], W.K["p1fixS"], W.K["p1sync"], " ".join(toks)))
            setup = saba_setup(o)
            key = (o["type"], o["safe"], o["keep"])
        dims_of(system, "replay " + family)
        for t_ in toks:
            if t_.startswith("i:"):
                f_ = t_.split(":")
                dim("integrate() split into several calls")
                dim("exact_finish_time %s" % f_[3])
                if f_[4] == "1":
                    dim("direction reversal between calls")
            elif t_.startswith("c:"):
                dim("pre/post_timestep_modifications editing particles")
            elif t_ in ("p", "f"):
                dim("user edits of particles / flags between steps")
            elif t_ == "y":
                dim("explicit synchronize")
        dim("safe_mode=0" if not o.get("safe") else "safe_mode=1")
        if o.get("keep"):
            dim("keep_unsynchronized=1")
        cases.append((o, system, ops, setup, key, toks))
    out = run_driver(exe, lines)
    if len(out) != len(lines):
        c.corr_break("drv_c09 returned %d lines for %d cases" % (len(out), len(lines)))
        return
    nprims = 0
    hist = {}
    predicted_crashes = [0]
    nint = [0]
    ncb = [0]
    for (o, system, ops, setup, key, toks), line, model in zip(cases, lines, out):
        beat("replay " + line)
        integ_name = "whfast" if family == "var" else family
        A = W.sim(system, integ_name, setup)
        B = W.sim(system, integ_name, setup)
        fl_of = (lambda s: s.ri_whfast.is_synchronized) if family in ("whfast", "var") else (lambda s: s.ri_saba.is_synchronized)
        st = {}
        segs = model.split(";")
        if segs and segs[-1].startswith("error crash"):
            # the model says the real call dereferences NULL here: never made in-process, the
            # subprocess probe of search() exhibits it on the real code
            predicted_crashes[0] += 1
            segs = segs[:-1]
            ops = ops[:len(segs)]
        if len(segs) != len(ops):
            c.corr_break("model output has %d segments for %d ops" % (len(segs), len(ops)), {"line": line, "model": model[:300]})
            return
        prng = SplitMix(c.seed * 7919 + len(line))
        for k, (opt, seg) in enumerate(zip(ops, segs)):
            op = opt[0]
            prims, _, fl = seg.partition("@")
            prims = [p for p in prims.split(",") if p]
            mflags = [int(x) for x in fl.split()]
            # real code on A
            st["in_cb"] = (op == "c")
            st["post_cb"] = (op == "c" and opt[2] == 1)
            if op in ("ms", "mk"):
                set_mode_flags(A, family, op, opt[1])
                set_mode_flags(B, family, op, opt[1])
                dim("safe_mode toggled mid-run" if op == "ms" else "keep_unsynchronized toggled mid-run")
            if op == "c":
                real_step_with_callbacks(W, A, opt[1], opt[2])
            elif op == "i":
                A.exact_finish_time = opt[2]
                st["tmax"] = opt[1]
                W.lib.reb_simulation_integrate(ctypes.byref(A), opt[1])
            elif op == "s":
                W.lib.reb_simulation_step(ctypes.byref(A))
            elif op == "y":
                W.lib.reb_simulation_synchronize(ctypes.byref(A))
            elif op == "r":
                W.lib.reb_simulation_energy(ctypes.byref(A))
            elif op == "f":
                A.ri_whfast.recalculate_coordinates_this_timestep = 1
            elif op == "p":
                i = prng.randint(0, A.N - 1)
                dv = prng.uniform(-1e-3, 1e-3)
                A.particles[i].vy += dv
                B.particles[i].vy += dv
            # model's primitive list through the real primitives on B
            W.execute(B, prims, st)
            nprims += len(prims)
            a, b = W.snap(A), W.snap(B)
            # p_jh is uninitialised heap until the first from_inertial; its acceleration members are
            # never written in the heliocentric coordinate systems (nor the mass member of test
            # particles in barycentric coordinates, transformations.c:611-613): compare pos / vel / m
            nact = A.N if (A.N_active == -1 or A.testparticle_type == 1) else A.N_active
            for q in (a, b):
                q["p_jh"] = [x[:48] + (x[72:80] if i < nact else b"") for i, x in enumerate(q["p_jh"])] \
                    if (q["p_jh"] is not None and st.get("pj_defined")) else None
            aflags = [fl_of(A), A.ri_whfast.recalculate_coordinates_this_timestep, int(A.ri_whfast._N_allocated == A.N)]
            if family == "var":
                aflags.append(var_big(A))       # the model's magnitude bit
                a["lrescale"] = [d2h(A.var_config[v_]._lrescale) for v_ in range(A.N_var_config)]
                b["lrescale"] = [d2h(B.var_config[v_]._lrescale) for v_ in range(B.N_var_config)]
                if st.pop("rescale_mismatch", None):
                    b["lrescale"].append("model/data disagree on the rescaling event")
                if st.get("rescaled"):
                    dim("variational rescaling performed (replay)")
            if a != b or aflags != mflags:
                what = "flags" if aflags != mflags else [k2 for k2 in a if a[k2] != b[k2]][0]
                c.corr_break("%s schedule replay differs from reb_simulation_%s in %s (op %d of '%s', options %s)"
                             % (family, {"s": "step", "i": "integrate", "c": "step (with pre/post callbacks)"}.get(op, "synchronize"), what, k, " ".join(toks), o),
                             {"driver_line": line, "op_index": k, "model_prims": prims, "model_flags": mflags,
                              "real_flags": aflags, "system": system, "options": o})
                return
            c.count(("replay", family) + key + ((op, opt[3], opt[2]) if op == "i" else opt), nontrivial=(op in "syic"))
            if op == "c":
                ncb[0] += 1
            if op == "i":
                nint[0] += 1
        hk = " ".join(str(x) for x in key[:2])
        hist[hk] = hist.get(hk, 0) + 1
    c.cov["replay_" + family] = {"cases": ncases, "primitive_calls_executed": nprims, "histogram": hist,
                                 "sequences_cut_at_a_predicted_crash": predicted_crashes[0], "integrate_calls": nint[0],
                                 "steps_with_callbacks": ncb[0]}
    c.sample({"replay_line": lines[0], "model": out[0][:300]})


def replay_mercurius(c, W, exe, ncases, coarse=False):
    """coarse: systems with close encounters; part2 (whose encounter prediction / IAS15 sub-integration
    are static) is called as a whole with the flags of the model, everything else through primitives"""
    lines, cases = [], []
    fam = "mercuriusEnc" if coarse else "mercurius"
    specs = family_specs(c, fam)
    for case in range(len(specs) + ncases):
        rng = c.rng.fork()
        cs = specs[case] if case < len(specs) else None
        system = gen_system(rng, physics=True) if (cs is None or coarse) else gen_system(rng, spec=cs)
        # (no steps longer than a period etc.: dcrit ~ 0.4 v dt would turn every step into an encounter step)
        if coarse:
            system = gen_crossing(rng)
            if cs is not None and cs["neg"]:
                system["dt"] = -system["dt"]
                system["particles"] = [(q[0], q[1], q[2], q[3], -q[4], -q[5], -q[6]) for q in system["particles"]]
                system["dims"].append("dt < 0")
        else:
            # wide, light systems: no close encounters (the encounter branch is static C, not replayable)
            system["particles"] = [p if i == 0 else (p[0] * 0.01,) + p[1:] for i, p in enumerate(system["particles"])]
        ops = gen_ops(rng, rng.randint(3, 9) if not coarse else rng.randint(8, 16))
        # the user sets ri_mercurius.recalculate_r_crit_this_timestep mid-run (mostly while a half kick is pending)
        ops2 = []
        for o_ in ops:
            ops2.append(o_)
            if o_ == "s" and rng.chance(0.3):
                ops2.append("g")
        ops = ops2
        if "s" not in ops:
            ops.append("s")
        safe = int(rng.chance(0.35))
        if cs is not None:
            safe = int(cs["mode"] == "safe")
            toks, ops, done = materialize(rng, cs["_events"], Clock(system["dt"], False, system.get("t0", 0.0)), W.K, cs["mode"], fam)
            record_case(fam, spec_core(cs), done)
        else:
            toks, ops = add_integrates(rng, ops, Clock(system["dt"], False, system.get("t0", 0.0)), (W.K["syncFirst"], W.K["forceSync"]), no_exact=coarse, no_cb=coarse)
        lines.append("%s %d 1 0 0 0 0 %s" % ("MC" if coarse else "M", safe, " ".join(toks)))
        dims_of(system, "replay mercurius")
        cases.append((safe, system, ops, toks))
    out = run_driver(exe, lines)
    if len(out) != len(lines):
        c.corr_break("drv_c09 returned %d lines for %d mercurius cases" % (len(out), len(lines)))
        return
    nprims = nenc = 0

    def msnap(s):
        rim = s.ri_mercurius
        d = {"particles": W.pbytes(s._particles, s.N), "t": d2h(s.t), "dt": d2h(s.dt),
             "com": [d2h(getattr(v, k)) for v in (rim._com_pos, rim._com_vel) for k in ("x", "y", "z")],
             "dcrit": [d2h(rim._dcrit[i]) for i in range(s.N)] if rim._N_allocated_dcrit >= s.N else None}
        return d

    nint = 0
    prng0 = SplitMix(c.seed * 31 + 5)
    for (safe, system, ops, toks), line, model in zip(cases, lines, out):
        beat("replay_mercurius " + line + " ##" + json.dumps({"system": system, "ops": ops, "safe": safe}))
        rch = prng0.choice([3.0, 3.0, 2.0, 4.5])
        Lname = prng0.choice(["mercury", "mercury", "C4", "C5", "infinity"])

        def setup(s, rch=rch, Lname=Lname):
            s.ri_mercurius.safe_mode = safe
            s.ri_mercurius.r_crit_hill = rch
            s.ri_mercurius.L = Lname
        dim("mercurius option L=%s" % Lname)
        dim("mercurius option r_crit_hill=%s" % rch)
        A = W.sim(system, "mercurius", setup)
        B = W.sim(system, "mercurius", setup)
        st = {}
        segs = model.split(";")
        prng = SplitMix(c.seed * 7919 + len(line))
        for k, (opt, seg) in enumerate(zip(ops, segs)):
            op = opt[0]
            prims, _, fl = seg.partition("@")
            prims = [p for p in prims.split(",") if p]
            mflags = [int(x) for x in fl.split()]
            st["in_cb"] = (op == "c")
            st["post_cb"] = (op == "c" and opt[2] == 1)
            if op in ("ms", "mk"):
                set_mode_flags(A, "mercurius", op, opt[1])
                set_mode_flags(B, "mercurius", op, opt[1])
                dim("safe_mode toggled mid-run" if op == "ms" else "keep_unsynchronized toggled mid-run")
            if op == "c":
                real_step_with_callbacks(W, A, opt[1], opt[2])
            elif op == "i":
                A.exact_finish_time = opt[2]
                st["tmax"] = opt[1]
                W.lib.reb_simulation_integrate(ctypes.byref(A), opt[1])
                nint += 1
            elif op == "s":
                W.lib.reb_simulation_step(ctypes.byref(A))
            elif op == "y":
                W.lib.reb_simulation_synchronize(ctypes.byref(A))
            elif op == "r":
                W.lib.reb_simulation_energy(ctypes.byref(A))
            elif op == "g":
                A.ri_mercurius.recalculate_r_crit_this_timestep = 1
                dim("user sets recalculate_r_crit_this_timestep mid-run (MERCURIUS)")
            elif op == "f":
                A.ri_mercurius.recalculate_coordinates_this_timestep = 1
            elif op == "p":
                i = prng.randint(0, A.N - 1)
                dv = prng.uniform(-1e-3, 1e-3)
                A.particles[i].vy += dv
                B.particles[i].vy += dv
            if op in "sic" and A.ri_mercurius._encounter_N > 1:
                nenc += 1
                if not coarse:
                    break      # a close encounter happened: outside the part replayable through primitives
            W.execute(B, [p for p in prims if p != "warn"], st)
            nprims += len(prims)
            a, b = msnap(A), msnap(B)
            rim = A.ri_mercurius
            aflags = [rim.is_synchronized, rim.recalculate_coordinates_this_timestep, rim.recalculate_r_crit_this_timestep,
                      int(rim._N_allocated_dcrit >= A.N), int(rim._N_allocated >= A.N)]
            if a != b or aflags != mflags:
                what = "flags" if aflags != mflags else [k2 for k2 in a if a[k2] != b[k2]][0]
                c.corr_break("mercurius schedule replay differs from reb_simulation_%s in %s (op %d of '%s', safe_mode=%d)"
                             % ({"s": "step", "i": "integrate", "c": "step (with pre/post callbacks)"}.get(op, "synchronize"), what, k, " ".join(toks), safe),
                             {"driver_line": line, "op_index": k, "model_prims": prims, "model_flags": mflags,
                              "real_flags": aflags, "system": system})
                return
            c.count(("replay", "mercurius", coarse, safe, opt if op == "c" else op, tuple(mflags), A.ri_mercurius._encounter_N > 1), nontrivial=(op in "syic"))
    c.cov["replay_mercurius" + ("_with_encounters" if coarse else "")] = {"cases": ncases, "primitive_calls_executed": nprims, "ops_with_a_close_encounter": nenc, "integrate_calls": nint}


# ----------------------------------------------------------------------------- EOS replay
class EosState:
    """particles of a simulation mirrored in Python lists; the three elementary EOS operators in IEEE
    double arithmetic, in the operation order of integrator_eos.c (shell-0 interaction through the real
    reb_simulation_update_acceleration / reb_calculate_and_apply_jerk)"""

    def __init__(self, W, s):
        self.W, self.s = W, s
        self.N = s.N
        self.nact = s.N if s.N_active == -1 else s.N_active
        self.tt = s.testparticle_type
        self.G = s.G
        self.pull()

    def pull(self):
        pp = self.s._particles
        self.m = [pp[i].m for i in range(self.N)]
        self.x = [[pp[i].x, pp[i].y, pp[i].z] for i in range(self.N)]
        self.v = [[pp[i].vx, pp[i].vy, pp[i].vz] for i in range(self.N)]
        self.a = [[pp[i].ax, pp[i].ay, pp[i].az] for i in range(self.N)]

    def push(self):
        pp = self.s._particles
        for i in range(self.N):
            pp[i].x, pp[i].y, pp[i].z = self.x[i]
            pp[i].vx, pp[i].vy, pp[i].vz = self.v[i]
            pp[i].ax, pp[i].ay, pp[i].az = self.a[i]

    def drift1(self, tau):
        for i in range(self.N):
            x, v = self.x[i], self.v[i]
            x[0] = x[0] + tau * v[0]
            x[1] = x[1] + tau * v[1]
            x[2] = x[2] + tau * v[2]

    def inter0(self, y, v):
        s, lib = self.s, self.W.lib
        self.push()
        s.gravity_ignore = 2
        s._gravity = 1
        lib.reb_simulation_update_acceleration(ctypes.byref(s))
        if v != 0.:
            lib.reb_calculate_and_apply_jerk(ctypes.byref(s), v)
        self.pull()
        for i in range(self.N):
            vv, a = self.v[i], self.a[i]
            vv[0] = vv[0] + y * a[0]
            vv[1] = vv[1] + y * a[1]
            vv[2] = vv[2] + y * a[2]

    def inter1(self, y, v):
        G, m, X, V, A, nact, N, tt = self.G, self.m, self.x, self.v, self.a, self.nact, self.N, self.tt
        sq = math.sqrt
        if v != 0.:
            A[0][0] = A[0][1] = A[0][2] = 0.0
            for j in range(1, N):
                dx, dy, dz = X[0][0] - X[j][0], X[0][1] - X[j][1], X[0][2] - X[j][2]
                dr = sq(dx * dx + dy * dy + dz * dz)
                prefact = G / (dr * dr * dr)
                if j < nact or tt:
                    pj = -prefact * m[j]
                    if j < nact:
                        A[0][0] += pj * dx; A[0][1] += pj * dy; A[0][2] += pj * dz
                pi = prefact * m[0]
                A[j][0], A[j][1], A[j][2] = pi * dx, pi * dy, pi * dz
                if j >= nact and tt:
                    A[0][0] += pj * dx; A[0][1] += pj * dy; A[0][2] += pj * dz
            for i in range(1, N):
                dx, dy, dz = X[0][0] - X[i][0], X[0][1] - X[i][1], X[0][2] - X[i][2]
                dax, day, daz = A[0][0] - A[i][0], A[0][1] - A[i][1], A[0][2] - A[i][2]
                dr = sq(dx * dx + dy * dy + dz * dz)
                alphasum = dax * dx + day * dy + daz * dz
                prefact2 = 2. * v * G / (dr * dr * dr)
                prefact2j = prefact2 * m[0]
                prefact1 = alphasum * prefact2 / dr * 3. / dr
                prefact1j = prefact1 * m[0]
                if i < nact or tt:
                    prefact2i = prefact2 * m[i]
                    prefact1i = prefact1 * m[i]
                    V[0][0] += -dax * prefact2i + dx * prefact1i
                    V[0][1] += -day * prefact2i + dy * prefact1i
                    V[0][2] += -daz * prefact2i + dz * prefact1i
                V[i][0] += y * A[i][0] + dax * prefact2j - dx * prefact1j
                V[i][1] += y * A[i][1] + day * prefact2j - dy * prefact1j
                V[i][2] += y * A[i][2] + daz * prefact2j - dz * prefact1j
            V[0][0] += y * A[0][0]; V[0][1] += y * A[0][1]; V[0][2] += y * A[0][2]
        else:
            for j in range(1, N):
                dx, dy, dz = X[0][0] - X[j][0], X[0][1] - X[j][1], X[0][2] - X[j][2]
                dr = sq(dx * dx + dy * dy + dz * dz)
                prefact = y * G / (dr * dr * dr)
                if j < nact:
                    pj = -prefact * m[j]
                    V[0][0] += pj * dx; V[0][1] += pj * dy; V[0][2] += pj * dz
                pi = prefact * m[0]
                V[j][0] += pi * dx; V[j][1] += pi * dy; V[j][2] += pi * dz
                if j >= nact and tt:
                    pj = -prefact * m[j]
                    V[0][0] += pj * dx; V[0][1] += pj * dy; V[0][2] += pj * dz

    def run(self, toks):
        for t in toks:
            k = t.split(":")
            if k[0] == "D":
                self.drift1(h2d(k[1]))
            elif k[0] == "I1":
                self.inter1(h2d(k[1]), h2d(k[2]))
            else:
                self.inter0(h2d(k[1]), h2d(k[2]))
        self.push()


def replay_eos(c, W, exe):
    """all 9 x 9 phi0/phi1 pairs (thorough; a random third in the quick tier) x n in {1,2,3}:
    the model's full operator list, executed with EosState, vs reb_simulation_step / synchronize"""
    lines, cases = [], []
    specs = list(family_specs(c, "eos"))
    if c.thorough:
        # besides the pairwise array: every phi0 x phi1 pair with every n
        specs += [dict(phi0=a_, phi1=b_, n=n_, mode=c.rng.choice(["safe", "unsafe"]), roles=c.rng.choice(ROLES), neg=c.rng.choice([0, 1]),
                       feature=c.rng.choice(FEATURES), event=c.rng.choice(["s", "y", "r", "ms"]))
                  for a_ in range(9) for b_ in range(9) for n_ in (1, 2, 3)]
        specs = [x for x in specs if case_ok("eos", x)]
    for cs in specs:
        rng = c.rng.fork()
        p0, p1, n = cs["phi0"], cs["phi1"], cs["n"]
        system = gen_system(rng, spec=cs)
        if cs["feature"] == "many":
            system["particles"] = system["particles"][:24]           # keep the pure-Python operators affordable
            system["N_active"] = min(system["N_active"], 24) if system["N_active"] != -1 else -1
        system["dt"] *= 0.3
        safe = int(cs["mode"] == "safe")
        events = cs.get("_events") or build_events(rng, "eos", cs, length=rng.randint(3, 6))
        toks, ops, done = materialize(rng, events, Clock(system["dt"], False, system.get("t0", 0.0)), W.K, cs["mode"], "eos")
        record_case("eos", spec_core(cs), done)
        lines.append("E %d %d %d %d 1 %s %s" % (p0, p1, n, safe, d2h(system["dt"]), " ".join(toks)))
        dims_of(system, "replay eos")
        cases.append((p0, p1, n, safe, system, ops))
    out = run_driver(exe, lines)
    if len(out) != len(lines):
        c.corr_break("drv_c09 returned %d lines for %d EOS cases" % (len(out), len(lines)))
        return
    nops = 0
    for (p0, p1, n, safe, system, ops), line, model in zip(cases, lines, out):
        beat("replay_eos " + line)
        def setup(s):
            s.ri_eos._phi0, s.ri_eos._phi1, s.ri_eos.n, s.ri_eos.safe_mode = p0, p1, n, safe
        A = W.sim(system, "eos", setup)
        B = W.sim(system, "eos", setup)
        segs = model.split(";")
        for k, (opt, seg) in enumerate(zip(ops, segs)):
            op = opt[0]
            toks, _, fl = seg.partition("@")
            toks = [t for t in toks.split(",") if t]
            if op == "ms":
                A.ri_eos.safe_mode = opt[1]
                B.ri_eos.safe_mode = opt[1]
                dim("safe_mode toggled mid-run")
            elif op == "s":
                W.lib.reb_simulation_step(ctypes.byref(A))
                # part1: gravity := NONE; the acceleration pass of reb_simulation_step; then the schedule
                B._gravity = 0
                W.lib.reb_simulation_update_acceleration(ctypes.byref(B))
                EosState(W, B).run(toks)
                B.t = B.t + B.dt
            elif op == "y":
                W.lib.reb_simulation_synchronize(ctypes.byref(A))
                EosState(W, B).run(toks)
            else:
                W.lib.reb_simulation_energy(ctypes.byref(A))
            nops += len(toks)
            a = {"particles": W.pbytes(A._particles, A.N), "t": d2h(A.t)}
            b = {"particles": W.pbytes(B._particles, B.N), "t": d2h(B.t)}
            if a != b or A.ri_eos.is_synchronized != int(fl):
                what = "is_synchronized" if a == b else [q for q in a if a[q] != b[q]][0]
                c.corr_break("EOS operator-schedule replay differs from reb_simulation_%s in %s (phi0=%d phi1=%d n=%d safe_mode=%d, op %d of '%s')"
                             % ("step" if op == "s" else "synchronize", what, p0, p1, n, safe, k, " ".join(str(o_[0]) for o_ in ops)),
                             {"driver_line": line, "op_index": k, "system": system, "model_ops_head": toks[:12], "n_model_ops": len(toks)})
                return
            c.count(("replay", "eos", p0, p1, n, safe, op), nontrivial=(op in "sy"))
    c.cov["replay_eos"] = {"cases": len(cases), "elementary_operator_calls_executed": nops}


# ----------------------------------------------------------------------------- footprint table
COMPS = ["pj", "pos", "vel", "acc"]


def comp_get(W, s):
    pj = W.pbytes(s.ri_whfast._p_jh, s.N)
    pp = W.pbytes(s._particles, s.N)
    return {"pj": pj, "pos": [x[0:24] for x in pp], "vel": [x[24:48] for x in pp], "acc": [x[48:72] for x in pp]}


def comp_perturb(W, s, comp, rng):
    n = s.N
    if comp == "pj":
        a = s.ri_whfast._p_jh
        fields = ["x", "y", "z", "vx", "vy", "vz", "ax", "ay", "az"]
    else:
        a = s._particles
        fields = {"pos": ["x", "y", "z"], "vel": ["vx", "vy", "vz"], "acc": ["ax", "ay", "az"]}[comp]
    for i in range(n):
        for f in fields:
            v = getattr(a[i], f)
            setattr(a[i], f, v * (1 + 1e-3 * rng.uniform(-1, 1)) + 1e-5 * rng.uniform(-1, 1))


def footprints(c, W, exe):
    """the dependency matrix of the Lean model (`transfer`) tested on the real primitives:
    perturb one input component in a twin, every output component the model calls independent
    of it must come out bit-identical; components the model calls untouched must not change."""
    out = run_driver(exe, ["FOOT"])[0].split()
    table = {}
    for item in out:
        name, _, rows = item.partition("/")
        table[name] = [[ch == "1" for ch in row] for row in rows.split("|")]
    want = 14
    if len(table) != want:
        c.broken.append("proof obligation: footprint table has %d primitives, expected %d" % (len(table), want))
    selfmaps = {("K", 0), ("C", 0), ("J", 0)}
    ntests = 0
    rng = c.rng.fork()
    for coord in range(4):
        for name, dep in sorted(table.items()):
            base = name.partition("=")[0]
            if coord != 0 and base in ("posJ", "jerk", "jacAcc", "posJA", "jacAccA", "toIA"):
                continue
            if base == "posB" and coord != 3:
                continue
            system = gen_system(rng)
            if base in ("posJA", "jacAccA", "toIA", "jerk"):
                system["N_active"], system["testparticle_type"] = -1, 0
            o = dict(coord=coord, kernel=0, corrector=0, corrector2=0, safe=0, keep=0)
            prep = ["init", "fromI", "K=F:1:2", "toI", "upd", "I=F:1:2"]

            def fresh():
                s = W.sim(system, "whfast", whfast_setup(o))
                W.execute(s, prep, {})
                return s
            A = fresh()
            before = comp_get(W, A)
            W.execute(A, [name], {})
            after = comp_get(W, A)
            for j, cj in enumerate(COMPS):
                only_self = all(dep[j][k] == (k == j) for k in range(6))
                if only_self and (base, j) not in selfmaps and before[cj] != after[cj]:
                    c.corr_break("footprint: primitive %s changes component %s which the model says it leaves untouched (coordinates %s)"
                                 % (name, cj, COORD_NAMES[coord]), {"primitive": name, "component": cj, "system": system})
                    return
            for k, ck in enumerate(COMPS):
                B = fresh()
                comp_perturb(W, B, ck, rng)
                W.execute(B, [name], {})
                got = comp_get(W, B)
                for j, cj in enumerate(COMPS):
                    if not dep[j][k]:
                        ntests += 1
                        if got[cj] != after[cj]:
                            c.corr_break("footprint: output %s of primitive %s depends on input %s, the model says it does not (coordinates %s)"
                                         % (cj, name, ck, COORD_NAMES[coord]),
                                         {"primitive": name, "output": cj, "input": ck, "system": system, "options": o})
                            return
                c.count(("footprint", name, coord, ck))
    c.cov["footprint_independence_tests"] = ntests


# ----------------------------------------------------------------------------- search on the real code
def integrator_configs(rng, thorough):
    """(label, integrator, setup(mode), has_keep) — mode in 'safe' | 'unsafe' | 'keep'"""
    cfgs = []

    def wh(coord, kernel, corr, corr2):
        def mk(mode):
            return whfast_setup(dict(coord=coord, kernel=kernel, corrector=corr, corrector2=corr2,
                                     safe=int(mode == "safe"), keep=int(mode == "keep")))
        return ("whfast c%d k%d corr%d c2=%d" % (coord, kernel, corr, corr2), "whfast", mk, True)

    for coord in range(4):
        cfgs.append(wh(coord, 0, 0, 0))
    for corr in (3, 5, 7, 11, 17):
        cfgs.append(wh(0, 0, corr, 0))
    cfgs += [wh(3, 0, 11, 0), wh(0, 0, 0, 1), wh(0, 0, 17, 1), wh(0, 1, 0, 0), wh(0, 2, 0, 0), wh(0, 3, 0, 0),
             wh(0, 1, 5, 0), wh(0, 2, 3, 1), wh(0, 3, 7, 0)]

    def whvar(nvar, megno, corr, huge=False):
        # variational particles / MEGNO: Jacobi coordinates and the default kernel only (whfast_init)
        # huge: variational coordinates ~1e102, so that reb_simulation_rescale_var fires at the end of the first step
        def mk(mode):
            base = whfast_setup(dict(coord=0, kernel=0, corrector=corr, corrector2=0,
                                     safe=int(mode == "safe"), keep=int(mode == "keep")))

            def f(s):
                base(s)
                s.N_active, s.testparticle_type = -1, 0
                for _ in range(nvar):
                    seed_variation(s, s.add_variation(), VAR_HUGE if huge else 1.0)
                if megno:
                    s.init_megno(seed=12345)
                if huge:
                    dim("variational coordinates > 1e100 (rescaling event)")
            return f
        return ("whfast var=%d megno=%d corr%d%s" % (nvar, megno, corr, " hugevar" if huge else ""), "whfast", mk, True)

    cfgs += [whvar(1, 0, 0), whvar(2, 0, 0), whvar(0, 1, 0), whvar(1, 1, 11), whvar(1, 0, 0, True), whvar(2, 0, 5, True)]

    def saba(t):
        def mk(mode):
            def f(s):
                s.ri_saba._type = t
                s.ri_saba.safe_mode = int(mode == "safe")
                s.ri_saba.keep_unsynchronized = int(mode == "keep")
            return f
        return ("saba " + SABA_ROWS[t], "saba", mk, True)

    for t in sorted(SABA_ROWS):
        cfgs.append(saba(t))

    def merc(mode):
        def f(s):
            s.ri_mercurius.safe_mode = int(mode == "safe")
        return f
    cfgs.append(("mercurius", "mercurius", merc, False))

    def eos(p0, p1, n):
        def mk(mode):
            def f(s):
                s.ri_eos._phi0 = p0
                s.ri_eos._phi1 = p1
                s.ri_eos.n = n
                s.ri_eos.safe_mode = int(mode == "safe")
            return f
        return ("eos phi0=%d phi1=%d n=%d" % (p0, p1, n), "eos", mk, False)

    eo = [(0, 0, 2), (1, 0, 2), (3, 1, 2), (4, 0, 4), (5, 1, 2), (6, 0, 2), (7, 0, 2), (8, 1, 2), (2, 2, 3)]
    for e in eo:
        cfgs.append(eos(*e))
    return cfgs


def final_state(W, s, which):
    """everything a user can observe: all N particles (variational ones included), t, MEGNO, and for
    WHFast/SABA the internal coordinates p_jh of all N entries (pos/vel)"""
    d = {"particles": [x[:48] + x[72:80] for x in W.pbytes(s._particles, s.N)], "t": d2h(s.t)}
    if which in ("whfast", "saba") and s.ri_whfast._N_allocated == s.N and s.N > 0:
        d["p_jh"] = [x[:48] for x in W.pbytes(s.ri_whfast._p_jh, s.N)]
    if s.N_var:
        d["megno"] = d2h(s.megno()) if s._calculate_megno else None
    return d


def coords(W, s):
    """positions / velocities; variational particles in physical units: times exp(lrescale) of their set
    (reb_simulation_rescale_var divides them by a scale and adds its logarithm to lrescale)"""
    out = [(p.x, p.y, p.z, p.vx, p.vy, p.vz) for p in (s.particles[i] for i in range(s.N))]
    nreal = s.N - s.N_var
    for v in range(s.N_var_config):
        vc = s.var_config[v]
        if vc._lrescale > 0 and vc.testparticle < 0:
            f = math.exp(min(vc._lrescale, 690.0))       # (a runaway lrescale must not overflow the comparison)
            for i in range(vc.index, min(vc.index + nreal, s.N)):
                out[i] = tuple(x * f for x in out[i])
    return out


def grouped_err(ca, cb, nreal):
    """largest difference relative to the scale of its own group: real particles / variational particles"""
    err = 0.0
    for lo, hi in ((0, nreal), (nreal, len(ca))):
        if lo >= hi:
            continue
        sx = max(abs(v) for p in ca[lo:hi] for v in p[:3]) or 1.0
        sv = max(abs(v) for p in ca[lo:hi] for v in p[3:]) or 1.0
        e = max(max(abs(a[k] - b[k]) / (sx if k < 3 else sv) for k in range(6)) for a, b in zip(ca[lo:hi], cb[lo:hi]))
        err = e if not (e <= err) else err
    return err


def interrupt(W, s, kind, tmpdir, allow_sync):
    lib = W.lib
    r = ctypes.byref(s)
    if kind == "sync" and allow_sync:
        lib.reb_simulation_synchronize(r)
    elif kind == "sync2" and allow_sync:
        lib.reb_simulation_synchronize(r)
        lib.reb_simulation_synchronize(r)
    elif kind == "energy":
        lib.reb_simulation_energy(r)
    elif kind == "angmom":
        s.angular_momentum()
    elif kind == "orbits":
        try:
            s.orbits()
        except Exception:
            pass
    elif kind == "copy":
        s.copy()
    elif kind == "save":
        fn = os.path.join(tmpdir, "s.bin")
        if os.path.exists(fn):
            os.remove(fn)
        s.save_to_file(fn)
    elif kind == "com":
        s.com()


KINDS = ["sync", "sync2", "energy", "angmom", "orbits", "copy", "save", "com"]


PROBE = r"""
import sys
sys.path.insert(0, %r)
sys.path.insert(0, %r)
from common import use_scratch_rebound
rebound = use_scratch_rebound(%r)
integ, keep, nsteps = sys.argv[1], int(sys.argv[2]), int(sys.argv[3])
s = rebound.Simulation()
s.add(m=1.); s.add(m=1e-3, a=1.); s.add(m=1e-4, a=2.1)
s.integrator = integ
s.dt = 0.05
for ri in (s.ri_whfast, s.ri_saba, s.ri_eos, s.ri_mercurius):
    ri.safe_mode = 0
if keep:
    s.ri_whfast.keep_unsynchronized = 1
    s.ri_saba.keep_unsynchronized = 1
for k in range(nsteps):
    rebound.clibrebound.reb_simulation_step(__import__("ctypes").byref(s))
rebound.clibrebound.reb_simulation_synchronize(__import__("ctypes").byref(s))
rebound.clibrebound.reb_simulation_synchronize(__import__("ctypes").byref(s))
print("survived")
"""


def probe_first_call(c, d):
    """synchronize as the very first call (and after one step) in a child process: must not crash"""
    import subprocess
    script = PROBE % (os.path.dirname(os.path.abspath(__file__)), d, d)
    res = {}
    for integ in ("whfast", "saba", "eos", "mercurius"):
        for keep in (0, 1):
            if keep and integ in ("eos", "mercurius"):
                continue
            for nsteps in (0, 1):
                p = subprocess.run([sys.executable, "-c", script, integ, str(keep), str(nsteps)], capture_output=True,
                                   text=True, timeout=120)
                ok = p.returncode == 0 and "survived" in p.stdout
                res["%s keep=%d steps=%d" % (integ, keep, nsteps)] = "ok" if ok else "rc=%d" % p.returncode
                c.count(("probe", integ, keep, nsteps))
                if not ok:
                    key = "F19:saba-sync-keep-null-pjh" if (integ == "saba" and keep and nsteps == 0 and p.returncode < 0) \
                        else "crash:%s" % integ
                    c.violation(key, "%s, keep_unsynchronized=%d: synchronize after %d steps ends the process (rc=%d)"
                                % (integ, keep, nsteps, p.returncode),
                                {"integrator": integ, "keep_unsynchronized": keep, "safe_mode": 0, "steps_before": nsteps,
                                 "calls": ["synchronize", "synchronize"], "returncode": p.returncode, "stderr": p.stderr[-400:]})
    c.cov["first_call_probe"] = res


def tweak(W, system, integ, label, where):
    """integrator-specific adjustments of a generated system + dimension counting"""
    if integ == "saba" and not W.K["sabaSplit"]:
        no_testparticles(system)                     # source as found: SABA transforms with N_active := N
    if "var=" in label:
        no_testparticles(system)
        nv, mg = int(label.split("var=")[1][0]), "megno=1" in label
        if nv:
            system["dims"].append("variational particles (1st order, non-zero)")
        if mg:
            system["dims"].append("init_megno")
    if integ == "mercurius":
        system["particles"] = [p if i == 0 else (p[0] * 0.03,) + p[1:] for i, p in enumerate(system["particles"])]
    if integ == "eos":
        system["dt"] *= 0.2          # low-order splittings: stay in the asymptotic regime
    if "c2=1" in label:
        # make the second corrector non-negligible (it is O(eps^2 dt^4)): Jupiter-mass planets
        system["particles"] = [p if (i == 0 or p[0] == 0.0) else (1e-3 * system["particles"][0][0],) + p[1:]
                               for i, p in enumerate(system["particles"])]
    dims_of(system, where)
    dim("integrator " + integ + " @" + where)
    return system


def api_sequences(c, W, cfgs):
    """(b) sequences of public API calls — steps(n), integrate(t+d) with d<dt, =dt, >dt, backwards, 0,
    exact_finish_time 0/1, synchronize — in unsafe mode must reproduce the same calls in safe mode"""
    nseq = 6 if c.thorough else 2
    worst = {}
    nrev = 0
    for label, integ, mk, has_keep in cfgs:
        fam = label.split()[0]
        beat("api_sequences " + label)
        if "c2=1" in label:
            continue                      # F18 is reported by search(); here it would only mask other things
        for q in range(nseq):
            rng = c.rng.fork()
            system = tweak(W, gen_system(rng, physics=True), integ, label, "api sequences")
            plan = []
            for _ in range(rng.randint(3, 7)):
                u = rng.uniform()
                if u < 0.4:
                    plan.append(("steps", rng.randint(1, 6)))
                elif u < 0.5:
                    plan.append(("sync",))
                else:
                    kind = rng.choice(["lt", "lt", "lt", "eq", "gt", "gt", "rev", "zero"])
                    if integ == "eos" and kind == "rev":
                        kind = "gt"   # going back cancels the reversible scheme's own error: no truncation yardstick
                    plan.append(("integrate", kind, rng.uniform(0.05, 0.95), 1 if integ == "eos" else int(rng.chance(0.65))))
            if not any(p[0] == "integrate" for p in plan):
                plan.append(("integrate", "lt", 0.4, 1))
            if plan[0][0] != "steps":
                plan.insert(0, ("steps", rng.randint(1, 4)))      # enter the first integrate unsynchronised

            def run_seq(mode, halve):
                sy = dict(system)
                if halve:
                    sy["dt"] = system["dt"] / 2
                s = W.sim(sy, integ, mk(mode))
                r = ctypes.byref(s)
                snaps, info = [], []
                base_dt = abs(system["dt"])
                for p in plan:
                    if p[0] == "steps":
                        for _ in range(p[1] * (2 if halve else 1)):
                            W.lib.reb_simulation_step(r)
                    elif p[0] == "sync":
                        W.lib.reb_simulation_synchronize(r)
                    else:
                        kind, u, ex = p[1], p[2], p[3]
                        d = {"lt": u * base_dt, "eq": base_dt, "gt": (1 + 3.5 * u) * base_dt,
                             "rev": -(0.05 + 3 * u) * base_dt, "zero": 0.0}[kind]
                        fwd = math.copysign(1., s.dt)
                        ri = {"whfast": s.ri_whfast, "saba": s.ri_saba, "mercurius": s.ri_mercurius, "eos": s.ri_eos}[integ]
                        unsync_entry = (ri.is_synchronized == 0)
                        s.exact_finish_time = ex
                        W.lib.reb_simulation_integrate(r, s.t + fwd * d)
                        snaps.append((coords(W, s), s.t))
                        info.append((kind, ex, unsync_entry))
                W.lib.reb_simulation_synchronize(r)
                snaps.append((coords(W, s), s.t))
                info.append(("end", 1, False))
                return snaps, info

            sa, _ = run_seq("safe", False)
            su, info = run_seq("unsafe", False)
            sh = run_seq("safe", True)[0] if integ == "eos" else None
            c.count(("api-seq", label, q, tuple(p[:2] for p in plan)))
            tainted = False
            runs = [("unsafe", su)]
            if has_keep:
                # keep_unsynchronized=1 x repeated exact-finish outputs x sign reversal: after the fixes the C API
                # promises the safe-mode result here too (it synchronises for real before it changes dt)
                runs.append(("keep_unsynchronized", run_seq("keep", False)[0]))
                dim("keep_unsynchronized=1 x integrate call patterns vs safe mode")
            for modename, su in runs:
              for j, ((ca, ta), (cu, tu)) in enumerate(zip(sa, su)):
                nreal_ = len(ca) - (len(system["particles"]) * int(label.split("var=")[1][0]) if "var=" in label else 0) - \
                    (len(system["particles"]) if "megno=1" in label else 0)
                err = grouped_err(ca, cu, nreal_)
                tol = 1e-10
                if integ == "eos":
                    ch = sh[j][0]
                    tol = 10 * grouped_err(ca, ch, nreal_) + 1e-10
                kind, ex, unsync_entry = info[j]
                rev_unsync = (kind == "rev" and unsync_entry)
                if rev_unsync:
                    nrev += 1
                if ta != tu or not err <= tol:
                    key = "C09:integrate-reverse-unsynchronized" if rev_unsync else "api-sequence:" + fam
                    key += (":keep" if modename != "unsafe" else "")
                    if modename != "unsafe" and "var=" in label and not W.K["vfix"]:
                        # part2's N_var_config block undoes its own variational centre-of-mass drift when it
                        # restores the cached p_jh (model: Config.vfix, theorem c09_whfast_variational_keep_loses_…)
                        key = "C09:whfast-var-keep-com-drift-lost"
                    c.violation(key, "%s: the call sequence %s in %s mode differs from safe mode by %.3g relative after call %d (integrate kind %s, exact_finish_time=%d, unsynchronised on entry: %s)"
                                % (label, [p[:2] for p in plan], modename, err, j, kind, ex, unsync_entry),
                                {"integrator": integ, "label": label, "system": system, "plan": plan, "call_index": j,
                                 "relative_difference": err, "t_safe": ta, "t_unsafe": tu})
                    tainted = True
                    break
                worst[fam] = max(worst.get(fam, 0.0), err)
    c.cov["api_sequences_worst_relative_difference"] = {k: float("%.3g" % v) for k, v in sorted(worst.items())}
    c.cov["api_sequences_reverse_integrate_while_unsynchronised"] = nrev


def archive_outputs(c, W, cfgs):
    """(vi) the public output paths that combine keep_unsynchronized with integrate():
    Simulationarchive.getSimulation(t, mode in snapshot/close/exact, keep_unsynchronized 0/1) on an
    archive written with safe_mode=0 must lie on the safe-mode trajectory, 'exact' must end at t, and
    with keep_unsynchronized=1 (snapshot/close) continuing to the end of the production run must
    reproduce its final state bit for bit;  (vii) direct integrate(t, exact_finish_time=1) while
    keep_unsynchronized=1, safe_mode=0."""
    import warnings
    tmpdir = tempfile.mkdtemp(prefix="c09a.", dir=os.environ.get("VERIF_TMP", "/tmp"))
    common._scratch.append(tmpdir)
    pick = [x for x in cfgs if x[1] in ("whfast", "saba", "mercurius") and "c2=1" not in x[0] and "var=" not in x[0]]
    if not c.thorough:
        pick = [x for i, x in enumerate(pick) if x[0].startswith("whfast c") and "corr0" in x[0] and " k0" in x[0]] + \
               [x for x in pick if x[0] in ("whfast c0 k0 corr7 c2=0", "whfast c0 k2 corr0 c2=0", "saba SABA(10,6,4)", "saba SABACM2", "saba SABACL3", "mercurius")]
    worst = {}
    nout = 0
    for label, integ, mk, has_keep in pick:
        fam = label.split()[0]
        beat("archive_outputs " + label)
        for rep in range(3 if c.thorough else 1):
            rng = c.rng.fork()
            system = gen_system(rng, physics=True)
            system["dt"] = abs(system["dt"])
            system["dims"] = [d for d in system["dims"] if d != "dt < 0"]
            system = tweak(W, system, integ, label, "archive outputs")
            dim("archive restore mid-run (getSimulation snapshot/close/exact)")
            dt = system["dt"]
            T = dt * rng.uniform(38.3, 44.7)
            fn = os.path.join(tmpdir, "a.bin")
            P = W.sim(system, integ, mk("unsafe"))
            P.save_to_file(fn, interval=dt * rng.uniform(7.2, 11.9), delete_file=True)
            P.exact_finish_time = 0
            W.lib.reb_simulation_integrate(ctypes.byref(P), T)
            fin = final_state(W, P, integ)
            fin.pop("p_jh", None)
            with warnings.catch_warnings():
                warnings.simplefilter("ignore")
                sa = W.rb.Simulationarchive(fn)
                for tget in (sa.tmin + (sa.tmax - sa.tmin) * rng.uniform(0.2, 0.5), sa.tmin + (sa.tmax - sa.tmin) * rng.uniform(0.55, 0.95)):
                    for mode in ("snapshot", "close", "exact"):
                        for keep in (0, 1):
                            try:
                                o = sa.getSimulation(tget, mode=mode, keep_unsynchronized=keep)
                                if keep == 1 and mode == "snapshot":
                                    o.copy().steps(1)       # the returned simulation must be usable
                            except RuntimeError as ex:
                                c.violation("C09:getsimulation-saba-keep-unsynchronized" if (integ == "saba" and keep == 1 and mode != "exact")
                                            else "archive-output-raises:%s:%s" % (fam, mode),
                                            "%s: getSimulation(t, mode=%r, keep_unsynchronized=%d) on an archive written with safe_mode=0 raises: %s"
                                            % (label, mode, keep, str(ex)[:120]),
                                            {"integrator": integ, "label": label, "system": system, "mode": mode, "keep_unsynchronized": keep,
                                             "t_requested": tget, "t_end_of_production_run": T, "exception": str(ex)})
                                continue
                            R = W.sim(system, integ, mk("safe"))
                            R.exact_finish_time = int(mode == "exact")
                            W.lib.reb_simulation_integrate(ctypes.byref(R), o.t)
                            co, cr = coords(W, o), coords(W, R)
                            sx = max(abs(v) for p in cr for v in p[:3])
                            sv = max(abs(v) for p in cr for v in p[3:])
                            err = max(max(abs(a[k] - b[k]) / (sx if k < 3 else sv) for k in range(6)) for a, b in zip(co, cr))
                            worst[fam] = max(worst.get(fam, 0.0), err)
                            nout += 1
                            c.count(("archive-output", label, mode, keep, rep))
                            ttol = 1e-12 * max(abs(tget), abs(dt))       # reb_check_exit's own window
                            t_ok = (mode != "exact") or abs(o.t - tget) <= ttol
                            if not err <= 1e-10 or not t_ok or not abs(o.t - R.t) <= ttol:
                                c.violation("archive-output:%s:%s" % (fam, mode),
                                            "%s: getSimulation(t, mode=%r, keep_unsynchronized=%d) from an archive written with safe_mode=0 "
                                            "differs from the safe-mode trajectory by %.3g relative (t=%r, requested %r)" % (label, mode, keep, err, o.t, tget),
                                            {"integrator": integ, "label": label, "system": system, "mode": mode, "keep_unsynchronized": keep,
                                             "t_requested": tget, "t_end_of_production_run": T, "relative_difference": err})
                                continue
                            if keep == 1 and mode in ("snapshot", "close") and has_keep:
                                # bit-by-bit: the output must not have changed the trajectory
                                o.exact_finish_time = 0
                                W.lib.reb_simulation_integrate(ctypes.byref(o), T)
                                fo = final_state(W, o, integ)
                                fo.pop("p_jh", None)
                                if fo != fin:
                                    c.violation("archive-continue:%s:%s" % (fam, mode),
                                                "%s: continuing from getSimulation(t, mode=%r, keep_unsynchronized=1) does not reproduce the production run bit for bit"
                                                % (label, mode),
                                                {"integrator": integ, "label": label, "system": system, "mode": mode, "t_requested": tget,
                                                 "t_end_of_production_run": T})
            # (vii) the C API: integrate with exact_finish_time=1 while keep_unsynchronized=1
            if has_keep:
                A = W.sim(system, integ, mk("safe"))
                B = W.sim(system, integ, mk("keep"))
                tq = dt * rng.uniform(5.1, 9.9)
                for s_ in (A, B):
                    for _ in range(3):
                        W.lib.reb_simulation_step(ctypes.byref(s_))
                    s_.exact_finish_time = 1
                    W.lib.reb_simulation_integrate(ctypes.byref(s_), tq)
                ca, cb = coords(W, A), coords(W, B)
                sx = max(abs(v) for p in ca for v in p[:3])
                sv = max(abs(v) for p in ca for v in p[3:])
                err = max(max(abs(a[k] - b[k]) / (sx if k < 3 else sv) for k in range(6)) for a, b in zip(ca, cb))
                c.count(("keep-exact", label, rep))
                worst[fam + " keep+exact"] = max(worst.get(fam + " keep+exact", 0.0), err)
                if not err <= 1e-10:
                    c.violation("C09:exact-finish-with-keep-unsynchronized",
                                "%s: integrate(t, exact_finish_time=1) with keep_unsynchronized=1, safe_mode=0 differs from safe mode by %.3g relative"
                                % (label, err),
                                {"integrator": integ, "label": label, "system": system, "calls": ["step", "step", "step", "integrate(%r, exact_finish_time=1)" % tq],
                                 "relative_difference": err})
    c.cov["archive_outputs_checked"] = nout
    c.cov["archive_outputs_worst_relative_difference"] = {k: float("%.3g" % v) for k, v in sorted(worst.items())}


def callback_search(c, W, cfgs):
    """(viii) particle edits made INSIDE the step through pre_/post_timestep_modifications (a drag
    proportional to dt): unsafe mode must give what safe mode gives — the callback has to see
    synchronised particles and its edit has to be picked up by the integrator's internal coordinates"""
    want = ["whfast c0 k0 corr0 c2=0", "whfast c1 k0 corr0 c2=0", "whfast c2 k0 corr0 c2=0", "whfast c3 k0 corr0 c2=0",
            "whfast c0 k0 corr11 c2=0", "whfast c0 k2 corr0 c2=0", "saba SABA(10,6,4)", "saba SABACM2", "saba SABACL3", "mercurius",
            "eos phi0=0 phi1=0 n=2", "eos phi0=3 phi1=1 n=2", "eos phi0=8 phi1=1 n=2"]
    pick = [x for x in cfgs if x[0] in want] if not c.thorough else [x for x in cfgs if "c2=1" not in x[0] and "var=" not in x[0]]
    worst = {}
    nsteps = 120 if c.thorough else 60

    def drag(sp):
        s_ = sp.contents
        f = 1. - 0.002 * abs(s_.dt)
        pp = s_._particles
        for i in range(1, s_.N):
            pp[i].vx = pp[i].vx * f
            pp[i].vy = pp[i].vy * f
            pp[i].vz = pp[i].vz * f

    def reader(sp):
        W.lib.reb_simulation_energy(sp)

    def force_pos(sp):
        s_ = sp.contents
        pp = s_._particles
        for i in range(1, s_.N):
            pp[i].ax = pp[i].ax - 1e-3 * pp[i].x
            pp[i].ay = pp[i].ay - 1e-3 * pp[i].y

    def force_vel(sp):
        s_ = sp.contents
        pp = s_._particles
        for i in range(1, s_.N):
            pp[i].ax = pp[i].ax - 1e-3 * pp[i].vx
            pp[i].ay = pp[i].ay - 1e-3 * pp[i].vy
            pp[i].az = pp[i].az - 1e-3 * pp[i].vz

    for label, integ, mk, has_keep in pick:
        fam = label.split()[0]
        beat("callback_search " + label)
        for which in ("pre", "post", "both", "readonly", "force_pos", "force_vel"):
            rng = c.rng.fork()
            if which == "force_vel" and (("whfast" in label and ("corr0" not in label or " k0" not in label)) or "SABAC" in label
                                         or integ == "mercurius"):
                # (MERCURIUS is kick-first: deferring merges two half kicks, which is exact only for
                # forces that do not depend on the velocities the kick changes)
                # symplectic correctors / modified kicks are built on kicks that depend on positions only
                # (docs: "works for Newtonian gravity only"): safe = unsafe is not promised there
                continue
            system = tweak(W, gen_system(rng, physics=True), integ, label, "callbacks")

            def run_cb(mode, halve=False, n=None, nudge=False):
                sy = dict(system)
                if halve:
                    sy["dt"] = system["dt"] / 2
                if nudge:
                    sy["particles"] = [p if i != 1 else (p[0], p[1] * (1 + 2.0 ** -50)) + tuple(p[2:]) for i, p in enumerate(system["particles"])]
                s_ = W.sim(sy, integ, mk(mode))
                if which in ("pre", "both"):
                    s_.pre_timestep_modifications = drag
                if which in ("post", "both"):
                    s_.post_timestep_modifications = drag
                if which == "readonly":
                    s_.pre_timestep_modifications = reader
                    s_.post_timestep_modifications = reader
                if which == "force_pos":
                    s_.additional_forces = force_pos
                if which == "force_vel":
                    s_.additional_forces = force_vel
                    s_.force_is_velocity_dependent = 1
                for _ in range((n or nsteps) * (2 if halve else 1)):
                    W.lib.reb_simulation_step(ctypes.byref(s_))
                W.lib.reb_simulation_synchronize(ctypes.byref(s_))
                return coords(W, s_)

            ca, cu = run_cb("safe"), run_cb("unsafe")
            sx = max(abs(v) for p in ca for v in p[:3])
            sv = max(abs(v) for p in ca for v in p[3:])
            if has_keep and which in ("readonly", "post") and integ in ("whfast", "saba"):
                # keep_unsynchronized=1 x callbacks: reb_simulation_step synchronises (flag stays 0), sets the recalculate
                # flag, part1 recalculates while unsynchronised.  Read-only callbacks: must equal safe mode (theorem
                # c09_whfast_keep_unsynchronized_with_callbacks_equals_safe_repaired; as found: half a drift too many per
                # step).  Editing callbacks: the edit is discarded by the next synchronize (documented meaning of the flag:
                # "the inertial coordinates generated are discarded") - recorded, not asserted.
                ck = run_cb("keep")
                ek = max(max(abs(a[k] - b[k]) / (sx if k < 3 else sv) for k in range(6)) for a, b in zip(ca, ck))
                if which == "readonly":
                    dim("keep_unsynchronized=1 x read-only callbacks vs safe mode")
                    c.count(("callback-keep", label))
                    worst["keep:" + fam] = max(worst.get("keep:" + fam, 0.0), ek)
                    if not ek <= 1e-10:
                        c.violation("callback:%s:readonly:keep" % fam,
                                    "%s: keep_unsynchronized=1 with read-only pre/post callbacks + synchronize differs from safe mode by %.3g relative after %d steps"
                                    % (label, ek, nsteps),
                                    {"integrator": integ, "label": label, "system": system, "callback": which, "steps": nsteps, "relative_difference": ek})
                else:
                    rec = c.cov.setdefault("keep_unsynchronized_with_editing_callbacks (edits discarded by design, recorded only)", {})
                    rec[fam] = max(rec.get(fam, 0.0), float("%.3g" % ek))
            err = max(max(abs(a[k] - b[k]) / (sx if k < 3 else sv) for k in range(6)) for a, b in zip(ca, cu))
            tol = 1e-10
            if integ == "eos":
                ch = run_cb("safe", True)
                tol = 10 * max(max(abs(a[k] - b[k]) / (sx if k < 3 else sv) for k in range(6)) for a, b in zip(ca, ch)) + 1e-10
            c.count(("callback", label, which))
            dim({"pre": "pre/post_timestep_modifications editing particles", "post": "pre/post_timestep_modifications editing particles",
                 "both": "pre/post_timestep_modifications editing particles", "readonly": "pre/post_timestep_modifications read-only",
                 "force_pos": "additional_forces (position dependent)", "force_vel": "additional_forces (velocity dependent)"}[which])
            worst[fam] = max(worst.get(fam, 0.0), err if integ != "eos" else err / tol)
            if not err <= tol and integ != "eos" and err <= 1e-6:
                # borderline: an unstable trajectory (e.g. the non-translation-invariant test force pulling a planet off a
                # drifting star) amplifies rounding differences.  A defect is systematic: visible after 30 steps (the
                # seeded changes and C09:mercurius-additional-forces-frame are >= 1e-8 there); amplification shows in
                # a last-bit perturbation of the safe run growing to a comparable size
                n_early = 30
                ea, eu = run_cb("safe", n=n_early), run_cb("unsafe", n=n_early)
                err_early = max(max(abs(a[k] - b[k]) / (sx if k < 3 else sv) for k in range(6)) for a, b in zip(ea, eu))
                cn = run_cb("safe", nudge=True)
                eend = max(max(abs(a[k] - b[k]) / (sx if k < 3 else sv) for k in range(6)) for a, b in zip(ca, cn))
                c.cov.setdefault("chaos_controls", []).append({"label": label + " callbacks " + which, "difference": err, "difference_after_30": err_early,
                                                               "last_bit_perturbation_grows_to": eend})
                if eend >= 1e-3 * err and err_early <= 3e-11:
                    c.cov["inconclusive_chaotic_runs"] = c.cov.get("inconclusive_chaotic_runs", 0) + 1
                    continue
            if not err <= tol:
                c.violation("C09:mercurius-additional-forces-frame" if (integ == "mercurius" and which.startswith("force")) else "callback:%s:%s" % (fam, which),
                            "%s: with callbacks '%s' installed (pre/post/both: a drag edit of the velocities; readonly: energy(); force_*: additional_forces), unsafe mode + synchronize differs from safe mode by %.3g relative after %d steps"
                            % (label, which, err, nsteps),
                            {"integrator": integ, "label": label, "system": system, "callback": which, "steps": nsteps,
                             "edit": "v *= 1 - 0.002*|dt| for every particle but the first", "relative_difference": err})
    c.cov["callback_search_worst (eos: fraction of its tolerance)"] = {k: float("%.3g" % v) for k, v in sorted(worst.items())}


def mode_toggle_search(c, W, cfgs):
    """(x) safe_mode switched between steps — the documented way to speed up a run after set-up, or to go back to
    safe mode before editing: n1 steps in one mode, `ri_*.safe_mode` flipped, n2 steps, synchronize, against safe
    mode all the way.  n1 = 1 puts the switch right after the first step (with variational coordinates above
    1e100: right after a rescaling)."""
    pick = [x for x in cfgs if x[1] in ("whfast", "saba", "mercurius") and "c2=1" not in x[0]]
    if not c.thorough:
        want = ("whfast c0 k0 corr0 c2=0", "whfast c1 k0 corr0 c2=0", "whfast c0 k0 corr7 c2=0", "whfast c0 k1 corr0 c2=0", "saba SABA(10,6,4)",
                "saba SABACM2", "mercurius")
        pick = [x for x in pick if x[0] in want or "var=" in x[0]]
    worst = {}
    for label, integ, mk, has_keep in pick:
        fam = label.split()[0]
        beat("mode_toggle_search " + label)
        rng = c.rng.fork()
        system = tweak(W, gen_system(rng, physics=True), integ, label, "mode toggle")
        nvarp = (len(system["particles"]) * int(label.split("var=")[1][0]) if "var=" in label else 0) + \
            (len(system["particles"]) if "megno=1" in label else 0)
        for n1 in (1, 4):
            n2 = 12

            def run_t(first, second):
                s_ = W.sim(system, integ, mk(first))
                r_ = ctypes.byref(s_)
                for _ in range(n1):
                    W.lib.reb_simulation_step(r_)
                if second != first:
                    set_mode_flags(s_, integ, "ms", int(second == "safe"))
                for _ in range(n2):
                    W.lib.reb_simulation_step(r_)
                W.lib.reb_simulation_synchronize(r_)
                return coords(W, s_)
            ca = run_t("safe", "safe")
            for first, second in (("safe", "unsafe"), ("unsafe", "safe")):
                cb_ = run_t(first, second)
                err = grouped_err(ca, cb_, len(ca) - nvarp)
                dim("safe_mode toggled mid-run vs safe mode (search)")
                c.count(("mode-toggle", label, n1, first))
                worst[fam] = max(worst.get(fam, 0.0), err) if err < 1e50 else worst.get(fam, 0.0)
                if not err <= 1e-10:
                    key = "mode-toggle:%s:%s-to-%s" % (fam, first, second)
                    if "hugevar" in label and first == "safe" and n1 == 1 and not W.K["rfix"]:
                        # reb_simulation_rescale_var sets the recalculate flag only if safe_mode == 0 at that moment
                        key = "C09:rescale-var-stale-pjh-after-safe-mode-off"
                    if integ == "saba" and first == "unsafe" and not W.K["p1sync"]:
                        # SABA's part1 runs from_inertial on the particles as they are: half a drift behind
                        key = "C09:saba-part1-recalculates-unsynchronised"
                    c.violation(key, "%s: %d steps with safe_mode=%d, then safe_mode=%d for %d steps + synchronize differs from safe mode all the way by %.3g (relative, real and variational particles each on their own scale)"
                                % (label, n1, int(first == "safe"), int(second == "safe"), n2, err),
                                {"integrator": integ, "label": label, "system": system, "steps_before": n1, "steps_after": n2,
                                 "first_mode": first, "second_mode": second, "relative_difference": err})
    c.cov["mode_toggle_search_worst_relative_difference"] = {k: float("%.3g" % v) for k, v in sorted(worst.items())}


def history_search(c, W, cfgs):
    """(ix) histories done the documented way (docs/integrators.md: "care must be taken to synchronize and
    recalculate coordinates manually"): steps in unsafe mode, synchronize, then change dt / add a particle /
    remove a particle / run another integrator (and come back with the recalculate flags set, or through
    reset_integrator), continue, synchronize — must give what safe mode gives.  The same histories WITHOUT
    the synchronize are the user's responsibility; their deviation is only recorded.
    Also: a read-only heartbeat and the Python integrate() with the finish-mode argument omitted."""
    want = ["whfast c0 k0 corr0 c2=0", "whfast c1 k0 corr0 c2=0", "whfast c3 k0 corr0 c2=0", "whfast c0 k0 corr7 c2=0",
            "saba SABA(10,6,4)", "saba SABACM2", "mercurius", "eos phi0=0 phi1=0 n=2", "eos phi0=3 phi1=1 n=2"]
    pick = [x for x in cfgs if x[0] in want] if not c.thorough else [x for x in cfgs if "c2=1" not in x[0] and "var=" not in x[0]]
    worst, unsynced = {}, {}
    ris = lambda s_: (s_.ri_whfast, s_.ri_saba, s_.ri_eos, s_.ri_mercurius)

    def do(s_, name, sync, extra):
        r_ = ctypes.byref(s_)
        for _ in range(7):
            W.lib.reb_simulation_step(r_)
        if sync:
            W.lib.reb_simulation_synchronize(r_)
        if name == "dt changed":
            s_.dt = s_.dt * 0.61
        elif name == "particle added":
            s_.add(m=extra[0], x=extra[1], y=extra[2], z=extra[3], vx=extra[4], vy=extra[5], vz=extra[6])
        elif name == "particle removed":
            s_.remove(s_.N - 1)
        elif name == "flag: recalculate_coordinates set by the user":
            s_.ri_whfast.recalculate_coordinates_this_timestep = 1
            s_.ri_mercurius.recalculate_coordinates_this_timestep = 1
        elif name == "flag: recalculate_r_crit set by the user":
            s_.ri_mercurius.recalculate_r_crit_this_timestep = 1
        elif name.startswith("integrator switched"):
            old = s_.integrator
            s_.integrator = "leapfrog"
            for _ in range(3):
                W.lib.reb_simulation_step(r_)
            s_.integrator = old
            if name.endswith("flags set"):
                s_.ri_whfast.recalculate_coordinates_this_timestep = 1
                s_.ri_mercurius.recalculate_coordinates_this_timestep = 1
            else:
                sm = [ri.safe_mode for ri in ris(s_)]
                conf = (s_.ri_whfast._coordinates, s_.ri_whfast.corrector, s_.ri_saba._type, s_.ri_eos._phi0, s_.ri_eos._phi1, s_.ri_eos.n)
                W.lib.reb_simulation_reset_integrator(r_)      # also sets r->integrator = IAS15
                s_.integrator = old
                for ri, v in zip(ris(s_), sm):
                    ri.safe_mode = v
                s_.ri_whfast._coordinates, s_.ri_whfast.corrector, s_.ri_saba._type, s_.ri_eos._phi0, s_.ri_eos._phi1, s_.ri_eos.n = conf
        for _ in range(7):
            W.lib.reb_simulation_step(r_)
        W.lib.reb_simulation_synchronize(r_)
        return coords(W, s_)

    def rel(ca, cb):
        n = min(len(ca), len(cb))
        sx = max(abs(v) for p in ca for v in p[:3])
        sv = max(abs(v) for p in ca for v in p[3:])
        return max(max(abs(a[k] - b[k]) / (sx if k < 3 else sv) for k in range(6)) for a, b in zip(ca[:n], cb[:n]))

    for label, integ, mk, has_keep in pick:
        fam = label.split()[0]
        beat("history_search " + label)
        names = ["dt changed", "particle added", "particle removed", "integrator switched, flags set", "integrator switched, reset_integrator"]
        # the documented recalculation flags set mid-run WITHOUT a synchronize (a half step is pending): WHFast and
        # MERCURIUS synchronise by themselves before they recalculate; SABA does not (recorded only, see notes)
        if integ in ("whfast", "mercurius"):
            names.append("flag: recalculate_coordinates set by the user")
        if integ == "mercurius":
            names.append("flag: recalculate_r_crit set by the user")
        for name in names:
            rng = c.rng.fork()
            system = tweak(W, gen_system(rng, physics=True), integ, label, "histories")
            if len(system["particles"]) < 3 and name == "particle removed":
                continue
            if "kernel" in label and " k0" not in label and name.endswith("reset_integrator"):
                continue
            last = system["particles"][-1]
            extra = (0.0 if (system["N_active"] != -1) else 1e-6,) + tuple(v * 1.9 if k < 3 else v * 0.7 for k, v in enumerate(last[1:]))
            presync = not name.startswith("flag:")
            ca = do(W.sim(system, integ, mk("safe")), name, True, extra)
            cu = do(W.sim(system, integ, mk("unsafe")), name, presync, extra)
            err = rel(ca, cu)
            tol = 1e-10
            if integ == "eos":
                tol = 1e-3      # EOS: truncation level (no halved-dt yardstick for a history that changes dt / N)
            c.count(("history", label, name))
            dim("history: " + name + (" after synchronize" if presync else " while unsynchronised"))
            worst[fam + ": " + name] = max(worst.get(fam + ": " + name, 0.0), err)
            if not err <= tol:
                c.violation("history:%s:%s" % (fam, name.split(",")[0]),
                            "%s: 7 steps (unsafe), %s%s, 7 steps, synchronize differs from the same history in safe mode by %.3g relative"
                            % (label, "synchronize, " if presync else "(no synchronize) ", name, err),
                            {"integrator": integ, "label": label, "system": system, "history": name, "relative_difference": err})
            # the same without the synchronize: the user's responsibility, recorded only
            try:
                cw = do(W.sim(system, integ, mk("unsafe")), name, False, extra)
                e2 = rel(ca, cw)
                e2 = e2 if e2 == e2 else float("inf")
            except Exception:
                e2 = float("inf")
            unsynced[fam + ": " + name] = max(unsynced.get(fam + ": " + name, 0.0), e2)
        # read-only heartbeat during integrate(): must not change a bit; Python integrate() without finish mode
        rng = c.rng.fork()
        system = tweak(W, gen_system(rng, physics=True), integ, label, "heartbeat")
        A = W.sim(system, integ, mk("unsafe"))
        B = W.sim(system, integ, mk("unsafe"))
        seen = []

        def hb(sp):
            seen.append(W.lib.reb_simulation_energy(sp))
        B.heartbeat = hb
        tend = system.get("t0", 0.0) + 9.3 * system["dt"]
        A.integrate(tend)                # Python layer, exact_finish_time omitted (= 1)
        B.integrate(tend)
        dim("heartbeat (read-only) during integrate")
        dim("integrate() with the finish-mode argument omitted")
        c.count(("heartbeat", label))
        if final_state(W, A, integ) != final_state(W, B, integ) or not seen or not abs(A.t - tend) <= 1e-12 * max(abs(tend), abs(system["dt"])):
            c.violation("heartbeat:%s" % fam, "%s: a read-only heartbeat (energy()) during integrate() changes the result, was not called, or t != tmax (t=%r, tmax=%r)"
                        % (label, A.t, tend), {"integrator": integ, "label": label, "system": system, "tmax": tend})
    c.cov["history_search_worst_relative_difference"] = {k: float("%.3g" % v) for k, v in sorted(worst.items())}
    c.cov["histories_without_synchronize (user responsibility, recorded only)"] = {k: (float("%.3g" % v) if v != float("inf") else "nan/inf") for k, v in sorted(unsynced.items())}


def search(c, W):
    rng0 = c.rng.fork()
    cfgs = integrator_configs(rng0, c.thorough)
    tmpdir = tempfile.mkdtemp(prefix="c09.", dir=os.environ.get("VERIF_TMP", "/tmp"))
    common._scratch.append(tmpdir)
    nsys = 20 if c.thorough else 1
    nsteps_bit = 40 if c.thorough else 20
    nsteps_phys = 500 if c.thorough else 150
    worst = {}
    worst_early = {}
    eos_ratio = {}
    for label, integ, mk, has_keep in cfgs:
        for isys in range(nsys):
            beat("search " + label)
            rng = c.rng.fork()
            system_phys = tweak(W, gen_system(rng, physics=True), integ, label, "safe vs unsafe")
            icfg = [x[0] for x in cfgs].index(label)
            system = tweak(W, gen_system(rng, physics=(integ == "mercurius"), force=(FORCED[icfg % len(FORCED)] if isys == 0 else None)),
                           integ, label, "bitwise clauses")
            is_c2 = "c2=1" in label
            # ---------------- (i) interruptions do not change a bit; a copy / reloaded snapshot taken at an
            # unsynchronised intermediate time continues on the same trajectory, bit for bit
            for rep in range(3 if c.thorough else 2):
                mode = "keep" if (has_keep and rep % 2 == 0) else "unsafe"
                allow_sync = (mode == "keep")
                A = W.sim(system, integ, mk(mode))
                B = W.sim(system, integ, mk(mode))
                plan = []
                clones = []
                kclone = rng.randint(2, nsteps_bit - 4)
                for k in range(nsteps_bit):
                    W.lib.reb_simulation_step(ctypes.byref(A))
                    W.lib.reb_simulation_step(ctypes.byref(B))
                    for _, cl in clones:
                        W.lib.reb_simulation_step(ctypes.byref(cl))
                    if k == kclone:
                        try:
                            clones.append(("copy()", B.copy()))
                            fn = os.path.join(tmpdir, "clone.bin")
                            if os.path.exists(fn):
                                os.remove(fn)
                            B.save_to_file(fn)
                            clones.append(("save_to_file + Simulation(file)", W.rb.Simulation(fn)))
                            import pickle
                            clones.append(("pickle", pickle.loads(pickle.dumps(B))))
                            dim("save / copy / pickle restore mid-run, continued")
                        except Exception as ex:
                            c.violation("clone-raises:" + label.split()[0], "%s (%s): copy / save+load after step %d raises %s" % (label, mode, k, str(ex)[:150]),
                                        {"integrator": integ, "label": label, "mode": mode, "system": system, "clone_after_step": k})
                    if rng.chance(0.5):
                        for _ in range(rng.randint(1, 3)):
                            kind = rng.choice(KINDS)
                            if not allow_sync and kind in ("sync", "sync2"):
                                kind = "energy"
                            plan.append((k, kind))
                            dim("diagnostics (energy/orbits/com/angular momentum) and outputs between steps, %s" % integ)
                            interrupt(W, B, kind, tmpdir, allow_sync)
                mid = (final_state(W, A, integ), final_state(W, B, integ)) if not allow_sync else None
                W.lib.reb_simulation_synchronize(ctypes.byref(A))
                W.lib.reb_simulation_synchronize(ctypes.byref(B))
                fa, fb = final_state(W, A, integ), final_state(W, B, integ)
                c.count(("bitwise", label, isys, rep, mode), nontrivial=len(plan) > 0)
                if fa != fb or (mid is not None and mid[0] != mid[1]):
                    c.violation("interleaving:" + label.split()[0],
                                "%s (%s): calls %s between steps change the final state (not bit-identical to the uninterrupted run)"
                                % (label, mode, sorted(set(k for _, k in plan))),
                                {"integrator": integ, "label": label, "mode": mode, "system": system, "steps": nsteps_bit,
                                 "interruptions_after_step": plan})
                    break
                for how, cl in clones:
                    W.lib.reb_simulation_synchronize(ctypes.byref(cl))
                    fc = final_state(W, cl, integ)
                    c.count(("clone", label, isys, rep, mode, how))
                    if fc != fa:
                        diffk = [q for q in fa if fa[q] != fc.get(q)]
                        c.violation("clone-continue:%s" % label.split()[0],
                                    "%s (%s): a simulation obtained by %s after step %d (unsynchronised) and continued for %d steps does not end in the state of the uninterrupted run (differs in %s; is_synchronized flags of the clone right after cloning may be wrong)"
                                    % (label, mode, how, kclone, nsteps_bit - 1 - kclone, diffk),
                                    {"integrator": integ, "label": label, "mode": mode, "system": system, "steps": nsteps_bit,
                                     "clone_after_step": kclone, "how": how})
                        break
            # ---------------- (iii) synchronize twice = once
            A = W.sim(system, integ, mk("unsafe"))
            for k in range(5):
                W.lib.reb_simulation_step(ctypes.byref(A))
            W.lib.reb_simulation_synchronize(ctypes.byref(A))
            f1 = final_state(W, A, integ)
            W.lib.reb_simulation_synchronize(ctypes.byref(A))
            f2 = final_state(W, A, integ)
            c.count(("sync2", label, isys))
            ok3 = f1 == f2
            if has_keep and ok3:
                A = W.sim(system, integ, mk("keep"))
                for k in range(5):
                    W.lib.reb_simulation_step(ctypes.byref(A))
                W.lib.reb_simulation_synchronize(ctypes.byref(A))
                f1 = final_state(W, A, integ)
                W.lib.reb_simulation_synchronize(ctypes.byref(A))
                ok3 = f1 == final_state(W, A, integ)
            if not ok3:
                c.violation("sync-twice:" + label.split()[0], "%s: synchronize twice differs from synchronize once" % label,
                            {"integrator": integ, "label": label, "system": system, "steps": 5})
            # ---------------- (ii) safe vs unsafe
            system = system_phys
            A = W.sim(system, integ, mk("safe"))
            B = W.sim(system, integ, mk("unsafe"))
            syncs = []
            err_early = None
            n_early = 50

            def reldiff(ca, cb):
                sx = max(abs(v) for p in ca for v in p[:3])
                sv = max(abs(v) for p in ca for v in p[3:])
                return max(max(abs(a[k] - b[k]) / (sx if k < 3 else sv) for k in range(6)) for a, b in zip(ca, cb)), sx, sv

            for k in range(nsteps_phys):
                W.lib.reb_simulation_step(ctypes.byref(A))
                W.lib.reb_simulation_step(ctypes.byref(B))
                if rng.chance(0.03) or k == n_early - 1:
                    W.lib.reb_simulation_synchronize(ctypes.byref(B))
                    syncs.append(k)
                if k == n_early - 1:
                    err_early = reldiff(coords(W, A), coords(W, B))[0]
            W.lib.reb_simulation_synchronize(ctypes.byref(B))
            ca, cb = coords(W, A), coords(W, B)
            err, scale_x, scale_v = reldiff(ca, cb)
            c.count(("phys", label, isys))
            fam = label.split()[0] + ("+corrector2" if "c2=1" in label else "")
            if integ != "eos":
                worst[fam] = max(worst.get(fam, 0.0), err)
                worst[label] = max(worst.get(label, 0.0), err)
                worst_early[fam] = max(worst_early.get(fam, 0.0), err_early)
                # a defect adds a systematic error per step (linear / quadratic growth): visible after 50
                # steps, before chaos can amplify rounding errors; at the end of the run a difference only
                # counts if it did not grow exponentially from the early one
                growth = err / max(err_early, 1e-16)
                chaotic = growth > 100. * (nsteps_phys / float(n_early)) ** 3
                tol_end = 2e-12 * nsteps_phys      # rounding allowance grows with the number of steps (3e-10 / 1e-9)
                if err > tol_end and chaotic:
                    c.cov["inconclusive_chaotic_runs"] = c.cov.get("inconclusive_chaotic_runs", 0) + 1
                bad = not err_early <= 1e-11 or (not err <= tol_end and not chaotic)
                if bad and err_early <= 1e-10:
                    # borderline: measure the chaos directly — does a last-bit perturbation of the safe run grow
                    # to a comparable size?  (a defect of the size of F18 or of the seeded bugs is >= 1e-10 early)
                    sp = dict(system)
                    sp["particles"] = [p if i != 1 else (p[0], p[1] * (1 + 2.0 ** -50)) + tuple(p[2:]) for i, p in enumerate(system["particles"])]
                    Ap = W.sim(sp, integ, mk("safe"))
                    e50 = None
                    for k in range(nsteps_phys):
                        W.lib.reb_simulation_step(ctypes.byref(Ap))
                        if k == n_early - 1:
                            e50 = None
                    eend = reldiff(ca, coords(W, Ap))[0]
                    c.cov.setdefault("chaos_controls", []).append({"label": label, "difference": err, "difference_after_50": err_early,
                                                                   "last_bit_perturbation_grows_to": eend})
                    if eend >= 1e-3 * err and err_early <= 3e-11:
                        bad = False
                        c.cov["inconclusive_chaotic_runs"] = c.cov.get("inconclusive_chaotic_runs", 0) + 1
                if bad:
                    c.violation("F18:whfast-corrector2-not-inverse" if is_c2 else "safe-unsafe:" + label.split()[0], "%s: unsafe mode + final synchronize differs from safe mode by %.3g relative after %d steps"
                                % (label, err, nsteps_phys),
                                {"integrator": integ, "label": label, "system": system, "steps": nsteps_phys,
                                 "intermediate_syncs_after_step": syncs, "relative_difference": err,
                                 "relative_difference_after_50_steps": err_early})
            else:
                # the scheme's own truncation error at this dt: safe mode at dt vs dt/2
                h = dict(system)
                h["dt"] = system["dt"] / 2
                Hs = W.sim(h, integ, mk("safe"))
                for k in range(2 * nsteps_phys):
                    W.lib.reb_simulation_step(ctypes.byref(Hs))
                ch = coords(W, Hs)
                trunc = max(max(abs(a[k] - b[k]) / (scale_x if k < 3 else scale_v) for k in range(6)) for a, b in zip(ca, ch))
                ratio = err / max(trunc, 1e-13)
                eos_ratio[label] = max(eos_ratio.get(label, 0.0), ratio)
                worst[label] = max(worst.get(label, 0.0), err)
                if not err <= 10 * trunc + 1e-10:      # truncation class + the rounding allowance of the others
                    c.violation("safe-unsafe:eos", "%s: unsafe+synchronize differs from safe mode by %.3g, more than 10x the scheme's truncation error %.3g"
                                % (label, err, trunc),
                                {"integrator": integ, "label": label, "system": system, "steps": nsteps_phys,
                                 "intermediate_syncs_after_step": syncs, "relative_difference": err, "truncation_error": trunc})
    c.cov["safe_vs_unsafe_worst_relative_difference"] = {k: float("%.3g" % v) for k, v in sorted(worst.items())}
    c.cov["safe_vs_unsafe_worst_relative_difference_after_50_steps"] = {k: float("%.3g" % v) for k, v in sorted(worst_early.items())}
    c.cov["eos_difference_over_truncation_error"] = {k: float("%.3g" % v) for k, v in sorted(eos_ratio.items())}
    c.cov["search_configurations"] = len(cfgs)
    api_sequences(c, W, cfgs)
    archive_outputs(c, W, cfgs)
    callback_search(c, W, cfgs)
    history_search(c, W, cfgs)
    mode_toggle_search(c, W, cfgs)


REQUIRED_DIMS = [
    "N_active < N, testparticle_type 0", "N_active < N, testparticle_type 1", "massive test particles, type 0",
    "massive test particles, type 1", "massless test particles", "zero-mass active body", "single active body",
    "variational particles (1st order, non-zero)", "init_megno", "safe_mode=0", "keep_unsynchronized=1", "G != 1", "softening != 0",
    "dt < 0", "direction reversal between calls", "integrate() split into several calls", "exact_finish_time 0", "exact_finish_time 1",
    "integrate() with the finish-mode argument omitted", "step longer than a period", "|t|/dt huge",
    "pre/post_timestep_modifications editing particles", "pre/post_timestep_modifications read-only",
    "additional_forces (position dependent)", "additional_forces (velocity dependent)", "heartbeat (read-only) during integrate",
    "history: dt changed after synchronize", "history: particle added after synchronize", "history: particle removed after synchronize",
    "history: integrator switched, flags set after synchronize", "history: integrator switched, reset_integrator after synchronize",
    "history: flag: recalculate_coordinates set by the user while unsynchronised", "history: flag: recalculate_r_crit set by the user while unsynchronised",
    "user sets recalculate_r_crit_this_timestep mid-run (MERCURIUS)",
    "save / copy / pickle restore mid-run, continued", "archive restore mid-run (getSimulation snapshot/close/exact)",
    "explicit synchronize", "user edits of particles / flags between steps", "close encounters (MERCURIUS)",
    "centre of mass offset and moving", "hyperbolic body", "N > 128 (allocation boundary)",
    "keep_unsynchronized=1 x integrate call patterns vs safe mode", "keep_unsynchronized=1 x read-only callbacks vs safe mode",
    "variational coordinates > 1e100 (rescaling event)", "variational rescaling performed (replay)",
    "safe_mode toggled mid-run vs safe mode (search)"]


# every public attribute of the integrator structs (extracted from rebound/integrators/*.py): where the op alphabet /
# the factors / the compared state cover it.  An attribute missing here is a broken obligation.
FLAG_MAP = {
    ("whfast", "corrector"): "factor corrector (0,3,5,7,11,17)", ("whfast", "corrector2"): "factor corrector2",
    ("whfast", "kernel"): "factor kernel", ("whfast", "coordinates"): "factor coord",
    ("whfast", "recalculate_coordinates_this_timestep"): "op f (setRecalc); set by the callback steps; compared after every op",
    ("whfast", "safe_mode"): "factor mode + op ms (toggled mid-run)", ("whfast", "keep_unsynchronized"): "factor mode + op mk (toggled mid-run)",
    ("whfast", "is_synchronized"): "state flag of the model, compared after every op",
    ("saba", "type"): "factor type (18 values)", ("saba", "safe_mode"): "factor mode + op ms", ("saba", "keep_unsynchronized"): "factor mode + op mk",
    ("saba", "is_synchronized"): "state flag of the model, compared after every op",
    ("mercurius", "L"): "option, sampled per case (mercury / C4 / C5 / infinity)", ("mercurius", "r_crit_hill"): "option, sampled per case (3, 2, 4.5)",
    ("mercurius", "recalculate_coordinates_this_timestep"): "op f; compared after every op",
    ("mercurius", "recalculate_r_crit_this_timestep"): "op g (setRcrit); compared after every op",
    ("mercurius", "safe_mode"): "factor mode + op ms", ("mercurius", "is_synchronized"): "state flag of the model, compared after every op",
    ("mercurius", "mode"): "internal (0 outside the encounter sub-integration); set by the model's mSetup primitive",
    ("eos", "n"): "factor n", ("eos", "phi0"): "factor phi0", ("eos", "phi1"): "factor phi1", ("eos", "safe_mode"): "factor mode + op ms",
    ("eos", "is_synchronized"): "state flag of the model, compared after every op",
}

# public C functions (DLLEXPORT in rebound.h) that reach the deferred-synchronisation mechanism -> how this run
# exercises them ("lib:<name>" = called through ctypes by the check, "py:<name>" = through the Python method)
ENTRY_MAP = {
    "reb_simulation_step": "lib:reb_simulation_step", "reb_simulation_steps": "lib:reb_simulation_steps",
    "reb_simulation_integrate": "lib:reb_simulation_integrate", "reb_simulation_synchronize": "lib:reb_simulation_synchronize",
    "reb_simulation_reset_integrator": "lib:reb_simulation_reset_integrator", "reb_simulation_energy": "lib:reb_simulation_energy",
    "reb_simulation_update_acceleration": "lib:reb_simulation_update_acceleration",
    "reb_simulation_angular_momentum": "py:Simulation.angular_momentum", "reb_simulation_com": "py:Simulation.com",
    "reb_simulation_copy": "py:Simulation.copy", "reb_simulation_copy_with_messages": "py:Simulation.copy",
    "reb_simulation_save_to_file": "py:Simulation.save_to_file", "reb_simulation_save_to_file_interval": "py:Simulation.save_to_file(interval)",
    "reb_simulation_save_to_file_walltime": "n/a: wall-clock triggered output, same write path as _interval",
    "reb_simulation_save_to_file_step": "py:Simulation.save_to_file(step)",
    "reb_simulation_create_from_file": "py:Simulation(file)", "reb_simulation_create_from_simulationarchive": "py:Simulationarchive[i]",
    "reb_simulation_create_from_simulationarchive_with_messages": "py:Simulationarchive.getSimulation",
    "reb_simulationarchive_create_from_file": "py:Simulationarchive(file)", "reb_simulationarchive_create_from_file_with_messages": "py:Simulationarchive(file)",
}
PY_ENTRIES = ["Simulation.step", "Simulation.steps", "Simulation.integrate", "Simulation.synchronize", "Simulation.copy", "Simulation.save_to_file",
              "Simulation.save_to_file(interval)", "Simulation.save_to_file(step)", "Simulation(file)", "Simulation.energy", "Simulation.angular_momentum",
              "Simulation.orbits", "Simulation.com", "pickle", "Simulationarchive(file)", "Simulationarchive[i]", "Simulationarchive.getSimulation",
              "Simulationarchive.getSimulations"]


def emit_flags_and_entries(c, W):
    # (a) struct attributes
    found = []
    for cls in ("whfast", "saba", "mercurius", "eos"):
        src = open(os.path.join(common.REPO, "rebound", "integrators", cls + ".py")).read()
        names = set(re.findall(r'\("([A-Za-z]\w*)",\s*ctypes', src))
        names |= set(re.findall(r"@property\s*\n\s*def (\w+)\(self\)", src))
        found += [(cls, n) for n in sorted(names) if not n.startswith("_")]
    c.cov["integrator_struct_attributes"] = {"extracted": len(found), "mapped": sum(1 for f in found if f in FLAG_MAP),
                                             "map": {"%s.%s" % f: FLAG_MAP.get(f, "NOT COVERED") for f in found}}
    if len(found) < 22:
        c.broken.append("proof obligation: only %d public attributes extracted from rebound/integrators/*.py (expected >= 22)" % len(found))
    for f in found:
        if f not in FLAG_MAP:
            c.broken.append("proof obligation: integrator attribute ri_%s.%s is neither a factor, nor an op of the alphabet, nor compared state" % f)
    # (b) entry points
    hdr = open(os.path.join(common.REPO, "src", "rebound.h")).read()
    pat = r"DLLEXPORT[^;(]*?\b(reb_simulation_(?:steps?|integrate|synchronize|reset_integrator|energy|angular_momentum|com|copy\w*|save_to_file\w*|update_acceleration|create_from_\w+)|reb_simulationarchive_create_from_file\w*)\s*\("
    entries = sorted(set(re.findall(pat, hdr)))
    status = {}
    for e_ in entries:
        how = ENTRY_MAP.get(e_)
        if how is None:
            c.broken.append("proof obligation: public function %s reaches synchronize / the step machine but is not classified in ENTRY_MAP" % e_)
            status[e_] = "UNCLASSIFIED"
        elif how.startswith("lib:"):
            n = W.lib.used.get(how[4:], 0)
            status[e_] = n
            if n == 0:
                c.broken.append("proof obligation: entry point %s not exercised in this run" % e_)
        elif how.startswith("py:"):
            n = PYUSED.get(how[3:], 0)
            status[e_] = n
            if n == 0:
                c.broken.append("proof obligation: entry point %s (via %s) not exercised in this run" % (e_, how[3:]))
        else:
            status[e_] = how
    if len(entries) < 18:
        c.broken.append("proof obligation: only %d entry points extracted from rebound.h (expected >= 18)" % len(entries))
    for n_ in PY_ENTRIES:
        if PYUSED.get(n_, 0) == 0:
            c.broken.append("proof obligation: Python entry point %s not exercised in this run" % n_)
    c.cov["entry_points"] = {"c_extracted": len(entries), "c_status": status, "python": {n_: PYUSED.get(n_, 0) for n_ in PY_ENTRIES}}


def entry_smoke(c, W):
    """the Python spellings of the entry points, each with the core oracle where it applies: the same calls made
    through the Python methods in unsafe mode equal the ctypes calls bit for bit / safe mode to rounding"""
    import pickle, warnings
    rng = c.rng.fork()
    tmpdir = tempfile.mkdtemp(prefix="c09e.", dir=os.environ.get("VERIF_TMP", "/tmp"))
    common._scratch.append(tmpdir)
    for integ, mkset in (("whfast", lambda m: whfast_setup(dict(coord=0, kernel=0, corrector=0, corrector2=0, safe=int(m == "safe"), keep=0))),
                         ("saba", lambda m: saba_setup(dict(type=6, safe=int(m == "safe"), keep=0))),
                         ("mercurius", lambda m: (lambda s_: setattr(s_.ri_mercurius, "safe_mode", int(m == "safe")))),
                         ("eos", lambda m: (lambda s_: setattr(s_.ri_eos, "safe_mode", int(m == "safe"))))):
        system = gen_system(rng, physics=True)
        system["dt"] = abs(system["dt"])
        if integ == "mercurius":
            system["particles"] = [p if i == 0 else (p[0] * 0.03,) + p[1:] for i, p in enumerate(system["particles"])]
        A = W.sim(system, integ, mkset("unsafe"))
        B = W.sim(system, integ, mkset("unsafe"))
        # Python methods on A, ctypes on B
        A.step(); pyused("Simulation.step")
        A.steps(4); pyused("Simulation.steps")
        for _ in range(5):
            W.lib.reb_simulation_step(ctypes.byref(B))
        A.energy(); pyused("Simulation.energy")
        A.angular_momentum(); pyused("Simulation.angular_momentum")
        try:
            A.orbits()
        except Exception:
            pass
        pyused("Simulation.orbits")
        A.com(); pyused("Simulation.com")
        W.lib.reb_simulation_steps(ctypes.byref(B), ctypes.c_uint(3))
        A.steps(3)
        tend = A.t + 2.6 * A.dt
        A.integrate(tend); pyused("Simulation.integrate")
        B.exact_finish_time = 1
        W.lib.reb_simulation_integrate(ctypes.byref(B), tend)
        A.steps(2)
        W.lib.reb_simulation_steps(ctypes.byref(B), ctypes.c_uint(2))
        A.synchronize(); pyused("Simulation.synchronize")
        W.lib.reb_simulation_synchronize(ctypes.byref(B))
        c.count(("entry-smoke", integ))
        if final_state(W, A, integ) != final_state(W, B, integ):
            c.violation("entry-point:%s" % integ, "%s: step/steps/integrate/synchronize through the Python methods differ from the same calls through ctypes (unsafe mode)" % integ,
                        {"integrator": integ, "system": system})
        # restore paths of an unsynchronised state: every public spelling, then synchronize == the original
        C0 = W.sim(system, integ, mkset("unsafe"))
        fn = os.path.join(tmpdir, "e_%s.bin" % integ)
        for f_ in (fn, fn + ".i", fn + ".s"):
            if os.path.exists(f_):
                os.remove(f_)
        C0.save_to_file(fn + ".i", interval=3.2 * C0.dt, delete_file=True); pyused("Simulation.save_to_file(interval)")
        C0.integrate(C0.t + 6.5 * C0.dt, exact_finish_time=0)
        C1 = W.sim(system, integ, mkset("unsafe"))
        C1.save_to_file(fn + ".s", step=2, delete_file=True); pyused("Simulation.save_to_file(step)")
        C1.integrate(C1.t + 6.5 * C1.dt, exact_finish_time=0)
        R0 = W.sim(system, integ, mkset("unsafe"))
        R0.steps(5)
        R0.save_to_file(fn); pyused("Simulation.save_to_file")
        clones = {"Simulation.copy": R0.copy(), "Simulation(file)": W.rb.Simulation(fn), "pickle": pickle.loads(pickle.dumps(R0))}
        with warnings.catch_warnings():
            warnings.simplefilter("ignore")
            sa = W.rb.Simulationarchive(fn); pyused("Simulationarchive(file)")
            clones["Simulationarchive[i]"] = sa[0]
            o_ = sa.getSimulation(sa.tmax, mode="snapshot", keep_unsynchronized=0)
            clones["Simulationarchive.getSimulation"] = sa.getSimulation(sa.tmax, mode="snapshot", keep_unsynchronized=(1 if integ in ("whfast", "saba") else 0))
            clones["Simulationarchive.getSimulations"] = list(sa.getSimulations([sa.tmax], mode="snapshot", keep_unsynchronized=(1 if integ in ("whfast", "saba") else 0)))[0]
            for fsa in (fn + ".i", fn + ".s"):
                sb = W.rb.Simulationarchive(fsa)
                if len(sb) < 2:
                    c.violation("entry-point:archive:%s" % integ, "%s: save_to_file(interval/step) produced %d snapshots" % (integ, len(sb)), {"integrator": integ, "system": system})
        R0.steps(3)
        R0.synchronize()
        want = final_state(W, R0, integ)
        want.pop("p_jh", None)
        cw = coords(W, R0)
        for name, cl in clones.items():
            pyused(name)
            cl.steps(3)
            cl.synchronize()
            got = final_state(W, cl, integ)
            got.pop("p_jh", None)
            c.count(("entry-restore", integ, name))
            if name.startswith("Simulationarchive.getSimulation") and integ in ("mercurius", "eos"):
                # getSimulation(mode='snapshot') synchronises what it returns; without a keep_unsynchronized option
                # (MERCURIUS, EOS) the continuation then agrees to rounding (EOS: truncation), not bit for bit
                cg = coords(W, cl)
                sc = max(abs(v) for q in cw for v in q)
                e_ = max(abs(a[k] - b[k]) for a, b in zip(cw, cg) for k in range(6)) / sc
                tol_ = 1e-10
                if integ == "eos":
                    # yardstick: the scheme's own truncation error over these 8 steps (safe mode at dt vs dt/2)
                    h_ = dict(system)
                    h_["dt"] = system["dt"] / 2
                    T1, T2 = W.sim(system, integ, mkset("safe")), W.sim(h_, integ, mkset("safe"))
                    T1.steps(8)
                    T2.steps(16)
                    tol_ = 10 * max(abs(a[k] - b[k]) for a, b in zip(coords(W, T1), coords(W, T2)) for k in range(6)) / sc + 1e-10
                if not e_ <= tol_:
                    c.violation("entry-point:restore:%s:%s" % (integ, name), "%s: a simulation restored through %s (synchronised by it) and continued differs from the original by %.3g" % (integ, name, e_),
                                {"integrator": integ, "system": system, "path": name})
                continue
            if got != want:
                c.violation("entry-point:restore:%s:%s" % (integ, name), "%s: an unsynchronised simulation restored through %s and continued differs from the original (bitwise)" % (integ, name),
                            {"integrator": integ, "system": system, "path": name})


def emit_pairs(c):
    """coverage.pairs: factor-value pairs, event adjacencies and (thorough) mode x event x dt-sign triples generated
    by the replay families of this run; uncovered applicable ones in the thorough tier are a broken obligation"""
    total = excluded = 0
    missing = []
    per = {}
    for fam in ("whfast", "saba", "var", "mercurius", "mercuriusEnc", "eos"):
        ok, ex = all_pairs(fam)
        alpha = family_factors(fam)["event"]
        infeas = set(PAIRS.get("adj_infeasible", {}).get(fam, []))
        adj_all = [(fam, a, b) for a in alpha for b in alpha if (a, b) not in infeas]
        F = family_factors(fam)
        tri_all = [(fam, m, e, ng) for m in F["mode"] for e in F["event"] for ng in F.get("neg", [0])
                   if case_ok(fam, dict(mode=m, event=e))] if c.thorough else []
        cov = sum(1 for q in ok if q in PAIRS["seen"]) + sum(1 for q in adj_all if q in PAIRS["adj"]) + sum(1 for q in tri_all if q in PAIRS["tri"])
        tot = len(ok) + len(adj_all) + len(tri_all)
        per[fam] = {"covered": cov, "total": tot, "factor_pairs": len(ok), "adjacency_pairs": len(adj_all), "triples": len(tri_all),
                    "excluded_by_constraints": ex, "adjacency_infeasible": sorted(infeas)}
        total += tot
        excluded += ex + len(infeas)
        missing += [q for q in ok if q not in PAIRS["seen"]][:5] + [("adjacency",) + q for q in adj_all if q not in PAIRS["adj"]][:5] + \
            [("triple",) + q for q in tri_all if q not in PAIRS["tri"]][:5]
    covered = sum(v["covered"] for v in per.values())
    c.cov["pairs"] = {"covered": covered, "total": total, "excluded": excluded, "per_family": per, "missing": [list(map(str, q)) for q in missing[:30]],
                      "factors": {fam: {k: len(v) for k, v in family_factors(fam).items()} for fam in per}}
    if c.thorough and covered < total:
        c.broken.append("proof obligation: pairwise coverage incomplete in the thorough tier: %d of %d (first missing: %s)" % (covered, total, missing[:3]))


def emit_dimensions(c):
    c.cov["dimensions"] = {k: v for k, v in sorted(DIMS.items())}
    for name in REQUIRED_DIMS:
        if DIMS.get(name, 0) == 0:
            c.broken.append("proof obligation: dimension '%s' not covered by this run" % name)


def run(c):
    d = build()
    rebound = use_scratch_rebound(d)
    K = extract_constants(c)
    extract_eos(c)
    W = World(rebound, K)
    c.prove(["RV.Props.C09"])
    exe = lean_exe("drv_c09")
    c.cov["rule"] = ("replay: random points of the WHFast option lattice (4 coordinate systems x 4 kernels x 6 corrector orders x corrector2 x "
                     "safe/unsafe/keep_unsynchronized, star + 1-4 planets + 0-2 test particles, N_active / testparticle_type varied) x random "
                     "sequences of step / synchronize / read / set-recalculate-flag / modify-particle; after every op particles, p_jh, t and flags "
                     "of the primitive-by-primitive execution of the model's list are compared bitwise with reb_simulation_step/synchronize. "
                     "search: per integrator configuration (i) random read-only / synchronize calls between steps vs uninterrupted run, bitwise; "
                     "(ii) safe vs unsafe + random synchronisations, relative difference; (iii) synchronize twice vs once, bitwise. "
                     "distinct_nontrivial = distinct (kind, configuration, op/system) with at least one step or interruption")
    c.cov["trusted_base"] = ["Lean 4.33 kernel", "footprint table of the primitives (types of RV.Sync.Sem), tested by perturbation",
                             "schedule replay drv_c09 vs compiled integrator (differential test on generated inputs)",
                             "ctypes layout of reb_simulation / reb_particle (checked by C18)"]
    c.assumptions += ["the floating-point primitives (Kepler solver, transformations, gravity) are uninterpreted in the theorems",
                      "physics theorems assume exact group laws of the primitives (true in exact arithmetic, to rounding in IEEE)",
                      "WHFast512 is not compiled on this host (no AVX512): not covered",
                      "variational particles / MEGNO, additional forces, collisions are outside the model"]
    _HEART["limit"] = float(os.environ.get("C09_HANG_LIMIT", "240"))
    beat("footprints")
    footprints(c, W, exe)
    replay(c, W, exe, 8000 if c.thorough else 60, "whfast")
    replay(c, W, exe, 5000 if c.thorough else 40, "saba")
    replay(c, W, exe, 2000 if c.thorough else 30, "var")
    replay_mercurius(c, W, exe, 3000 if c.thorough else 30)
    replay_mercurius(c, W, exe, 400 if c.thorough else 12, coarse=True)
    replay_eos(c, W, exe)
    probe_first_call(c, d)
    search(c, W)
    entry_smoke(c, W)
    emit_dimensions(c)
    emit_pairs(c)
    emit_flags_and_entries(c, W)


if __name__ == "__main__":
    main("C09", run)
