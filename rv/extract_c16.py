"""C16 translator: src/derivatives.c -> lean/RV/Gen/C16Deriv.lean

Every `reb_particle_derivative_*` function is straight-line numeric C: declarations /
assignments of arithmetic expressions over locals, `po.m`, `primary.m`, the Pal elements
(a, lambda, k, h, ix, iy) returned by reb_tools_particle_to_pal, (p, q) returned by
reb_tools_solve_kepler_pal, or the fields of `reb_orbit_from_particle`, with calls of
sin/cos/sqrt/fabs only.  The translator is deliberately dumb: a tokenizer, a 4-level
recursive-descent expression parser that keeps the C evaluation order (left-assoc, unary
minus binds tighter than * /), and a statement loop.  Anything it does not understand is an
error (never skipped).  The output carries the number of functions and statements found so
that an extraction that silently finds less fails an obligation of the check.
"""
import os, re, sys
from fractions import Fraction

PAL_INPUTS = ["G", "m", "M", "a", "lambda", "k", "h", "ix", "iy", "p", "q"]
ORB_INPUTS = ["G", "m", "M", "a", "e", "inc", "Omega", "omega", "f"]
FUNCS = {"sin": "sin", "cos": "cos", "sqrt": "sqrt", "fabs": "fabs"}
OUT = ["m", "x", "y", "z", "vx", "vy", "vz"]

TOK = re.compile(r"\s*(?:(\d+\.\d*(?:[eE][-+]?\d+)?|\.\d+(?:[eE][-+]?\d+)?|\d+(?:[eE][-+]?\d+)?)|([A-Za-z_][\w.]*)|(.))")


class ParseError(Exception):
    pass


def tokenize(s):
    out, pos = [], 0
    s = s.strip()
    while pos < len(s):
        m = TOK.match(s, pos)
        if not m:
            raise ParseError("cannot tokenize: " + s[pos:pos + 20])
        pos = m.end()
        if m.group(1):
            out.append(("num", m.group(1)))
        elif m.group(2):
            out.append(("id", m.group(2)))
        elif m.group(3).strip():
            out.append(("op", m.group(3)))
    return out


class Parser:
    """expr := term (('+'|'-') term)* ; term := unary (('*'|'/') unary)* ;
    unary := ('-'|'+') unary | primary ; primary := num | id | id '(' expr ')' | '(' expr ')'"""

    def __init__(self, toks, resolve):
        self.t, self.i, self.resolve = toks, 0, resolve

    def peek(self):
        return self.t[self.i] if self.i < len(self.t) else (None, None)

    def eat(self, kind=None, val=None):
        k, v = self.peek()
        if k is None or (kind and k != kind) or (val and v != val):
            raise ParseError("expected %s %s, got %s %s" % (kind, val, k, v))
        self.i += 1
        return v

    def expr(self):
        e = self.term()
        while self.peek() in (("op", "+"), ("op", "-")):
            op = self.eat()
            e = ("bin", op, e, self.term())
        return e

    def term(self):
        e = self.unary()
        while self.peek() in (("op", "*"), ("op", "/")):
            op = self.eat()
            e = ("bin", op, e, self.unary())
        return e

    def unary(self):
        if self.peek() == ("op", "-"):
            self.eat()
            return ("neg", self.unary())
        if self.peek() == ("op", "+"):
            self.eat()
            return self.unary()
        return self.primary()

    def primary(self):
        k, v = self.peek()
        if k == "num":
            self.eat()
            return ("num", v)
        if k == "id":
            self.eat()
            if self.peek() == ("op", "("):
                if v not in FUNCS:
                    raise ParseError("unknown function " + v)
                self.eat()
                a = self.expr()
                self.eat("op", ")")
                return ("call", FUNCS[v], a)
            return ("var", self.resolve(v))
        if (k, v) == ("op", "("):
            self.eat()
            e = self.expr()
            self.eat("op", ")")
            return e
        raise ParseError("unexpected token %s %s" % (k, v))


def parse_expr(text, resolve):
    p = Parser(tokenize(text), resolve)
    e = p.expr()
    if p.i != len(p.t):
        raise ParseError("trailing tokens in: " + text)
    return e


def lit(txt):
    fr = Fraction(txt)          # exact value of the decimal text
    if fr.denominator == 1:
        return "(Scalar.ofNat %d : K)" % fr.numerator
    # keep the decimal form p/10^k: both parts are exact doubles, the quotient is correctly rounded
    m = re.match(r"(\d*)\.?(\d*)(?:[eE]([-+]?\d+))?$", txt)
    digits = (m.group(1) or "") + (m.group(2) or "")
    k = len(m.group(2) or "") - int(m.group(3) or 0)
    p = int(digits or "0")
    if k < 0:
        return "(Scalar.ofNat %d : K)" % (p * 10 ** (-k))
    assert Fraction(p, 10 ** k) == fr and p < 2 ** 53 and k <= 22, txt
    return "(dlit %d %d : K)" % (p, 10 ** k)


def emit(e):
    k = e[0]
    if k == "num":
        return lit(e[1])
    if k == "var":
        return e[1]
    if k == "neg":
        return "(-%s)" % emit(e[1])
    if k == "call":
        return "(o.%s %s)" % (e[1], emit(e[2]))
    if k == "bin":
        return "(%s %s %s)" % (emit(e[2]), e[1], emit(e[3]))
    raise ParseError(str(e))


def strip_comments(s):
    s = re.sub(r"/\*.*?\*/", "", s, flags=re.S)
    return re.sub(r"//.*", "", s)


def translate_function(name, body):
    """returns (family, lean_text, n_statements)"""
    stmts = [" ".join(st.split()) for st in body.split(";")]
    stmts = [st for st in stmts if st]
    fam = None
    res = None          # name of the result struct
    defined = set()
    lines = []
    nst = 0

    def resolve(v):
        if fam == "pal":
            if v == "po.m":
                return "v_m"
            if v == "primary.m":
                return "v_M"
            if v == "G":
                return "v_G"
            if v in ("a", "lambda", "k", "h", "ix", "iy", "p", "q"):
                return "v_" + v
        else:
            if v == "po.m":
                return "v_m"
            if v == "primary.m":
                return "v_M"
            if v == "G":
                return "v_G"
            if v.startswith("o."):
                f = v[2:]
                if f not in ORB_INPUTS:
                    raise ParseError("orbit field not supported: " + v)
                return "v_" + f
        if res and v.startswith(res + "."):
            return "r_" + v[len(res) + 1:]
        if v in defined:
            return "l_" + v
        raise ParseError("%s: unknown identifier %s" % (name, v))

    for st in stmts:
        if st == "double a, lambda, k, h, ix, iy":
            fam = "pal"
            continue
        if st == "reb_tools_particle_to_pal(G, po, primary, &a, &lambda, &k, &h, &ix, &iy)":
            continue
        if st == "reb_tools_solve_kepler_pal(h, k, lambda, &p, &q)":
            continue
        if st in ("double p=0.,q=0.", "double p=0., q=0."):
            continue
        if st == "struct reb_orbit o = reb_orbit_from_particle(G, po, primary)":
            fam = "orb"
            continue
        m = re.match(r"struct reb_particle (\w+) = \{0\}$", st)
        if m:
            res = m.group(1)
            for f in OUT:
                lines.append("  let r_%s : K := Scalar.zero" % f)
            continue
        if st in ("return np", "return p"):
            continue
        m = re.match(r"(?:const )?double (\w+)\s*=\s*(.+)$", st)
        if m:
            e = parse_expr(m.group(2), resolve)
            defined.add(m.group(1))
            lines.append("  let l_%s : K := %s" % (m.group(1), emit(e)))
            nst += 1
            continue
        m = re.match(r"(\w+)\.(\w+)\s*(\+?=)\s*(.+)$", st)
        if m and m.group(1) == res and m.group(2) in OUT:
            e = parse_expr(m.group(4), resolve)
            f = m.group(2)
            rhs = emit(e) if m.group(3) == "=" else "(r_%s + %s)" % (f, emit(e))
            lines.append("  let r_%s : K := %s" % (f, rhs))
            nst += 1
            continue
        raise ParseError("%s: statement not understood: %s" % (name, st))
    if fam is None or res is None:
        raise ParseError(name + ": no element conversion / result struct found")
    ins = PAL_INPUTS if fam == "pal" else ORB_INPUTS
    head = "def d_%s (o : DOps K) (%s : K) : P7 K :=" % (name, " ".join("v_" + i for i in ins))
    tail = "  ⟨%s⟩" % ", ".join("r_" + f for f in OUT)
    text = "\n".join([head] + lines + [tail])
    # companion: the second derivatives of the implicit (p,q) that the function itself computes (Pal family, pairs through p,q)
    parts = name.split("_")
    if fam == "pal" and len(parts) == 2:
        cands = [parts[0] + parts[1], parts[1] + parts[0]]
        dp = [c_ for c_ in cands if ("dp_d" + c_) in defined]
        dq = [c_ for c_ in cands if ("dq_d" + c_) in defined]
        if dp and dq:
            keep = []
            for ln in lines:
                keep.append(ln)
            text += "\n\n/-- the second derivatives of (p,q) computed inside `d_%s` -/\n" % name
            text += "def pq2_%s (o : DOps K) (%s : K) : K × K :=\n" % (name, " ".join("v_" + i for i in ins))
            text += "\n".join(keep) + "\n  (l_dp_d%s, l_dq_d%s)" % (dp[0], dq[0])
    return fam, text, nst


def generate(repo):
    src = strip_comments(open(os.path.join(repo, "src", "derivatives.c")).read())
    funcs = re.findall(r"struct reb_particle reb_particle_derivative_(\w+)\s*\(\s*double G\s*,\s*struct reb_particle primary\s*,"
                       r"\s*struct reb_particle po\s*\)\s*\{(.*?)\n\}", src, flags=re.S)
    out = ["import RV.Model.Var",
           "/- GENERATED by rv/extract_c16.py from src/derivatives.c — do not edit.",
           "   One Lean function per reb_particle_derivative_* function, same operation order. -/",
           "set_option linter.unusedVariables false",
           "set_option maxRecDepth 4000",
           "namespace RV.Gen.C16Deriv", "open RV RV.Var", "variable {K : Type} [Scalar K]", ""]
    fams, total = {}, 0
    for name, body in funcs:
        fam, text, nst = translate_function(name, body)
        fams[name] = fam
        total += nst
        out += [text, ""]
    out.append("/-- dispatch by C function name; `none` for an unknown name or a wrong number of arguments -/")
    out.append("def byName (o : DOps K) (name : String) (args : List K) : Option (P7 K) :=")
    out.append("  match name, args with")
    for name, _ in funcs:
        ins = PAL_INPUTS if fams[name] == "pal" else ORB_INPUTS
        vs = ", ".join("x%d" % i for i in range(len(ins)))
        out.append('  | "%s", [%s] => some (d_%s o %s)' % (name, vs, name, " ".join("x%d" % i for i in range(len(ins)))))
    out.append("  | _, _ => none")
    out.append("")
    out.append("def functionCount : Nat := %d" % len(funcs))
    out.append("def statementCount : Nat := %d" % total)
    out.append("def palNames : List String := [%s]" % ", ".join('"%s"' % n for n, _ in funcs if fams[n] == "pal"))
    out.append("def orbNames : List String := [%s]" % ", ".join('"%s"' % n for n, _ in funcs if fams[n] == "orb"))
    out.append("end RV.Gen.C16Deriv")
    return "\n".join(out) + "\n", fams, total


def generate_dispatch(repo):
    """rebound/particle.py + src/derivatives.c -> lean/RV/Gen/C16Dispatch.lean: the variation-name table of the
    Python layer, the documented names, the shortcuts, and the names of the C functions that exist"""
    py = open(os.path.join(repo, "rebound", "particle.py")).read()
    m = re.search(r"variationtypes\s*=\s*\[([^\]]*)\]", py)
    if not m:
        raise ParseError("particle.py: variationtypes list not found")
    types = re.findall(r'"([^"]+)"', m.group(1))
    docs = re.findall(r"Can be one of the following:\s*([^\n]*?)\.\s*\n", py)
    documented = [[w.strip() for w in d.split(",")] for d in docs]
    shortcuts = re.findall(r'if variation == "(\w+)":\s*\n\s*variation = "(\w+)"', py)
    shortcuts2 = re.findall(r'if variation2 == "(\w+)":\s*\n\s*variation2 = "(\w+)"', py)
    swap = re.search(r"if vi2 < vi1:\s*\n\s*variation, variation2 = variation2, variation", py) is not None
    pat1 = re.search(r"'reb_particle_derivative_'\+variation\)", py) is not None
    pat2 = re.search(r"'reb_particle_derivative_'\+variation\+'_'\+variation2\)", py) is not None
    src = strip_comments(open(os.path.join(repo, "src", "derivatives.c")).read())
    cfun = re.findall(r"struct reb_particle reb_particle_derivative_(\w+)\s*\(", src)
    q = lambda xs: "[" + ", ".join('"%s"' % x for x in xs) + "]"
    out = ["/- GENERATED by rv/extract_c16.py from rebound/particle.py and src/derivatives.c — do not edit. -/",
           "namespace RV.Gen.C16Dispatch",
           "/-- `variationtypes` of Particle.__init__ (the order decides how a pair is named) -/",
           "def variationTypes : List String := " + q(types),
           "/-- the parameter names the docstrings promise (variation, variation2) -/",
           "def documented : List (List String) := [" + ", ".join(q(d) for d in documented) + "]",
           "def shortcuts : List (String × String) := [" + ", ".join('("%s", "%s")' % s_ for s_ in shortcuts) + "]",
           "def shortcuts2 : List (String × String) := [" + ", ".join('("%s", "%s")' % s_ for s_ in shortcuts2) + "]",
           "/-- the source swaps a pair when the second name comes earlier in `variationTypes` -/",
           "def swapsPairs : Bool := %s" % ("true" if swap else "false"),
           "/-- the source builds the C symbol as 'reb_particle_derivative_'+v (+'_'+v2) -/",
           "def namePatternOk : Bool := %s" % ("true" if (pat1 and pat2) else "false"),
           "/-- suffixes of the `reb_particle_derivative_*` functions defined in derivatives.c -/",
           "def cFunctions : List String := " + q(cfun),
           "end RV.Gen.C16Dispatch", ""]
    return "\n".join(out), dict(types=len(types), documented=[len(d) for d in documented], c_functions=len(cfun),
                                 shortcuts=len(shortcuts), swap=swap, pattern=pat1 and pat2)


def _match_brace(text, i):
    """index of the brace matching text[i] == '{'"""
    depth = 0
    for k in range(i, len(text)):
        if text[k] == "{":
            depth += 1
        elif text[k] == "}":
            depth -= 1
            if depth == 0:
                return k
    raise ParseError("unbalanced braces")


def _translate_body(name, body, arrays, sig, outspec):
    """straight-line loop body of reb_calculate_acceleration_var -> Lean kernel.
    arrays: {c array name: {index: lean prefix}}; outspec: list of (lean field name, c target prefix, index)"""
    body = re.sub(r"if\s*\([^;{}]*\)\s*continue\s*;", "", body)
    body = re.sub(r"if\s*\([^{};]*\)\s*\{", "", body)          # guards (testparticle_type / N_active): the loop structure is modelled by hand
    body = body.replace("}", "")
    body = re.sub(r"(\w+)\[(\w+)\]\.(\w+)", r"\1__\2__\3", body)
    stmts = [" ".join(st.split()) for st in body.split(";")]
    stmts = [st for st in stmts if st]
    defined = set()
    acc = {}
    lines = []

    def resolve(v):
        if v == "G":
            return "v_G"
        if v == "softening2":
            return "v_soft2"
        m = re.match(r"(\w+?)__(\w+)__(\w+)$", v)
        if m:
            arr, idx, fld = m.groups()
            if arr in arrays and idx in arrays[arr] and fld in ("x", "y", "z", "m"):
                return "%s.%s" % (arrays[arr][idx], fld)
            raise ParseError("%s: unknown array access %s" % (name, v))
        if v in defined:
            return "l_" + v
        raise ParseError("%s: unknown identifier %s" % (name, v))
    nst = 0
    for st in stmts:
        m = re.match(r"(?:const )?double (\w+)\s*=\s*(.+)$", st)
        if m:
            e = parse_expr(m.group(2), resolve)
            defined.add(m.group(1))
            lines.append("  let l_%s : K := %s" % (m.group(1), emit_sq(e)))
            nst += 1
            continue
        m = re.match(r"(\w+)\s*\+=\s*(.+)$", st)
        if m and m.group(1) in defined:
            e = parse_expr(m.group(2), resolve)
            lines.append("  let l_%s : K := (l_%s + %s)" % (m.group(1), m.group(1), emit_sq(e)))
            nst += 1
            continue
        m = re.match(r"(\w+)__(\w+)__(a[xyz])\s*([-+])=\s*(.+)$", st)
        if m:
            arr, idx, fld, sign, rhs = m.groups()
            e = parse_expr(rhs, resolve)
            key = (arr, idx, fld)
            if key in acc:
                raise ParseError("%s: accumulator %s updated twice" % (name, key))
            acc[key] = emit_sq(e) if sign == "+" else "(-%s)" % emit_sq(e)
            nst += 1
            continue
        raise ParseError("%s: statement not understood: %s" % (name, st))
    outs = []
    for (arr, idx) in outspec:
        comps = []
        for fld in ("ax", "ay", "az"):
            if (arr, idx, fld) not in acc:
                raise ParseError("%s: accumulator %s[%s].%s missing" % (name, arr, idx, fld))
            comps.append(acc[(arr, idx, fld)])
        outs.append("(⟨%s,\n    %s,\n    %s⟩ : V3 K)" % tuple(comps))
    extra = set(acc) - {(a, i, f) for (a, i) in outspec for f in ("ax", "ay", "az")}
    if extra:
        raise ParseError("%s: unexpected accumulators %s" % (name, sorted(extra)))
    ret = outs[0] if len(outs) == 1 else "(%s,\n   %s)" % (outs[0], outs[1])
    rtype = "V3 K" if len(outs) == 1 else "V3 K × V3 K"
    text = "def %s (sq : K → K) (v_G v_soft2 : K) %s : %s :=\n%s\n  %s" % (name, sig, rtype, "\n".join(lines), ret)
    return text, nst


def emit_sq(e):
    """like emit, but sqrt is the explicit parameter `sq` and there are no other libm calls"""
    k = e[0]
    if k == "num":
        return lit(e[1])
    if k == "var":
        return e[1]
    if k == "neg":
        return "(-%s)" % emit_sq(e[1])
    if k == "call":
        if e[1] != "sqrt":
            raise ParseError("unexpected function in gravity kernel: " + e[1])
        return "(sq %s)" % emit_sq(e[2])
    if k == "bin":
        return "(%s %s %s)" % (emit_sq(e[2]), e[1], emit_sq(e[3]))
    raise ParseError(str(e))


def generate_varloops(repo):
    """src/gravity.c reb_calculate_acceleration_var -> lean/RV/Gen/C16VarLoops.lean: the five loop bodies as Lean kernels"""
    src = strip_comments(open(os.path.join(repo, "src", "gravity.c")).read())
    i0 = src.index("void reb_calculate_acceleration_var(")
    fn = src[i0:_match_brace(src, src.index("{", i0)) + 1]
    heads = [m for m in re.finditer(r"for\s*\(\s*int\s+j\s*=\s*([^;]+);\s*j\s*<\s*([^;]+);\s*j\+\+\s*\)\s*\{", fn)]
    bodies = []
    for m in heads:
        o = m.end() - 1
        bodies.append((m.group(1).strip(), m.group(2).strip(), fn[o + 1:_match_brace(fn, o)]))
    if len(bodies) != 5:
        raise ParseError("gravity.c: expected 5 inner j-loops in reb_calculate_acceleration_var, found %d" % len(bodies))
    heads_txt = ["j=%s; j<%s" % (b[0], b[1]) for b in bodies]
    expect = ["j=startj; j<i", "j=startj; j<_N_active", "j=0; j<_N_real", "j=i+1; j<_N_real", "j=0; j<_N_real"]
    A1 = {"particles": {"i": "pi", "j": "pj"}, "particles_var1": {"i": "di", "j": "dj"}}
    A1t = {"particles": {"i": "pi", "j": "pj"}, "particles_var1": {"0": "d0"}}
    A2 = {"particles": {"i": "pi.p", "j": "pj.p"}, "particles_var2": {"i": "pi.dd", "j": "pj.dd"},
          "particles_var1a": {"i": "pi.da", "j": "pj.da"}, "particles_var1b": {"i": "pi.db", "j": "pj.db"}}
    A2t = {"particles": {"i": "pi", "j": "pj"}, "particles_var2": {"0": "dd0"}, "particles_var1a": {"0": "da0"}, "particles_var1b": {"0": "db0"}}
    out = ["import RV.Model.Var",
           "/- GENERATED by rv/extract_c16.py from src/gravity.c (reb_calculate_acceleration_var) — do not edit.",
           "   The bodies of the five inner loops as Lean kernels, same operation order; `-=` is `+= -(…)`. -/",
           "set_option linter.unusedVariables false", "set_option maxRecDepth 4000",
           "namespace RV.Gen.C16VarLoops", "open RV RV.Var", "variable {K : Type} [Scalar K]", ""]
    total = 0
    specs = [("var1Body", bodies[0][2], A1, "(pi pj di dj : GP K)", [("particles_var1", "i"), ("particles_var1", "j")]),
             ("var1TestBody", bodies[1][2], A1, "(pi pj di dj : GP K)", [("particles_var1", "i"), ("particles_var1", "j")]),
             ("tpVar1Body", bodies[2][2], A1t, "(pi pj d0 : GP K)", [("particles_var1", "0")]),
             ("var2Body", bodies[3][2], A2, "(pi pj : RV2 K)", [("particles_var2", "i"), ("particles_var2", "j")]),
             ("tpVar2Body", bodies[4][2], A2t, "(pi pj dd0 da0 db0 : GP K)", [("particles_var2", "0")])]
    for name, body, arrs, sig, outspec in specs:
        text, nst = _translate_body(name, body, arrs, sig, outspec)
        out += [text, ""]
        total += nst
    q = lambda xs: "[" + ", ".join('"%s"' % x for x in xs) + "]"
    out.append("/-- the five `for (int j=…; j<…; j++)` headers in source order -/")
    out.append("def loopHeads : List String := " + q(heads_txt))
    out.append("def expectedHeads : List String := " + q(expect))
    out.append("def statementCount : Nat := %d" % total)
    out.append("end RV.Gen.C16VarLoops")
    return "\n".join(out) + "\n", dict(loops=len(bodies), statements=total, heads=heads_txt)


def generate_rescale(repo):
    """src/rebound.h (struct reb_integrator_ias15) + src/tools.c (reb_simulation_rescale_var, IAS15 branch) +
    src/integrator_ias15.c -> lean/RV/Gen/C16Rescale.lean: the per-particle arrays IAS15 owns, the arrays rescale_var divides
    together with the variational particles, and for every array whether its first use in a step attempt is a plain write"""
    h = strip_comments(open(os.path.join(repo, "src", "rebound.h")).read())
    m = re.search(r"struct reb_integrator_ias15\s*\{(.*?)\n\};", h, flags=re.S)
    if not m:
        raise ParseError("rebound.h: struct reb_integrator_ias15 not found")
    members = []
    for kind, name in re.findall(r"(double\s*\*\s*(?:REB_RESTRICT)?|struct\s+reb_dp7)\s+(\w+)\s*;", m.group(1)):
        members.append((name, "dp7" if "dp7" in kind else "ptr"))
    t = strip_comments(open(os.path.join(repo, "src", "tools.c")).read())
    f = re.search(r"void reb_simulation_rescale_var\s*\(.*?\)\s*\{(.*?)\n\}\n", t, flags=re.S)
    if not f:
        raise ParseError("tools.c: reb_simulation_rescale_var not found")
    body = f.group(1)
    a = re.search(r"double\s*\*\s*const\s+arrays\s*\[(\d+)\]\s*=\s*\{(.*?)\};", body, flags=re.S)
    if not a:
        raise ParseError("tools.c: IAS15 array list of rescale_var not found")
    declared = int(a.group(1))
    entries = [e_.strip() for e_ in a.group(2).split(",") if e_.strip()]
    names = []
    for e_ in entries:
        mm = re.match(r"ri->(\w+(?:\.p[0-6])?)$", e_)
        if not mm:
            raise ParseError("tools.c: array list entry not understood: " + e_)
        names.append(mm.group(1))
    lb = re.search(r"for\s*\(\s*int\s+a\s*=\s*0\s*;\s*a\s*<\s*(\d+)\s*;", body)
    loop = int(lb.group(1)) if lb else -1
    divides = re.search(r"arrays\[a\]\[k\]\s*/=\s*scale", body) is not None
    krange = re.search(r"for\s*\(\s*int\s+k\s*=\s*3\*vc->index\s*;\s*k\s*<\s*3\*\(vc->index\+N\)\s*;", body) is not None
    st = strip_comments(open(os.path.join(repo, "src", "integrator_ias15.c")).read())
    sf = re.search(r"static int reb_integrator_ias15_step\s*\(.*?\)\s*\{(.*?)\n\}\n", st, flags=re.S)
    if not sf:
        raise ParseError("integrator_ias15.c: reb_integrator_ias15_step not found")
    sb = sf.group(1)
    # skip the local alias declarations ("double* restrict const x0 = r->ri_ias15.x0;", "dpcast(...)")
    sb2 = "\n".join(l for l in sb.split("\n") if "r->ri_ias15." not in l)
    wf = []
    for name, kind in members:
        pats = [name + r"\["] if kind == "ptr" else [name + r"\.p%d\[" % i for i in range(7)]
        ok = True
        for pt in pats:
            mm = re.search(r"(?<![\w.>])" + pt + r"[^\]]*\]\s*([-+*/]?=)(?!=)|(?<![\w.>])" + pt, sb2)
            if not mm or mm.group(1) != "=":
                ok = False
        wf.append((name, ok))
    q = lambda xs: "[" + ", ".join('"%s"' % x for x in xs) + "]"
    out = ["/- GENERATED by rv/extract_c16.py from src/rebound.h, src/tools.c, src/integrator_ias15.c — do not edit. -/",
           "namespace RV.Gen.C16Rescale",
           "/-- per-particle arrays of `struct reb_integrator_ias15`: (member, \"ptr\" = double*, \"dp7\" = seven arrays p0..p6) -/",
           "def ias15Members : List (String × String) := [" + ", ".join('("%s", "%s")' % mk for mk in members) + "]",
           "/-- the arrays `reb_simulation_rescale_var` divides by `scale` together with the variational particles (IAS15 branch) -/",
           "def rescaled : List String := " + q(names),
           "def declaredArraySize : Nat := %d" % declared,
           "def loopBound : Nat := %d" % loop,
           "/-- the loop body is `arrays[a][k] /= scale` for `k` in `3*index .. 3*(index+N)` -/",
           "def loopShapeOk : Bool := %s" % ("true" if (divides and krange) else "false"),
           "/-- for every member: is its first use inside `reb_integrator_ias15_step` a plain assignment (scratch array)? -/",
           "def writtenFirst : List (String × Bool) := [" + ", ".join('("%s", %s)' % (n, "true" if b else "false") for n, b in wf) + "]",
           "end RV.Gen.C16Rescale", ""]
    return "\n".join(out), dict(members=len(members), rescaled=len(names), declared=declared, loop=loop)


def whfast_rescale_branch(repo):
    """src/tools.c, reb_simulation_rescale_var: the WHFast branch.  Two shapes of the source are understood:
       "safe-mode-0-only":  if (r->integrator == REB_INTEGRATOR_WHFAST && r->ri_whfast.safe_mode == 0){ flag = 1; }   (pinned tree)
       "any-mode":          if (r->integrator == REB_INTEGRATOR_WHFAST){ flag = 1; }                                   (repaired, a9d135c)
    anything else (another condition, another body) is a ParseError: the tie has no rule for it."""
    t = strip_comments(open(os.path.join(repo, "src", "tools.c")).read())
    f = re.search(r"void reb_simulation_rescale_var\s*\(.*?\)\s*\{(.*?)\n\}\n", t, flags=re.S)
    if not f:
        raise ParseError("tools.c: reb_simulation_rescale_var not found")
    body = f.group(1)
    # (the other WHFast test of the routine, "... && r->ri_whfast.is_synchronized == 0", is the unsynchronized-warning guard: model op `rescale`)
    heads = [h_ for h_ in re.finditer(r"if\s*\(([^{};]*REB_INTEGRATOR_WHFAST[^{};]*)\)\s*\{", body) if "is_synchronized" not in h_.group(1)]
    if len(heads) != 1:
        raise ParseError("tools.c: rescale_var has %d WHFast branches (1 expected)" % len(heads))
    cond = re.sub(r"\s+", " ", heads[0].group(1)).strip()
    i = heads[0].end()
    depth, j = 1, i
    while depth and j < len(body):
        depth += {"{": 1, "}": -1}.get(body[j], 0)
        j += 1
    block = re.sub(r"\s+", " ", body[i:j - 1]).strip()
    if block != "r->ri_whfast.recalculate_coordinates_this_timestep = 1;":
        raise ParseError("tools.c: rescale_var WHFast branch body not understood: " + block[:160])
    if cond == "r->integrator == REB_INTEGRATOR_WHFAST && r->ri_whfast.safe_mode == 0":
        return "safe-mode-0-only"
    if cond == "r->integrator == REB_INTEGRATOR_WHFAST":
        return "any-mode"
    raise ParseError("tools.c: rescale_var WHFast branch condition not understood: " + cond[:160])


if __name__ == "__main__":
    text, fams, total = generate(sys.argv[1] if len(sys.argv) > 1 else "/repo")
    sys.stdout.write(text)
