"""rv/mkmutbatch.py <batchno> <letterA> <letterB>: create scratch worktrees /tmp/mut<batchno>-CXX of /repo's HEAD with a
TASK.md for an independent sub-agent (property text only + one-line summaries of the changes already taken)."""
import glob, json, os, re, subprocess, sys
ROOT = os.path.dirname(os.path.dirname(os.path.abspath(__file__)))
b, A, B = sys.argv[1], sys.argv[2], sys.argv[3]
for i in range(1, 21):
    pid = "C%02d" % i
    wt = "/tmp/mut%s-%s" % (b, pid)
    if not os.path.isdir(wt):
        subprocess.run(["git", "-C", "/repo", "worktree", "add", "-q", "--detach", wt, "HEAD"], check=True)
    t = open(os.path.join(ROOT, "seeded", "prompts", pid + ".txt")).read()
    t = t.replace("/tmp/mut-" + pid, wt).replace("/tmp/build-" + pid, "/tmp/build%s-%s" % (b, pid))
    t = re.sub(r"\(call them A and B\)", "(call them %s and %s)" % (A, B), t)
    t = t.replace("out/A/", "out/%s/" % A).replace("out/B/", "out/%s/" % B)
    t = re.sub(r"\bA and B\b", "%s and %s" % (A, B), t)
    t = t.replace("(a checkout of the pinned commit)", "(a checkout of the current development head)")
    taken = []
    for d in sorted(glob.glob(os.path.join(ROOT, "seeded", pid + "-*"))):
        try:
            m = json.load(open(os.path.join(d, "meta.json")))
            taken.append("  %d. [%s] %s" % (len(taken) + 1, ", ".join(m.get("files", [])), " ".join(str(m.get("summary", "")).split())[:260]))
        except Exception:
            pass
    t += ("\n\nALREADY TAKEN — earlier rounds produced the following changes for this property; yours must be DIFFERENT from all of them "
          "(different mechanism or different site, not a variation of the same edit):\n" + "\n".join(taken) +
          "\n\nEXTRA GUIDANCE FOR THIS ROUND: earlier changes that needed only ONE unusual condition have mostly been found. Prefer changes that need a "
          "CONJUNCTION of two or three conditions to manifest (e.g. an option value AND a particular event in the previous step AND a particular "
          "entry point; a user edit between two calls AND an unsynchronised state; a rarely used public function; an array or counter crossing an "
          "allocation boundary together with a restore) — while still being a plausible maintainer mistake. %s = moderately easy, %s = hard to hit.\n" % (A, B))
    open(os.path.join(wt, "TASK.md"), "w").write(t)
    print(pid, len(taken), "taken")
