"""C15 — boundary conditions and the spatial tree keep every particle accounted for.

proof:   lean/RV/Props/C15.lean  (wrap loops, open-boundary removal loop, oct-tree insertion
         invariants, mass/centre-of-mass aggregation, theta=0 walk, functional update)
tie:     lean/RV/Model/{Boundary,Tree,TreeArr}.lean run on IEEE doubles (drv_c15) vs
         reb_boundary_check (bitwise) and vs a read-only pre-order dump of sim->tree_root
         (harness/c15_dump.c compiled against the scratch headers): fresh trees, and trees
         after boundary wrap / steps / removals (canonical shape = fresh build from the
         current particle array)
search:  invariants of the property asserted on the real code after every tree update in
         random runs (Fractions / fsum oracle), boundary wrap vs exact rational arithmetic
"""
import ctypes, json, math, os, signal, sys, tempfile, time
from fractions import Fraction
sys.path.insert(0, os.path.dirname(os.path.abspath(__file__)))
from common import *

FUEL_TREE = 1200          # refinement depth bound given to the model (doubles: < 1100 halvings)
F17 = "F17:tree-merge-flagged-particle-lingers"
F17R = "F17:restart-with-flagged-particle"
F18 = "C15-N1:particle-on-root-box-face-dropped-from-tree"
N2 = "C15-N2:near-coincident-particles-unbounded-refinement"
N3 = "C15-N3:variational-particles-inserted-into-tree"
N4 = "C15-N4:multi-stage-integrator-uses-stale-tree"
N5 = "C15-N5:non-finite-coordinate-hangs-boundary-check"
N6 = "C15-N6:whfast-jacobi-arrays-not-updated-by-tree-update"
N7 = "C15-N7:merge-product-on-face-lost-by-post-collision-tree-update"
N8 = "C15-N8:whfast-open-boundary-N_active-crash"
N9 = "C15-N9:refused-particle-appended-with-null-cell-pointer"

_rebound = None
_lib = None
_clib = None
ROOT_RULE = ["wrap"]      # how particle.c / tree.c bring a root-box index into range (read off the source)


def read_root_rule(d):
    """mini-translator: `(floor(..)+N)%N` (pinned source) or clamp to [0,N-1] (fixes/C15-N1-rootbox-face-reinsert.diff)?  Returns None if
    neither form is recognised in both places that compute a root-box index."""
    import re
    ps = open(os.path.join(d, "src", "particle.c")).read()
    ts = open(os.path.join(d, "src", "tree.c")).read()
    m = re.search(r"int reb_get_rootbox_for_particle\(.*?\n}", ps, re.S)
    m2 = re.search(r"if \(parent == NULL\)\{ // The new node is a root(.*?)\}else\{", ts, re.S)
    if not m or not m2:
        return None
    a, b = m.group(0), m2.group(1)
    wrap_a = len(re.findall(r"\(int\)floor\(\(pt\.[xyz] \+ r->boxsize\.[xyz]/2\.\)/r->root_size\)\+r->N_root_[xyz]\)%r->N_root_[xyz]", a)) == 3
    wrap_b = len(re.findall(r"\(\(int\)floor\(\(p\.[xyz] \+ r->boxsize\.[xyz]/2\.\)/r->root_size\)\)%r->N_root_[xyz]", b)) == 3
    cl = r"[ijk] = [ijk]<0 \? 0 : \([ijk]>=r->N_root_[xyz] \? r->N_root_[xyz]-1 : [ijk]\);"
    clamp_a = len(re.findall(cl, a)) == 3 and "%" not in a
    clamp_b = len(re.findall(cl, b)) == 3 and "%" not in b
    if wrap_a and wrap_b:
        return "wrap"
    if clamp_a and clamp_b:
        return "clamp"
    return None


def setup(d):
    global _rebound, _lib, _clib
    _rebound = use_scratch_rebound(d)
    _clib = _rebound.clibrebound
    so = compile_harness(d, os.path.join(ROOT, "harness", "c15_dump.c"), os.path.join(d, "c15_dump.so"),
                         extra=["-shared", "-fPIC"])
    _lib = ctypes.CDLL(so)
    return _rebound


# ----------------------------------------------------------------------------- real-code access
def get_dump(sim):
    cap = 4 * sim.N + 64
    while True:
        D = (ctypes.c_double * (8 * cap))()
        I = (ctypes.c_int * (8 * cap))()
        n = _lib.c15_dump(ctypes.byref(sim), D, I, cap)
        if n == -1:
            cap *= 4
            if cap > 50_000_000:
                return None
            continue
        if n < 0:
            return None
        return [(D[8 * k:8 * k + 8], I[8 * k:8 * k + 8]) for k in range(n)]


def get_parts(sim):
    n = sim.N
    P = (ctypes.c_double * (6 * n + 6))()
    M = (ctypes.c_double * (2 * n + 2))()
    H = (ctypes.c_uint * (n + 1))()
    k = _lib.c15_particles(ctypes.byref(sim), P, M, H, n + 1)
    return [dict(x=P[6 * i], y=P[6 * i + 1], z=P[6 * i + 2], vx=P[6 * i + 3], vy=P[6 * i + 4], vz=P[6 * i + 5],
                 m=M[2 * i], r=M[2 * i + 1], h=H[i]) for i in range(k)]


def set_parts(sim, rows):
    n = len(rows)
    P = (ctypes.c_double * (6 * n + 6))()
    for i, r in enumerate(rows):
        P[6 * i:6 * i + 6] = r
    _lib.c15_set(ctypes.byref(sim), P, n)


def messages(sim):
    """drain the message queue; returns list of (kind, text)"""
    out = []
    buf = ctypes.create_string_buffer(4096)
    _clib.reb_simulation_get_next_message.restype = ctypes.c_int
    while _clib.reb_simulation_get_next_message(ctypes.byref(sim), buf):
        s = buf.value.decode("ascii", "replace")
        out.append((s[:1], s[1:]))
    return out


def near_refused(ms):
    """with fixes/C15-N2 applied the code refuses a particle that is a few ulp from another one (refinement would not
    end) with this message, exactly like a coincident one: such a run is outside the hypothesis (distinct positions)"""
    return any("(nearly) the same coordinates" in t for _, t in ms)


# ----------------------------------------------------------------------------- configurations
def snap(rng, v, lo, hi, step):
    """snap v to a multiple of step (cell faces) inside [lo,hi]"""
    k = round((v - lo) / step)
    return min(hi, max(lo, lo + k * step))


# ----------------------------------------------------------------------------- factors of the random runs
# every configuration dimension of the runs is an explicit factor with a finite value set; the runs are generated from a
# greedy all-pairs covering array of these (quick and thorough: the whole array, seeded by VERIF_SEED, then random vectors)
FACTORS = {
    "integrator": ["leapfrog", "sei", "ias15", "whfast"],
    "boundary": ["periodic", "open", "shear"],
    "gravity": ["none", "tree"],
    "collision": ["none", "tree", "linetree", "direct", "line"],
    "resolve": ["-", "hardsphere", "merge", "callback"],
    "layout": ["1x1x1", "cubic", "nonsquare"],
    "roles": ["all_active", "tp0_massive", "tp0_massless", "tp1_massive", "tp1_massless"],
    "dtsign": ["+", "-"],
    "restart": ["none", "copy", "file"],
    "userop": ["none", "add", "remove", "add+remove"],
    "adjacency": ["none", "add;remove", "remove;add", "restart;add", "restart;remove", "add;restart", "remove;restart"],
    "posmode": ["uniform", "cluster", "dyadic", "face"],
    "speed": ["slow", "fast", "veryfast"],
    "nclass": ["tiny", "small", "medium", "large"],
    "af_probe": [0, 1],
    "upd_every": [1, 2, 3],
}


def pair_excluded(f, a, g, b):
    """combinations that are not generated, with the reason (never silently)"""
    v = {f: a, g: b}
    if "collision" in v and "resolve" in v:
        if (v["collision"] == "none") != (v["resolve"] == "-"):
            return "a resolver exists exactly when there is a collision search"
    if v.get("integrator") == "whfast":
        if v.get("gravity") == "tree" or v.get("collision", "none") != "none" or v.get("af_probe") == 1 or \
                v.get("resolve", "-") != "-":
            return "WHFast with a tree / collisions: known finding C15-N6 (own probe); WHFast drives tree-less runs"
        if v.get("roles") in ("tp0_massless", "tp1_massless"):
            return "WHFast with massless bodies divides by zero Jacobi masses"
    if v.get("af_probe") == 1 and v.get("gravity") == "none":
        return "additional_forces probe inspects the tree used by gravity"
    if v.get("roles") in ("tp0_massless", "tp1_massless") and (v.get("collision", "none") != "none" or v.get("resolve", "-") != "-"):
        return "colliding massless bodies give NaN velocities (C13 F19)"
    if v.get("nclass") == "tiny" and v.get("roles", "all_active") != "all_active":
        return "N_active < N needs at least two particles"
    if v.get("adjacency", "none") != "none" and (v.get("userop", "none") != "none" or v.get("restart", "none") != "none"):
        return "the adjacency factor schedules its own user operation / restart"
    if v.get("integrator") == "ias15" and v.get("adjacency", "none") != "none" and False:
        return ""
    return None


def vector_ok(fv):
    ks = list(fv)
    for i, f in enumerate(ks):
        for g in ks[i + 1:]:
            if pair_excluded(f, fv[f], g, fv[g]):
                return False
    return True


def all_pairs():
    ks = list(FACTORS)
    tot, exc = [], []
    for i, f in enumerate(ks):
        for g in ks[i + 1:]:
            for a in FACTORS[f]:
                for b in FACTORS[g]:
                    (exc if pair_excluded(f, a, g, b) else tot).append((f, a, g, b))
    return tot, exc


def pairs_of(fv):
    ks = list(FACTORS)
    return {(f, fv[f], g, fv[g]) for i, f in enumerate(ks) for g in ks[i + 1:]}


# sampling weights of the random (non-array) vectors: cheap values more often, every value still possible
WEIGHTS = {"integrator": [3, 1, 1, 1], "nclass": [5, 8, 5, 2], "af_probe": [2, 1], "adjacency": [6, 1, 1, 1, 1, 1, 1],
           "userop": [4, 1, 1, 1], "restart": [3, 1, 1], "posmode": [3, 2, 2, 1]}


def wchoice(rng, f):
    vs = FACTORS[f]
    w = WEIGHTS.get(f)
    if not w:
        return rng.choice(vs)
    k = rng.randint(1, sum(w))
    for v, wi in zip(vs, w):
        k -= wi
        if k <= 0:
            return v
    return vs[-1]


def random_vector(rng, weighted=False):
    for _ in range(1000):
        fv = {f: (wchoice(rng, f) if weighted else rng.choice(vs)) for f, vs in FACTORS.items()}
        if fv["collision"] == "none":
            fv["resolve"] = "-"
        elif fv["resolve"] == "-":
            fv["resolve"] = rng.choice(FACTORS["resolve"][1:])
        if vector_ok(fv):
            return fv
    raise Infra("no admissible factor vector found")


def covering_array(rng):
    """greedy all-pairs: repeatedly take, out of 80 random admissible vectors, the one covering most uncovered pairs"""
    todo = set(all_pairs()[0])
    rows = []
    while todo:
        best, bestn = None, -1
        target = min(todo, key=repr)          # deterministic choice (set order depends on the process' hash seed)
        for _ in range(80):
            fv = random_vector(rng)
            # steer half of the candidates through a still uncovered pair
            if todo and rng.chance(0.5):
                f, a, g, b = target
                fv2 = dict(fv); fv2[f] = a; fv2[g] = b
                if fv2["collision"] == "none":
                    fv2["resolve"] = "-"
                if vector_ok(fv2):
                    fv = fv2
            n = len(pairs_of(fv) & todo)
            if n > bestn:
                best, bestn = fv, n
        if bestn <= 0:
            # a pair that no admissible vector contains: report it as uncoverable rather than loop
            f, a, g, b = target
            todo.discard((f, a, g, b))
            rows.append(None)
            continue
        rows.append(best)
        todo -= pairs_of(best)
    return [r for r in rows if r is not None]


def gen_config(rng, kind="sim", allow_face=True, fv=None):
    """a JSON-able description of one run, built from a factor vector"""
    if fv is None:
        fv = random_vector(rng, weighted=True)
        if not allow_face and fv["posmode"] == "face":
            fv = dict(fv, posmode="uniform")
    fv = dict(fv)
    if kind != "sim":
        # the fresh / boundary / update-walk cases are about a simulation that has a tree; no stepping, no roles
        if fv["collision"] in ("direct", "line", "none") and fv["gravity"] == "none":
            fv["collision"], fv["resolve"] = "tree", ("hardsphere" if fv["resolve"] == "-" else fv["resolve"])
        elif fv["collision"] in ("direct", "line"):
            fv["collision"] = "tree"
        if fv["integrator"] == "whfast":
            fv["integrator"] = "leapfrog"
        fv["roles"] = "all_active" if fv["roles"].endswith("massless") else fv["roles"]
    rs = rng.choice([1.0, 2.0, 10.0, 0.5]) if rng.chance(0.5) else rng.uniform(0.3, 20.0)
    if fv["layout"] == "1x1x1":
        nx, ny, nz = 1, 1, 1
    elif fv["layout"] == "cubic":
        nx = ny = nz = rng.choice([2, 2, 3, 4])
    else:
        while True:
            nx, ny, nz = [rng.choice([1, 1, 2, 2, 3, rng.randint(1, 6)]) for _ in range(3)]
            if len({nx, ny, nz}) > 1:
                break
    boundary, gravity, collision = fv["boundary"], fv["gravity"], fv["collision"]
    resolve = "hardsphere" if fv["resolve"] == "-" else fv["resolve"]
    n = {"tiny": rng.choice([1, 2, 3]), "small": rng.choice([5, 8, 13, 20]), "medium": rng.choice([40, 80, 150]),
         "large": rng.randint(200, 600)}[fv["nclass"]]
    if fv["roles"] != "all_active":
        n = max(n, 2)
    bx, by, bz = rs * nx, rs * ny, rs * nz
    dt = rng.choice([0.01, 0.05, 0.1])
    vscale = {"slow": 0.1, "fast": rng.choice([1.0, 3.0]), "veryfast": 8.0}[fv["speed"]] * rs / dt
    face = fv["posmode"] == "face"
    posmode = rng.choice(["uniform", "dyadic", "mixed"]) if face else fv["posmode"]
    parts = []
    seen = set()
    cen = [rng.uniform(-b / 2, b / 2) for b in (bx, by, bz)]
    tries = 0
    while len(parts) < n:
        tries += 1
        pm = posmode if posmode != "mixed" else rng.choice(["uniform", "cluster", "dyadic"])
        if tries > 20 * n + 100:
            pm = "uniform"          # a coarse dyadic grid has too few distinct sites
        pos = []
        for a, (b, nr) in enumerate(((bx, nx), (by, ny), (bz, nz))):
            if pm == "uniform":
                v = rng.uniform(-b / 2, b / 2)
            elif pm == "cluster":
                v = cen[a] + rng.normal() * rs * 10 ** (-rng.uniform(0, 9))
                if not abs(v) < b / 2:
                    v = rng.uniform(-b / 2, b / 2)
            else:
                v = snap(rng, rng.uniform(-b / 2, b / 2), -b / 2, b / 2, rs / 2 ** rng.randint(0, 6))
            pos.append(v)
        if face and rng.chance(0.15):
            a = rng.randint(0, 2)
            b, nr = ((bx, nx), (by, ny), (bz, nz))[a]
            k = rng.randint(0, nr)
            pos[a] = rng.choice([b / 2, -b / 2, math.nextafter(b / 2, 0.0), math.nextafter(-b / 2, 0.0), -b / 2 + k * rs, 0.0])
        if not face and any(axis_misfiled(v, b, rs, nr) for v, (b, nr) in zip(pos, ((bx, nx), (by, ny), (bz, nz)))):
            continue        # on a root-box face: only in the `face` configurations
        if tuple(pos) in seen:
            continue        # coincident particles are refused by the code (error message); separate generator
        seen.add(tuple(pos))
        vel = [rng.normal() * vscale * (0.0 if rng.chance(0.1) else 1.0) for _ in range(3)]
        m = rng.loguniform(1e-6, 1.0)
        if collision == "none" and fv["integrator"] != "whfast" and fv["roles"] == "all_active" and rng.chance(0.1):
            m = 0.0             # zero-mass active bodies
        r = rs * rng.choice([0.0, 0.002, 0.01, 0.03])
        parts.append([d2h(v) for v in pos + vel + [m, r]])
    integ = fv["integrator"]
    dtsign = -1.0 if fv["dtsign"] == "-" else 1.0
    nact, tptype = -1, 0
    if fv["roles"] != "all_active":
        nact = rng.randint(1, n - 1)
        tptype = 1 if fv["roles"].startswith("tp1") else 0
        if fv["roles"].endswith("massless"):
            for i in range(nact, n):
                if rng.chance(0.7) or i == nact:
                    parts[i][6] = d2h(0.0)
    # user operations / restarts, and their adjacency (event A before step s, event B before step s+1)
    def mkop(step, what):
        return [step, what, [d2h(rng.uniform(-b / 2, b / 2) * 0.999) for b in (bx, by, bz)], rng.next() & 0xFFFF]
    userops = []
    restart_at, restart_kind = 0, rng.choice(["copy", "file"])
    if kind == "sim":
        if fv["userop"] != "none":
            for w in fv["userop"].split("+"):
                userops.append(mkop(rng.randint(1, 7), w))
            if rng.chance(0.3):
                userops.append(mkop(rng.randint(1, 20), rng.choice(["add", "remove"])))
        if fv["restart"] != "none":
            restart_at, restart_kind = rng.randint(1, 7), fv["restart"]
        if fv["adjacency"] != "none":
            s0 = rng.randint(1, 5)
            for k, ev in enumerate(fv["adjacency"].split(";")):
                if ev == "restart":
                    restart_at = s0 + k
                else:
                    userops.append(mkop(s0 + k, ev))
    Gval = rng.choice([1.0, 1.0, 39.47841760435743, 6.674e-11])
    soft = rng.choice([0.0, 0.01 * rs])
    if gravity == "tree" and soft == 0.0:
        Gval = 6.674e-11          # unsoftened close encounters would throw particles beyond 2^53 L (C15-N5)
    if gravity == "tree" and integ == "ias15":
        soft = 0.01 * rs          # an unsoftened pair a few ulp apart collapses the IAS15 step to 0 and then NaN (IAS15's business)
    extra = dict(integrator=integ, dtsign=dtsign, n_active=nact, tptype=tptype, userops=userops,
                 G=d2h(Gval), soft=d2h(soft), af_probe=bool(fv["af_probe"]) and gravity == "tree", fv=fv)
    return dict(extra, rs=d2h(rs), nx=nx, ny=ny, nz=nz, boundary=boundary, gravity=gravity, collision=collision,
                resolve=resolve, dt=d2h(dt), omega=d2h(rng.uniform(0.2, 2.0) * rng.choice([1, 1, 1, -1])),
                t0=d2h(rng.choice([rng.uniform(0, 50.0), rng.uniform(0, 50.0), -rng.uniform(0, 50.0), rng.uniform(-1e6, 1e6)])),
                steps=rng.randint(8, 60), parts=parts, seed=rng.next() & 0xFFFFFFFF,
                upd_every=fv["upd_every"], posmode=posmode, face=face,
                restart_at=restart_at, restart_kind=restart_kind,
                track_energy=(1 if rng.chance(0.4) else 0),    # open boundary without a tree: removal with keep_sorted
                theta2=d2h(rng.choice([0.0, 0.25, 1.0])))


def make_sim(cfg, tree=True):
    sim = _rebound.Simulation()
    rs = h2d(cfg["rs"])
    sim.configure_box(rs, cfg["nx"], cfg["ny"], cfg["nz"])
    sim.integrator = cfg.get("integrator", "leapfrog")
    sim.boundary = cfg["boundary"]
    sim.gravity = cfg["gravity"] if tree else "none"
    sim.collision = cfg["collision"] if tree else "none"
    set_resolve(sim, cfg)
    sim.dt = h2d(cfg["dt"]) * cfg.get("dtsign", 1.0)
    sim.G = h2d(cfg["G"]) if "G" in cfg else 1.0
    sim.testparticle_type = cfg.get("tptype", 0)
    sim.ri_sei.OMEGA = h2d(cfg["omega"])
    sim.t = h2d(cfg["t0"])
    sim.opening_angle2 = h2d(cfg["theta2"])
    sim.softening = h2d(cfg["soft"]) if "soft" in cfg else 0.01 * rs
    sim.rand_seed = cfg["seed"]
    tree_cfg = tree and (cfg["gravity"] == "tree" or cfg["collision"] in ("tree", "linetree"))
    if cfg.get("track_energy") and cfg["boundary"] == "open" and not tree_cfg:
        sim.track_energy_offset = 1      # never with a tree: sorted removal is refused there (C14)
    _clib.reb_simulation_set_collision_resolve  # (resolve set through the property above)
    sim.save_messages = 1 if hasattr(sim, "save_messages") else 0
    return sim


def set_resolve(sim, cfg):
    if cfg["resolve"] != "callback":
        sim.collision_resolve = cfg["resolve"]
        return
    rng = SplitMix(cfg["seed"] ^ 0xc0111de)

    def resolver(simp, col):      # 0 keep both, 1 remove p1, 2 remove p2, 3 remove both
        return rng.choice([0, 1, 2, 3, 0])
    sim.collision_resolve = resolver


def add_parts(sim, cfg):
    """returns list of (index, messages) for adds that produced a message"""
    msgs = []
    P = _rebound.Particle
    for i, row in enumerate(cfg["parts"]):
        x, y, z, vx, vy, vz, m, r = [h2d(t) for t in row]
        p = P()
        p.x, p.y, p.z, p.vx, p.vy, p.vz, p.m, p.r = x, y, z, vx, vy, vz, m, r
        p.hash = i + 1
        _clib.reb_simulation_add(ctypes.byref(sim), p)
        ms = messages(sim)
        if ms:
            msgs.append((i, ms))
    return msgs


# ----------------------------------------------------------------------------- oracle on the dump
def box_of(cfg):
    rs = h2d(cfg["rs"])
    return rs, cfg["nx"], cfg["ny"], cfg["nz"]


def axis_misfiled(v, b, rs, n, depth=34):
    """does the cell that the root-box index / octant rule selects for coordinate v fail the code's own
    containment test `fabs(v-c) > w/2` at some level?  (same float operations as tree.c / particle.c)
    Only possible for a coordinate on, or within rounding of, a root-box or cell face."""
    if not v == v:
        return False
    i = (math.floor((v + b / 2.) / rs) + n) % n
    c = -b / 2. + rs * (0.5 + i)
    w = rs
    for _ in range(depth):
        if abs(v - c) > w / 2.:
            return True
        w = w / 2.
        c = c + w / 2. * (-1. if v < c else 1.)
    return False


def f18_class(cfg, p):
    """particle filed in a cell that does not contain it (on the upper box face with >1 root boxes: the root-box
    index wraps to the opposite side; on an interior root-box face when the rounded cell centre leaves a gap)"""
    rs, nx, ny, nz = box_of(cfg)
    return any(axis_misfiled(p[a], rs * n, rs, n) for a, n in (("x", nx), ("y", ny), ("z", nz)))


def check_tree(cfg, cells, parts, grav):
    """the property's tree clauses, recomputed from the dump.  returns list of (kind, text, culprit indices)"""
    rs, nx, ny, nz = box_of(cfg)
    bx, by, bz = rs * nx, rs * ny, rs * nz
    N = len(parts)
    errs = []
    ncell = len(cells)
    parent = [-1] * ncell
    stack = []
    seen_roots = set()
    for k, (D, I) in enumerate(cells):
        depth = I[1]
        del stack[depth:]
        if depth > 0:
            if len(stack) != depth:
                errs.append(("dump", "malformed pre-order dump at cell %d" % k, []))
                return errs
            parent[k] = stack[-1]
        else:
            if I[0] in seen_roots:
                errs.append(("dump", "root box %d dumped twice" % I[0], []))
            seen_roots.add(I[0])
        stack.append(k)
    # leaves below each cell (post-order accumulation over the pre-order list)
    below = [[] for _ in range(ncell)]
    for k in range(ncell - 1, -1, -1):
        D, I = cells[k]
        if I[3] >= 0:
            below[k].append(I[3])
        if parent[k] >= 0:
            below[parent[k]].extend(below[k])
    leafcount = {}
    for k, (D, I) in enumerate(cells):
        x, y, z, w = D[0], D[1], D[2], D[3]
        ri, depth, octn, pt, mask, back, remote, nchild = I
        if remote != 0:
            errs.append(("remote", "cell %d has remote=%d" % (k, remote), []))
        # ---- geometry
        if depth == 0:
            i, j, kk = ri % nx, (ri // nx) % ny, ri // (nx * ny)
            want = (Fraction(-bx) / 2 + Fraction(rs) * (Fraction(1, 2) + i),
                    Fraction(-by) / 2 + Fraction(rs) * (Fraction(1, 2) + j),
                    Fraction(-bz) / 2 + Fraction(rs) * (Fraction(1, 2) + kk))
            tol = Fraction(rs) * Fraction(1, 10 ** 12) * max(nx, ny, nz)
            if w != rs or any(abs(Fraction(a) - b) > tol for a, b in zip((x, y, z), want)):
                errs.append(("geometry", "root cell of box %d has centre (%r,%r,%r) w=%r" % (ri, x, y, z, w), []))
        else:
            pD, pI = cells[parent[k]]
            sg = [1 if (octn >> a) % 2 == 0 else -1 for a in range(3)]
            tol = Fraction(pD[3]) * Fraction(1, 10 ** 12) + Fraction(max(abs(pD[0]), abs(pD[1]), abs(pD[2]))) * Fraction(1, 2 ** 51)
            if Fraction(w) * 2 != Fraction(pD[3]) or any(
                    abs(Fraction(c) - (Fraction(pc) + Fraction(w) / 2 * s)) > tol
                    for c, pc, s in zip((x, y, z), pD[:3], sg)):
                errs.append(("geometry", "cell %d (octant %d) is not the octant cell of its parent" % (k, octn), []))
            if not (pI[4] >> octn) & 1:
                errs.append(("dump", "cell %d not in parent's child mask" % k, []))
        # ---- leaf / inner
        if pt >= 0:
            leafcount[pt] = leafcount.get(pt, 0) + 1
            if mask != 0:
                errs.append(("leaf-children", "leaf cell %d (particle %d) has children mask %d" % (k, pt, mask), [pt]))
            if pt >= N:
                errs.append(("leaf-index", "leaf cell %d holds index %d >= N=%d" % (k, pt, N), []))
                continue
            if back != 1:
                errs.append(("backpointer", "particles[%d].c does not point to its leaf" % pt, [pt]))
            p = parts[pt]
            if not (p["y"] == p["y"]):
                errs.append(("flagged-in-tree", "leaf %d holds a flagged (y=NaN) particle %d" % (k, pt), [pt]))
                continue
            for a, c in (("x", x), ("y", y), ("z", z)):
                dlt = abs(Fraction(p[a]) - Fraction(c))
                eps = Fraction(max(abs(p[a]), abs(c), w, bx, by, bz)) * Fraction(1, 2 ** 50)
                if dlt > Fraction(w) / 2 + eps:
                    errs.append(("containment", "particle %d (%s=%r) is outside its leaf cell (centre %r, w %r)" % (pt, a, p[a], c, w), [pt]))
                    break
        else:
            nb = len(below[k])
            if pt != -nb:
                errs.append(("count", "inner cell %d has pt=%d but %d particles below" % (k, pt, nb), []))
            if nb < 2:
                errs.append(("derefine", "inner cell %d has only %d particle(s) below" % (k, nb), []))
            if nchild == 0:
                errs.append(("count", "inner cell %d has no children" % k, []))
        # ---- aggregation
        if grav and all(q < N for q in below[k]):
            ms = [parts[q]["m"] for q in below[k]]
            M = math.fsum(ms)
            sa = math.fsum(abs(v) for v in ms)
            if not abs(D[4] - M) <= 1e-12 * sa + 1e-300:
                errs.append(("mass", "cell %d mass %r != sum over contents %r" % (k, D[4], M), []))
            elif M > 0:
                for a, got in (("x", D[5]), ("y", D[6]), ("z", D[7])):
                    S = math.fsum(parts[q]["m"] * parts[q][a] for q in below[k])
                    SA = math.fsum(abs(parts[q]["m"] * parts[q][a]) for q in below[k])
                    if not abs(D[4] * got - S) <= 1e-11 * SA + 1e-300:
                        errs.append(("com", "cell %d m*m%s=%r != sum m*%s=%r" % (k, a, D[4] * got, a, S), []))
                        break
    missing = [i for i in range(N) if leafcount.get(i, 0) == 0]
    dup = [i for i, c in leafcount.items() if c > 1]
    if missing:
        errs.append(("missing", "particles %s (of N=%d) are in no leaf" % (missing[:8], N), missing))
    if dup:
        errs.append(("duplicate", "particles %s are in more than one leaf" % dup[:8], dup))
    return errs


def dump_str(cells):
    toks = ["ok", str(len(cells))]
    for D, I in cells:
        toks += [str(I[0]), str(I[1]), str(I[2])] + [d2h(v) for v in D[:4]] + [str(I[3]), str(I[4] if I[3] < 0 else 0)] + \
                [d2h(v) for v in D[4:8]]
    return " ".join(toks)


def model_line(cfg, parts, grav):
    toks = ["tree", ROOT_RULE[0], cfg["rs"], str(cfg["nx"]), str(cfg["ny"]), str(cfg["nz"]), "1" if grav else "0",
            str(FUEL_TREE), str(len(parts))]
    for p in parts:
        toks += [d2h(p["x"]), d2h(p["y"]), d2h(p["z"]), d2h(p["m"])]
    return " ".join(toks)


def face_tie(cells, parts):
    """is some leaf particle exactly on (or within rounding of) a face of its leaf cell?  then the
    incrementally maintained tree may legitimately differ in shape from a fresh build"""
    for D, I in cells:
        pt = I[3]
        if 0 <= pt < len(parts):
            p = parts[pt]
            for a, c in (("x", D[0]), ("y", D[1]), ("z", D[2])):
                if p[a] == p[a]:
                    dlt = abs(Fraction(p[a]) - Fraction(c))
                    if abs(dlt - Fraction(D[3]) / 2) <= Fraction(max(abs(p[a]), abs(c), D[3])) * Fraction(1, 2 ** 50):
                        return True
    return False


# ----------------------------------------------------------------------------- one simulated run (worker side)
class Out:
    def __init__(self):
        self.viol = []        # (key, what, replay)
        self.lines = []       # (line, expect, meta)
        self.counts = {}
        self.evals = []       # keys for c.count
        self.notes = {}

    def inc(self, k, n=1):
        self.counts[k] = self.counts.get(k, 0) + n


def evaluate_tree(cfg, sim, out, where, want_model, step):
    """update-tree state must satisfy the invariants; optionally queue a model comparison"""
    _clib.reb_simulation_update_tree_gravity_data(ctypes.byref(sim))
    parts = get_parts(sim)
    cells = get_dump(sim)
    if cells is None:
        out.viol.append(("tree-walk", "tree of the real code cannot be walked (cycle / runaway) %s" % where,
                         dict(cfg=cfg, step=step)))
        return
    errs = check_tree(cfg, cells, parts, True)
    out.inc("tree_evaluations")
    out.inc("cells_checked", len(cells))
    out.inc("leaves_checked", len(parts))
    if errs:
        culprits = [q for e in errs for q in e[2]]
        # F18: every particle the errors point at is one the code itself files in a cell that does not contain it
        # (or the heap/tree was already damaged by such a particle in this run: cfg["face"] runs only)
        is18 = bool(culprits) and all(q < len(parts) and f18_class(cfg, parts[q]) for q in culprits)
        key = F18 if (is18 or (cfg.get("face") and any(f18_class(cfg, p) for p in parts))) else "tree-" + errs[0][0]
        out.viol.append((key, "%s: %s" % (where, errs[0][1]),
                         dict(cfg=cfg, step=step, errors=[e[1] for e in errs[:5]])))
        out.inc("tree_invariant_failures")
        return
    if want_model and cfg["gravity"] == "tree" and 2 <= len(parts) <= 160:
        check_walk(cfg, sim, parts, out, where, step, face_tie(cells, parts))
    if want_model and not any(f18_class(cfg, p) for p in parts):
        out.lines.append((model_line(cfg, parts, True), dump_str(cells),
                          dict(where=where, step=step, N=len(parts), tie=face_tie(cells, parts),
                               box=[cfg["rs"], cfg["nx"], cfg["ny"], cfg["nz"]], boundary=cfg["boundary"])))


def check_walk(cfg, sim, parts, out, where, step, tie=False):
    """the tree walk of the real gravity routine with opening angle 0 must see every other particle exactly once:
    accelerations = brute-force pair sum (fsum), no ghost boxes"""
    n = len(parts)
    old = sim.opening_angle2
    sim.opening_angle2 = 0.0
    _clib.reb_calculate_acceleration(ctypes.byref(sim))
    sim.opening_angle2 = old
    A = (ctypes.c_double * (3 * n + 3))()
    if _lib.c15_acc(ctypes.byref(sim), A, n + 1) != n:
        return
    # ---- tie of the force walk itself: the run's own opening angle (monopoles of unopened cells included), bitwise
    # (a particle exactly on a face of its leaf cell may legitimately sit in a differently refined, incrementally maintained
    #  tree than the fresh build the model makes — same exception as for the shape comparison; the theta=0 oracle below
    #  still applies to it)
    if tie:
        out.inc("force_tie_skipped_particle_on_cell_face")
    if not tie and sim.N_ghost_x == 0 and sim.N_ghost_y == 0 and sim.N_ghost_z == 0 and not any(f18_class(cfg, p) for p in parts):
        _clib.reb_calculate_acceleration(ctypes.byref(sim))
        B = (ctypes.c_double * (3 * n + 3))()
        if _lib.c15_acc(ctypes.byref(sim), B, n + 1) == n:
            toks = ["acc", ROOT_RULE[0], cfg["rs"], str(cfg["nx"]), str(cfg["ny"]), str(cfg["nz"]), str(FUEL_TREE),
                    d2h(sim.G), d2h(sim.softening), d2h(sim.opening_angle2), str(n)]
            for p in parts:
                toks += [d2h(p["x"]), d2h(p["y"]), d2h(p["z"]), d2h(p["m"])]
            out.lines.append((" ".join(toks), "ok " + " ".join(d2h(B[k]) for k in range(3 * n)),
                              dict(where="tree gravity: accelerations of all particles", N=n, exact=True)))
            out.inc("dim:tree_gravity_force_tie:theta2=%g" % sim.opening_angle2)
    G = sim.G
    s2 = sim.softening ** 2
    out.inc("walk_checks")
    for i in range(n):
        pi = parts[i]
        tx, ty, tz = [], [], []
        for j in range(n):
            if j == i:
                continue
            pj = parts[j]
            dx, dy, dz = pi["x"] - pj["x"], pi["y"] - pj["y"], pi["z"] - pj["z"]
            r2 = dx * dx + dy * dy + dz * dz + s2
            f = -G * pj["m"] / (r2 * math.sqrt(r2))
            tx.append(f * dx); ty.append(f * dy); tz.append(f * dz)
        for a, terms, got in (("x", tx, A[3 * i]), ("y", ty, A[3 * i + 1]), ("z", tz, A[3 * i + 2])):
            want = math.fsum(terms)
            scale = math.fsum(abs(t) for t in terms)
            if not abs(got - want) <= 1e-9 * scale + 1e-300:
                out.viol.append(("walk-theta0", "%s: tree gravity with opening angle 0 gives a%s=%r for particle %d, the sum over all other particles is %r"
                                 % (where, a, got, i, want), dict(cfg=cfg, step=step)))
                return


def inside_box(cfg, p, slack=0.0):
    rs, nx, ny, nz = box_of(cfg)
    return all(-(rs * n) / 2. * (1 + slack) <= p[a] <= (rs * n) / 2. * (1 + slack) for a, n in (("x", nx), ("y", ny), ("z", nz)))


def restart(sim, cfg):
    if cfg["restart_kind"] == "copy":
        s2 = sim.copy()
    else:
        fd, fn = tempfile.mkstemp(prefix="c15.", suffix=".bin", dir=os.environ.get("VERIF_TMP", "/tmp"))
        os.close(fd)
        try:
            sim.save_to_file(fn, delete_file=True)
            s2 = _rebound.Simulation(fn)
        finally:
            if os.path.exists(fn):
                os.remove(fn)
    set_resolve(s2, cfg)      # function pointers are not part of the saved state
    s2.save_messages = 1
    messages(s2)
    return s2


def sim_dimensions(cfg):
    """names of the cross-cutting dimensions a run exercises"""
    d = ["integrator:" + cfg.get("integrator", "leapfrog"), "boundary:" + cfg["boundary"]]
    g, c = cfg["gravity"] == "tree", cfg["collision"] in ("tree", "linetree")
    d.append("tree_use:" + ("both" if g and c else "gravity_only" if g else "collisions_only" if c else "no_tree"))
    if cfg["collision"] != "none":
        d.append("resolver:" + cfg["resolve"])
        d.append("collision_search:" + cfg["collision"])
        if g and not c and cfg["resolve"] in ("merge", "callback"):
            # any tree makes reb_simulation_remove_particle flag instead of remove: the search need not be a tree search
            d.append("conj:tree_gravity x %s search x removing resolver" % cfg["collision"])
    if cfg.get("dtsign", 1.0) < 0:
        d.append("time:dt<0")
    na = cfg.get("n_active", -1)
    if na >= 0:
        d.append("roles:N_active<N" if na < len(cfg["parts"]) else "roles:N_active=N")
        d.append("roles:testparticle_type%d" % cfg.get("tptype", 0))
        tm = [h2d(r[6]) for r in cfg["parts"][na:]]
        if any(m == 0.0 for m in tm):
            d.append("roles:massless_test_particles")
        if any(m != 0.0 for m in tm):
            d.append("roles:massive_test_particles")
        if na == 1:
            d.append("roles:single_active_body")
    if any(h2d(r[6]) == 0.0 for r in cfg["parts"][:na if na >= 0 else None]):
        d.append("roles:zero_mass_active")
    if len({cfg["nx"], cfg["ny"], cfg["nz"]}) > 1:
        d.append("geometry:nonsquare_root_layout")
    if cfg.get("face"):
        d.append("geometry:particles_on_faces")
    if "G" in cfg and h2d(cfg["G"]) != 1.0:
        d.append("options:G!=1")
    if "soft" in cfg and h2d(cfg["soft"]) == 0.0:
        d.append("options:softening=0")
    if cfg.get("theta2") and h2d(cfg["theta2"]) == 0.0:
        d.append("options:opening_angle=0")
    if cfg.get("af_probe"):
        d.append("callbacks:additional_forces")
    if len(cfg["parts"]) > 128:
        d.append("scale:N>128")
    if len(cfg["parts"]) > 512:
        d.append("scale:N>512")
    return d


def install_af_probe(sim, cfg, out):
    """additional_forces is called right after every gravity evaluation: the moment the tree is in use.  The probe
    recomputes the aggregation and containment clauses from the tree as it is then."""
    st = dict(calls=0, errors=[])

    def af(simp):
        st["calls"] += 1
        out.inc("tree_in_use_probes")
        try:
            if sim.N == 0 or len(st["errors"]) > 0:
                return
            parts = get_parts(sim)
            cells = get_dump(sim)
            if cells is None:
                st["errors"].append((st["calls"], "the tree cannot be walked"))
                return
            errs = [e for e in check_tree(cfg, cells, parts, True) if e[0] in ("mass", "com", "containment", "missing", "duplicate")]
            if errs and not any(f18_class(cfg, p) for p in parts):
                st["errors"].append((st["calls"], errs[0][1]))
        except Exception as e:      # never let an exception escape into the C caller
            st["errors"].append((st["calls"], "probe failed: %r" % (e,)))
    sim.additional_forces = af
    return st


def user_op(sim, cfg, op, next_hash, out):
    """the user edits the particle set between two steps"""
    _, what, pos, seed = op
    if what == "add":
        p = _rebound.Particle()
        p.x, p.y, p.z = [h2d(t) for t in pos]
        p.m, p.r = 1e-3, 0.0
        p.hash = next_hash[0]
        next_hash[0] += 1
        _clib.reb_simulation_add(ctypes.byref(sim), p)
        out.inc("dim:history:user_add")
    else:
        _clib.reb_simulation_remove_particle.restype = ctypes.c_int
        _clib.reb_simulation_remove_particle(ctypes.byref(sim), ctypes.c_int(seed % sim.N), ctypes.c_int(0))
        out.inc("dim:history:user_remove")


def run_sim(cfg, out, model_budget):
    """random run of the real code; the property is evaluated after every step"""
    rs, nx, ny, nz = box_of(cfg)
    L = dict(x=rs * nx, y=rs * ny, z=rs * nz)
    sim = make_sim(cfg)
    addmsgs = add_parts(sim, cfg)
    if addmsgs:
        out.inc("configs_rejected_at_add")
        out.notes["rejected"] = addmsgs[0][1][0][1]
        return
    tree_on = cfg["gravity"] == "tree" or cfg["collision"] in ("tree", "linetree")
    dt = h2d(cfg["dt"])
    if cfg.get("face") and any(f18_class(cfg, p) for p in get_parts(sim)):
        out.notes["f18_seen"] = True
    integ = cfg.get("integrator", "leapfrog")
    if cfg.get("n_active", -1) >= 0:
        sim.N_active = cfg["n_active"]
    if integ == "ias15":
        cfg = dict(cfg, steps=min(cfg["steps"], 6))       # without forces the adaptive step grows 4x per step
    free_flight = cfg["gravity"] == "none" and cfg["collision"] == "none" and integ in ("leapfrog", "ias15")
    key = (cfg["boundary"], cfg["gravity"], cfg["collision"], cfg["resolve"], nx, ny, nz, min(len(cfg["parts"]), 50),
           integ, cfg.get("dtsign", 1.0) < 0, cfg.get("n_active", -1) >= 0)
    for dname in sim_dimensions(cfg):
        out.inc("dim:" + dname)
    out.notes["fv"] = cfg.get("fv")
    probe = install_af_probe(sim, cfg, out) if cfg.get("af_probe") else None
    next_hash = [len(cfg["parts"]) + 1]
    if tree_on and sim.N > 0:
        evaluate_tree(cfg, sim, out, "after construction", model_budget[0] > 0, 0)
        model_budget[0] -= 1
    removed_total = 0
    crossings = 0
    for step in range(1, cfg["steps"] + 1):
        if step == cfg.get("restart_at", 0) and sim.N > 0:
            # the run is continued from a copy / from a file: the tree has to be there again
            if any(not p["y"] == p["y"] for p in get_parts(sim)) and _marker[0]:
                # F17 state at the step boundary: if the restart now crashes the parent can tell why
                with open(_marker[0], "w") as f:
                    f.write("restart-with-flagged-particle")
                out.inc("restarts_with_flagged_particle")
                out.notes["flagged_restart"] = True
            sim = restart(sim, cfg)
            if _marker[0] and os.path.exists(_marker[0]):
                os.remove(_marker[0])
            out.inc("restarts")
            out.inc("dim:history:restart_" + cfg["restart_kind"])
            if probe is not None:
                probe = install_af_probe(sim, cfg, out)
            if tree_on:
                _clib.reb_boundary_check(ctypes.byref(sim))
                _clib.reb_simulation_update_tree(ctypes.byref(sim))
                if sim.N > 0:
                    evaluate_tree(cfg, sim, out, "after restart (%s) before step %d + tree update" % (cfg["restart_kind"], step), model_budget[0] > 0, step)
                    model_budget[0] -= 1
                if any(v[0] != F17 for v in out.viol):
                    break
        for op in cfg.get("userops", []):
            if op[0] == step and sim.N > 0:
                user_op(sim, cfg, op, next_hash, out)
        if near_refused(messages(sim)) or sim.N == 0:
            break
        before = {p["h"]: p for p in get_parts(sim) if p["y"] == p["y"]}
        _clib.reb_simulation_step(ctypes.byref(sim))
        ms = messages(sim)
        after = get_parts(sim)
        dt = sim.dt_last_done
        if cfg.get("n_active", -1) >= 0 and sim.N_active > sim.N:
            out.viol.append(("n-active-exceeds-n", "after step %d N_active=%d > N=%d" % (step, sim.N_active, sim.N), dict(cfg=cfg, step=step)))
        if probe is not None and probe["errors"]:
            e = probe["errors"][0]
            k = N4 if integ == "ias15" else "tree-in-use-stale"
            out.viol.append((k, "step %d: when the gravity routine used the tree (additional_forces call %d of the step) %s" % (step, e[0], e[1]),
                             dict(cfg=cfg, step=step)))
            probe["errors"].clear()
            if k != N4:
                break
        out.inc("steps")
        if cfg.get("face") and not out.notes.get("f18_seen") and any(f18_class(cfg, p) for p in after):
            out.notes["f18_seen"] = True
        if near_refused(ms):
            out.inc("near_coincident_refused")
            break
        for kind, text in ms:
            if kind == "e":
                k = "step-error"
                if "outside of box boundaries" in text and cfg["resolve"] == "merge" and cfg["collision"] in ("tree", "linetree"):
                    # signature of C15-N7: every particle that vanished in this step sat exactly on a box face
                    gone = [before[h] for h in before if h not in {q["h"] for q in after}]
                    if gone and all(any(abs(g[a]) == L[a] / 2. for a in "xyz") for g in gone):
                        k = N7     # merge product rounded one ulp outside the box, re-inserted without a wrap
                out.viol.append((k, "step %d reported: %s" % (step, text), dict(cfg=cfg, step=step)))
        # ---- bare step boundary: flags, box membership, identity
        flagged = [i for i, p in enumerate(after) if not p["y"] == p["y"]]
        if flagged:
            k = F17 if (cfg["resolve"] in ("merge", "callback") and cfg["collision"] in ("tree", "linetree")) else "flagged-particle-at-step-boundary"
            if not any(v[0] == k for v in out.viol):
                out.viol.append((k, "after step %d particle(s) %s flagged for removal (y=NaN) are still in the particle array (N=%d)"
                                 % (step, flagged[:5], len(after)), dict(cfg=cfg, step=step)))
            out.inc("f17_observed")
        # every entry of the array counts (a NaN placeholder left behind would count its mass twice)
        if cfg["collision"] != "none" and cfg["resolve"] in ("merge", "hardsphere") and cfg["boundary"] in ("periodic", "shear") \
                and not any(op[0] == step for op in cfg.get("userops", [])):
            m0 = math.fsum(p["m"] for p in before.values())
            m1 = math.fsum(p["m"] for p in after)
            if not abs(m1 - m0) <= 1e-12 * max(abs(m0), 1e-300):
                out.viol.append(("mass-not-conserved", "step %d: total mass of the particle array changed from %r to %r (N %d -> %d) under %s "
                                 "boundaries with resolver %s" % (step, m0, m1, len(before), len(after), cfg["boundary"], cfg["resolve"]),
                                 dict(cfg=cfg, step=step)))
        live = [p for p in after if p["y"] == p["y"]]
        merging_cfg = cfg["collision"] != "none" and cfg["resolve"] in ("merge", "callback")
        hs = [p["h"] for p in after]
        if len(set(hs)) != len(hs):
            out.viol.append(("duplicate-particle", "after step %d a particle appears twice in the array" % step, dict(cfg=cfg, step=step)))
        if cfg["boundary"] in ("periodic", "shear", "open"):
            # a merge product is the mass-weighted mean of two in-box positions, computed after the boundary check:
            # on a face it can round one ulp outside (wrapped by the next step's boundary check) — tolerated
            outp = [p["h"] for p in live if not inside_box(cfg, p, 1e-14 if merging_cfg else 0.0)]
            if outp:
                out.viol.append(("outside-after-step", "after step %d particle(s) with hash %s lie outside the box (boundary %s)"
                                 % (step, outp[:5], cfg["boundary"]), dict(cfg=cfg, step=step)))
        merging = cfg["collision"] != "none" and cfg["resolve"] in ("merge", "callback")
        if cfg["boundary"] in ("periodic", "shear") and not merging:
            if sorted(hs) != sorted(before):
                lost = sorted(set(before) - set(hs))
                out.viol.append(("count-changed", "after step %d the set of particles changed under %s boundaries (lost hashes %s, N %d -> %d)"
                                 % (step, cfg["boundary"], lost[:5], len(before), len(after)), dict(cfg=cfg, step=step)))
        if free_flight and cfg["boundary"] in ("periodic", "open"):
            # straight-line shadow in exact rational arithmetic
            for h, p0 in before.items():
                tgt = {a: Fraction(p0[a]) + Fraction(p0["v" + a]) * Fraction(dt) for a in "xyz"}
                margin = {a: Fraction(L[a]) * Fraction(1, 10 ** 9) + abs(tgt[a]) * Fraction(1, 10 ** 12) for a in "xyz"}
                surely_in = all(abs(tgt[a]) < Fraction(L[a]) / 2 - margin[a] for a in "xyz")
                surely_out = any(abs(tgt[a]) > Fraction(L[a]) / 2 + margin[a] for a in "xyz")
                now = [p for p in after if p["h"] == h]
                if cfg["boundary"] == "open":
                    if surely_in and not now:
                        out.viol.append(("open-removed-inside", "step %d: particle %d stayed inside the box but was removed" % (step, h), dict(cfg=cfg, step=step)))
                    if surely_out and now:
                        out.viol.append(("open-kept-outside", "step %d: particle %d left the box but was not removed" % (step, h), dict(cfg=cfg, step=step)))
                    if surely_out:
                        removed_total += 1
                if now:
                    for a in "xyz":
                        dlt = (tgt[a] - Fraction(now[0][a])) / Fraction(L[a])
                        kq = round(dlt)
                        if cfg["boundary"] == "open" and surely_in:
                            kq = 0
                        if abs(dlt - kq) > Fraction(1, 10 ** 9) * (1 + abs(kq)):
                            out.viol.append(("not-whole-box-lengths", "step %d: %s of particle %d moved to %r, not x+v*dt modulo the box length"
                                             % (step, a, h, now[0][a]), dict(cfg=cfg, step=step)))
                        if kq != 0:
                            crossings += 1
        # ---- the tree where it is in use: right after an update
        if tree_on and step % cfg["upd_every"] == 0:
            # exactly what reb_simulation_step does before the tree is used (rebound.c:101-110)
            _clib.reb_boundary_check(ctypes.byref(sim))
            _clib.reb_simulation_update_tree(ctypes.byref(sim))
            ums = messages(sim)
            if near_refused(ums):
                out.inc("near_coincident_refused")
                break
            for kind, text in ums:
                if kind == "e":
                    out.viol.append(("update-error", "tree update after step %d reported: %s" % (step, text), dict(cfg=cfg, step=step)))
            if sim.N > 0:
                want = model_budget[0] > 0 and (step % 7 == 3 or step == cfg["steps"])
                evaluate_tree(cfg, sim, out, "after step %d + tree update" % step, want, step)
                if want:
                    model_budget[0] -= 1
        if any(v[0] not in (F17, N4) for v in out.viol):
            break
        if sim.N == 0:
            break
    out.inc("particles_removed_open", removed_total)
    out.inc("box_crossings", crossings)
    out.evals.append((key, sim.N))


# ----------------------------------------------------------------------------- direct boundary_check cases
def gen_far(rng, cfg):
    """positions up to ~25 box lengths outside, some inside; in `face` configurations also on faces"""
    rs, nx, ny, nz = box_of(cfg)
    rows = []
    seen = set()
    while len(rows) < len(cfg["parts"]):
        row = []
        for b in (rs * nx, rs * ny, rs * nz):
            mode = rng.randint(0, 8)
            if mode <= 3:
                v = rng.uniform(-b / 2, b / 2)
            elif mode <= 6:
                v = rng.uniform(-3 * b, 3 * b)
            elif mode == 7:
                v = rng.uniform(-25 * b, 25 * b)
            else:
                v = rng.normal() * b
            row.append(v)
        if rng.chance(0.02):
            a = rng.randint(0, 2)
            row[a] = rng.uniform(-3e4, 3e4) * rs * (nx, ny, nz)[a]      # |x| >> L: tens of thousands of wraps
        if cfg["face"] and rng.chance(0.3):
            a = rng.randint(0, 2)
            b = rs * (nx, ny, nz)[a]
            row[a] = rng.choice([b / 2, -b / 2, 1.5 * b, -1.5 * b, 2.5 * b, math.nextafter(b / 2, 2 * b), math.nextafter(-b / 2, -2 * b), 0.0, b])
        if tuple(row) in seen:
            continue
        seen.add(tuple(row))
        row += [rng.normal(), rng.normal(), rng.normal()]
        rows.append(row)
    return rows


def run_boundary(cfg, rows, out, with_tree):
    """reb_boundary_check called directly on displaced particles: model (bitwise) + exact oracle"""
    rs, nx, ny, nz = box_of(cfg)
    Ls = [rs * nx, rs * ny, rs * nz]
    sim = make_sim(cfg, tree=with_tree)
    if add_parts(sim, cfg):
        # a particle was refused (coincident / too close to separate): it is appended to the array but not to the tree, with a
        # NULL cell pointer that a later swap dereferences — the code said so with an error; outside the hypothesis
        out.inc("configs_rejected_at_add")
        return
    n = sim.N
    if n != len(rows):
        out.inc("boundary_skipped_add_failed")
        return
    set_parts(sim, rows)
    _clib.reb_boundary_check(ctypes.byref(sim))
    after = get_parts(sim)
    if cfg.get("face") and any(f18_class(cfg, p) for p in after):
        out.notes["f18_seen"] = True
    bnd = cfg["boundary"]
    out.inc("boundary_calls")
    out.inc("dim:boundary_direct:" + bnd + ("+tree" if with_tree else ""))
    if bnd == "shear":
        t0v = h2d(cfg["t0"])
        out.inc("dim:time:shear_t<0" if t0v < 0 else "dim:time:shear_t>=0")
        if abs(t0v) > 1e3:
            out.inc("dim:time:shear_|t|_huge")
    if len({nx, ny, nz}) > 1:
        out.inc("dim:geometry:nonsquare_root_layout")
    if cfg.get("face"):
        out.inc("dim:geometry:particles_on_faces")
    key = (bnd, nx, ny, nz, with_tree)
    rep = dict(cfg=cfg, rows=[[d2h(v) for v in r] for r in rows], with_tree=with_tree)
    hx3 = [cfg["rs"]]
    bxs = [d2h(v) for v in Ls]
    if bnd in ("periodic", "shear"):
        if len(after) != n:
            out.viol.append(("count-changed", "reb_boundary_check changed N from %d to %d under %s boundaries" % (n, len(after), bnd), rep))
            return
        omega, t = h2d(cfg["omega"]), h2d(cfg["t0"])
        for i, (r0, p) in enumerate(zip(rows, after)):
            ks = []
            for a, (nm, L) in enumerate(zip("xyz", Ls)):
                v = p[nm]
                if not (-L / 2. <= v <= L / 2.):
                    out.viol.append(("outside-after-wrap", "%s=%r of particle %d is outside [-L/2,L/2], L=%r (from %r)" % (nm, v, i, L, r0[a]), rep))
                inside0 = -L / 2. <= r0[a] <= L / 2.
                if bnd == "shear" and nm == "y":
                    ks.append(None)
                    continue
                q = (Fraction(r0[a]) - Fraction(v)) / Fraction(L)
                kq = round(q)
                ks.append(kq)
                if inside0 and v != r0[a]:
                    out.viol.append(("moved-inside-particle", "%s=%r was inside the box but was changed to %r" % (nm, r0[a], v), rep))
                if abs(q - kq) > Fraction(1, 10 ** 12) * (1 + abs(kq)) + Fraction(4, 10 ** 16) * kq * kq:
                    out.viol.append(("not-whole-box-lengths", "%s of particle %d: %r -> %r is not a whole number of box lengths %r" % (nm, i, r0[a], v, L), rep))
                if kq != 0:
                    out.inc("wraps", abs(kq))
            if bnd == "shear":
                kx = ks[0]
                dv = Fraction(3, 2) * Fraction(omega) * Fraction(Ls[0])
                if abs(Fraction(p["vy"]) - (Fraction(r0[4]) + kx * dv)) > Fraction(1, 10 ** 12) * (abs(kx * dv) + abs(Fraction(r0[4])) + 1):
                    out.viol.append(("shear-vy", "vy of particle %d changed by %r for %d radial wraps (3/2 OMEGA Lx = %r)" % (i, p["vy"] - r0[4], kx, float(dv)), rep))
                sh = kx * dv * Fraction(t)
                q = (Fraction(r0[1]) + sh - Fraction(p["y"])) / Fraction(Ls[1])
                tol = Fraction(1, 10 ** 9) * (1 + abs(sh) / Fraction(Ls[1]) + abs(q))
                if abs(q - round(q)) > tol:
                    out.viol.append(("shear-y", "y of particle %d: %r -> %r is not y + k*(3/2 OMEGA Lx t) modulo Ly" % (i, r0[1], p["y"]), rep))
            elif any(abs(p["v" + a] - r0[3 + j]) != 0 for j, a in enumerate("xyz")):
                out.viol.append(("velocity-changed", "periodic wrap changed a velocity", rep))
        # model line
        kk = [max(int(abs(r[a]) / Ls[a]) for r in rows) for a in range(3)]
        fuel = max(kk[0], kk[1] + 4 * kk[0], kk[2]) + 8
        if max(kk) > 100:
            out.inc("dim:geometry:far_wraps(|x|>100L)")
        if bnd == "periodic":
            line = " ".join(["periodic"] + bxs + [str(fuel)] + [d2h(v) for r in rows for v in r[:3]])
            exp = "ok " + " ".join(d2h(p[a]) for p in after for a in "xyz")
        else:
            line = " ".join(["shear", cfg["omega"], cfg["t0"]] + bxs + [str(fuel)] + [d2h(v) for r in rows for v in (r[0], r[1], r[2], r[4])])
            exp = "ok " + " ".join(d2h(p[a]) for p in after for a in ("x", "y", "z", "vy"))
        out.lines.append((line, exp, dict(where="reb_boundary_check " + bnd, N=n, exact=True)))
    elif bnd == "open":
        ins = [i for i, r0 in enumerate(rows) if all(-L / 2. <= r0[a] <= L / 2. for a, L in enumerate(Ls))]
        if with_tree:
            # particles are only flagged; the next tree update removes them
            flagged = [i for i, p in enumerate(after) if not p["y"] == p["y"]]
            if n > 1 and (len(after) != n or sorted(set(range(n)) - set(flagged)) != ins):
                out.viol.append(("open-tree-mark", "open boundary with a tree: flagged %s, outside were %s" % (flagged[:8], sorted(set(range(n)) - set(ins))[:8]), rep))
            line = " ".join(["openmark"] + bxs + [d2h(v) for r in rows for v in r[:3]])
            exp = "ok " + " ".join(d2h(p[a]) for p in after for a in "xyz")
            out.lines.append((line, exp, dict(where="reb_boundary_check open (tree: mark)", N=n, exact=True)))
            _clib.reb_simulation_update_tree(ctypes.byref(sim))
            after = get_parts(sim)
        surv = sorted(p["h"] - 1 for p in after)
        if surv != ins:
            out.viol.append(("open-survivors", "open boundary: survivors %s but the particles inside the box were %s" % (surv[:10], ins[:10]), rep))
        for p in after:
            r0 = rows[p["h"] - 1]
            if (p["x"], p["y"], p["z"]) != tuple(r0[:3]):
                out.viol.append(("open-moved", "open boundary changed the coordinates of a surviving particle", rep))
        out.inc("open_removed", n - len(ins))
        if not with_tree:
            line = " ".join(["opensorted" if sim.track_energy_offset else "open"] + bxs + [d2h(v) for r in rows for v in r[:3]])
            out.inc("open_sorted_calls" if sim.track_energy_offset else "open_unsorted_calls")
            exp = "ok " + " ".join(str(p["h"] - 1) for p in after)
            out.lines.append((line.strip(), exp.strip(), dict(where="reb_boundary_check open (order of survivors)", N=n, exact=True)))
    if with_tree and bnd in ("periodic", "shear"):
        # far-displaced particles all get re-inserted during one update walk
        _clib.reb_simulation_update_tree(ctypes.byref(sim))
        ms = messages(sim)
        if near_refused(ms):
            out.inc("near_coincident_refused")
            return
        for kind, text in ms:
            if kind == "e":
                out.viol.append(("update-error", "tree update after wrap reported: %s" % text, rep))
        if sim.N != n:
            out.viol.append(("count-changed", "tree update after a %s wrap changed N from %d to %d" % (bnd, n, sim.N), rep))
        elif sim.N > 0:
            evaluate_tree(cfg, sim, out, "after wrap of displaced particles + tree update", True, 0)
    elif with_tree and bnd == "open" and sim.N > 0:
        evaluate_tree(cfg, sim, out, "after open-boundary removal + tree update", True, 0)
    out.evals.append((key, n))


# ----------------------------------------------------------------------------- update walk: array order + forest
def run_scramble(cfg, out):
    """rounds of: overwrite positions (stay / move a little / jump / flag y=NaN / leave the box), call
    reb_simulation_update_tree alone, compare the new ORDER of the particle array (hashes) and the tree with the model
    of the walk (swap-with-last renumbering, re-insertion after the walk), and assert the statement itself"""
    rng = SplitMix(cfg["seed"] ^ 0x5bd1e995)
    rs, nx, ny, nz = box_of(cfg)
    Ls = [rs * nx, rs * ny, rs * nz]
    sim = make_sim(cfg)
    if add_parts(sim, cfg):
        out.inc("configs_rejected_at_add")
        return
    key = ("scramble", cfg["boundary"], nx, ny, nz, min(sim.N, 50))
    for rnd in range(cfg.get("rounds", 3)):
        pre = get_parts(sim)
        n = len(pre)
        if n == 0:
            break
        rows = []
        kinds = {}
        for p in pre:
            u = rng.uniform()
            row = [p["x"], p["y"], p["z"], p["vx"], p["vy"], p["vz"]]
            if u < 0.3:
                k = "stay"
            elif u < 0.6:
                k = "move"
                for a in range(3):
                    v = row[a] + rng.normal() * rs * 10 ** (-rng.uniform(0, 3))
                    if abs(v) < Ls[a] / 2 * (1 - 1e-9):
                        row[a] = v
            elif u < 0.85:
                k = "jump"
                for a in range(3):
                    row[a] = rng.uniform(-Ls[a] / 2, Ls[a] / 2) * (1 - 1e-9)
            elif u < 0.95:
                k = "flag"
                row[1] = float("nan")
                if rng.chance(0.5):
                    row[0] = rng.uniform(-2 * Ls[0], 2 * Ls[0])
            else:
                k = "out"
                a = rng.randint(0, 2)
                row[a] = rng.choice([-1, 1]) * Ls[a] * rng.uniform(0.51, 3.0)
            if k != "flag" and any(axis_misfiled(row[a], Ls[a], rs, (nx, ny, nz)[a]) for a in range(3) if abs(row[a]) <= Ls[a] / 2):
                row = [p["x"], p["y"], p["z"], p["vx"], p["vy"], p["vz"]]
                k = "stay"
            kinds[k] = kinds.get(k, 0) + 1
            rows.append(row)
        set_parts(sim, rows)
        _clib.reb_simulation_update_tree(ctypes.byref(sim))
        ms = messages(sim)
        n_out = kinds.get("out", 0)
        if near_refused(ms):
            out.inc("near_coincident_refused")
            return
        bad = [t for kk, t in ms if kk == "e" and "outside of box" not in t and "outside of simulation box" not in t]
        rep = dict(cfg=cfg, round=rnd, rows=[[d2h(v) for v in r] for r in rows])
        if bad:
            out.viol.append(("update-error", "reb_simulation_update_tree reported: %s" % bad[0], rep))
            return
        post = get_parts(sim)
        out.inc("update_walk_calls")
        out.inc("dim:update_walk:scramble")
        for kk, v in kinds.items():
            out.inc("scramble_" + kk, v)
        # ---- the statement: exactly the non-flagged in-box particles remain, each once, coordinates untouched
        want = sorted(p["h"] for p, r in zip(pre, rows) if r[1] == r[1] and all(abs(r[a]) <= Ls[a] / 2 for a in range(3)))
        got = sorted(p["h"] for p in post)
        if got != want:
            out.viol.append(("update-lost-particle", "tree update: particles with hash %s should remain (not flagged, inside the box) but %s do"
                             % (want[:12], got[:12]), rep))
            return
        byh = {p["h"]: r for p, r in zip(pre, rows)}
        for p in post:
            r = byh[p["h"]]
            if (p["x"], p["y"], p["z"]) != (r[0], r[1], r[2]):
                out.viol.append(("update-moved-particle", "tree update changed the coordinates of particle %d" % p["h"], rep))
                return
        if sim.N > 0:
            evaluate_tree(cfg, sim, out, "after scramble round %d + tree update" % rnd, False, rnd)
            if out.viol:
                return
            _clib.reb_simulation_update_tree_gravity_data(ctypes.byref(sim))
            cells = get_dump(sim)
        else:
            cells = []
        # ---- model: same walk on (array, forest)
        idx = {p["h"]: i for i, p in enumerate(pre)}
        toks = ["update", ROOT_RULE[0], cfg["rs"], str(nx), str(ny), str(nz), str(FUEL_TREE), str(n)]
        for p, r in zip(pre, rows):
            toks += [d2h(p["x"]), d2h(p["y"]), d2h(p["z"]), d2h(r[0]), d2h(r[1]), d2h(r[2]), d2h(p["m"])]
        exp = "ord " + " ".join(str(idx[p["h"]]) for p in post) + " " + dump_str(cells)
        out.lines.append((" ".join(toks), " ".join(exp.split()), dict(where="update walk: array order + forest", N=n, exact=True)))
    out.evals.append((key, len(cfg["parts"])))


# ----------------------------------------------------------------------------- probes of unsupported corners
def run_probe(job, out):
    what = job["probe"]
    out.inc("dim:probe:" + what)
    sim = _rebound.Simulation()
    sim.configure_box(3.0, 2, 1, 1)
    sim.integrator = "leapfrog"
    sim.dt = 0.01
    if what in ("x=+inf periodic", "x=-inf shear"):
        # a non-finite coordinate: `while (x > L/2) x -= L` never ends.  Expected: the parent sees a hang.
        sim.boundary = "periodic" if "periodic" in what else "shear"
        sim.add(m=1., x=0.1, y=0.2, z=0.3)
        sim.add(m=1., x=-0.1, y=-0.2, z=0.3)
        set_parts(sim, [[float("inf") if "+inf" in what else float("-inf"), 0.2, 0.3, 0, 0, 0], [-0.1, -0.2, 0.3, 0, 0, 0]])
        _clib.reb_boundary_check(ctypes.byref(sim))
        p = get_parts(sim)[0]
        if not inside_box(dict(rs=d2h(3.0), nx=2, ny=1, nz=1), p):
            out.viol.append(("nonfinite-left-outside", "reb_boundary_check returned with x=%r outside the box" % p["x"], job))
    elif what == "x=nan periodic":
        sim.boundary = "periodic"
        sim.gravity = "tree"
        sim.add(m=1., x=0.1, y=0.2, z=0.3)
        sim.add(m=1., x=-0.1, y=-0.2, z=0.3)
        set_parts(sim, [[float("nan"), 0.2, 0.3, 0, 0, 0], [-0.1, -0.2, 0.3, 0, 0, 0]])
        _clib.reb_boundary_check(ctypes.byref(sim))
        _clib.reb_simulation_update_tree(ctypes.byref(sim))
        out.notes["nan_x"] = "N=%d leaves=%s" % (sim.N, [I[3] for D, I in (get_dump(sim) or []) if I[3] >= 0])
    elif what == "whfast+open+tree":
        # the mid-step tree update removes / reorders particles while WHFast holds Jacobi coordinates indexed by the old order
        sim = _rebound.Simulation()
        sim.configure_box(10.0)
        sim.integrator = "whfast"
        sim.dt = 0.1
        sim.boundary = "open"
        sim.gravity = "tree"
        sim.add(m=1., x=0.1, y=0.2, z=0.3)
        sim.add(m=1e-3, x=1., y=0., z=0.1, vy=1.)
        sim.add(m=1e-3, x=4.9, y=0.5, z=0.2, vx=30.)
        _clib.reb_simulation_step(ctypes.byref(sim))
        ps = get_parts(sim)
        if len(ps) != 2 or any(not (p["x"] == p["x"] and p["y"] == p["y"]) for p in ps):
            out.viol.append((N6, "WHFast with tree gravity and an open boundary: after the step in which one particle left the box "
                             "N=%d, x=%s" % (len(ps), [p["x"] for p in ps]), job))
    elif what == "refused add + tree update":
        # a coincident particle is refused with an error — but it must then not stay in the array with a NULL cell pointer
        sim = _rebound.Simulation()
        sim.configure_box(4.0)
        sim.gravity = "tree"
        sim.boundary = "periodic"
        sim.integrator = "leapfrog"
        sim.dt = 0.01
        P = _rebound.Particle
        for x in (0.5, -0.5, 0.5):
            p = P(); p.x, p.y, p.z, p.m = x, 0.5, 0.5, 1.0
            _clib.reb_simulation_add(ctypes.byref(sim), p)
        refused = any("same coordinates" in t for _, t in messages(sim))
        leaves = sorted(I[3] for D, I in (get_dump(sim) or []) if I[3] >= 0)
        if refused and sim.N != len(leaves):
            out.notes["n9_state"] = "N=%d leaves=%s" % (sim.N, leaves)
            with open(_marker[0], "w") as f:
                f.write("refused-particle-in-array")
        set_parts(sim, [[-1.5, 0.5, 0.5, 0, 0, 0]])
        _clib.reb_simulation_update_tree(ctypes.byref(sim))       # dereferences the NULL cell pointer of the refused particle
        if os.path.exists(_marker[0]):
            os.remove(_marker[0])
        if refused and sim.N != len([1 for D, I in (get_dump(sim) or []) if I[3] >= 0]):
            out.viol.append((N9, "a refused particle stays in the particle array outside the tree (N=%d)" % sim.N, job))
    elif what == "variational+collision tree":
        # variational particles are not particles: they must not be put into the tree
        sim.gravity = "basic"
        sim.collision = "tree"
        sim.add(m=1., x=0.6, y=0.5, z=0.3, r=0.05)
        sim.add(m=1e-3, x=-1.0, y=-0.5, z=0.2, r=0.05)
        sim.add(m=1e-3, x=-0.4, y=0.7, z=-0.2, r=0.05)
        _clib.reb_simulation_add_variation_1st_order.restype = ctypes.c_int
        _clib.reb_simulation_add_variation_1st_order(ctypes.byref(sim), ctypes.c_int(-1))
        ms = messages(sim)
        nreal = sim.N - sim.N_var
        leaves = sorted(I[3] for D, I in (get_dump(sim) or []) if I[3] >= 0)
        if leaves != list(range(nreal)) or any(k == "e" for k, _ in ms):
            out.viol.append((N3, "after add_variation (N=%d, N_var=%d) the leaves of the tree hold the indices %s instead of the %d real "
                             "particles%s" % (sim.N, sim.N_var, leaves, nreal, ("; reported: " + ms[0][1]) if ms else ""), job))
    out.evals.append((("probe", what), 2))


# ----------------------------------------------------------------------------- public entry points
C_ENTRY = ["reb_simulation_configure_box", "reb_simulation_add", "reb_simulation_remove_particle",
           "reb_simulation_remove_particle_by_hash", "reb_simulation_remove_all_particles", "reb_simulation_update_tree",
           "reb_simulation_step", "reb_simulation_steps", "reb_simulation_integrate", "reb_simulation_move_to_com",
           "reb_simulation_move_to_hel", "reb_simulation_copy", "reb_simulation_save_to_file",
           "reb_simulation_create_from_file", "reb_simulation_free"]
PY_ENTRY = ["configure_box", "add", "remove", "update_tree", "step", "steps", "integrate", "move_to_com", "move_to_hel",
            "copy", "save_to_file", "boundary", "gravity", "collision", "collision_resolve", "N_active", "root_size",
            "N_root_x", "N_root_y", "N_root_z", "boxsize", "opening_angle2"]


def extract_entry_points(d):
    """public C functions (DLLEXPORT prototypes of rebound.h) and Python methods/attributes that reach boundary.c / tree.c.
    Returns (c_names present, names that look related but are not in the list, python names present)."""
    import re
    h = open(os.path.join(d, "src", "rebound.h")).read()
    names = set(re.findall(r"^DLLEXPORT[^;(]*?\b(reb_\w+)\s*\(", h, flags=re.M))
    present = [n for n in C_ENTRY if n in names]
    related = sorted(n for n in names if re.search(r"tree|_box|boundary|rootbox", n) and n not in C_ENTRY
                     and not re.search(r"display|server|vertex", n))
    py = [n for n in PY_ENTRY if hasattr(_rebound.Simulation, n)]
    return present, related, py


def run_entry(job, out):
    """every public entry point once, on a small simulation with tree gravity, tree collisions, periodic box, 2x1x1 root
    boxes and a centre of mass away from the origin; the tree oracle after each call"""
    used = []
    cfg = dict(rs=d2h(4.0), nx=2, ny=1, nz=1, boundary="periodic", gravity="tree", collision="tree", face=False)
    rng = SplitMix(job["seed"])

    def oracle(sim, tag, update):
        if update:
            _clib.reb_boundary_check(ctypes.byref(sim))
            _clib.reb_simulation_update_tree(ctypes.byref(sim))
        ms = [t for k, t in messages(sim) if k == "e"]
        if ms:
            out.viol.append(("entry-error", "%s reported: %s" % (tag, ms[0]), dict(entry=tag)))
        if sim.N == 0:
            return
        _clib.reb_simulation_update_tree_gravity_data(ctypes.byref(sim))
        parts, cells = get_parts(sim), get_dump(sim)
        errs = check_tree(cfg, cells or [], parts, True) if cells is not None else [("dump", "tree cannot be walked", [])]
        bad = [p["h"] for p in parts if not inside_box(cfg, p)]
        if errs or bad:
            out.viol.append(("entry-" + tag.split()[0], "after %s: %s" % (tag, errs[0][1] if errs else "particles %s outside the box" % bad[:5]),
                             dict(entry=tag, seed=job["seed"])))
        out.inc("entry_point_checks")

    sim = _rebound.Simulation()
    sim.configure_box(4.0, 2, 1, 1); used += ["reb_simulation_configure_box", "py:configure_box"]
    sim.integrator = "leapfrog"; sim.dt = 0.05
    sim.boundary = "periodic"; sim.gravity = "tree"; sim.collision = "tree"; sim.collision_resolve = "hardsphere"
    sim.opening_angle2 = 0.3; sim.softening = 0.05
    used += ["py:boundary", "py:gravity", "py:collision", "py:collision_resolve", "py:opening_angle2"]
    _ = (sim.root_size, sim.N_root_x, sim.N_root_y, sim.N_root_z, sim.boxsize.x)
    used += ["py:root_size", "py:N_root_x", "py:N_root_y", "py:N_root_z", "py:boxsize"]
    h = 1
    for i in range(10):                                   # Python add (keywords), centre of mass at x ~ +1.5
        sim.add(m=rng.uniform(0.1, 1.0), x=rng.uniform(0.2, 3.9), y=rng.uniform(-1.9, 1.9), z=rng.uniform(-1.9, 1.9),
                vx=rng.normal(), vy=rng.normal(), vz=rng.normal(), r=0.01, hash=h); h += 1
    used.append("py:add")
    p = _rebound.Particle(m=0.5, x=-3.0, y=0.5, z=-0.5, vx=0.3, r=0.01); p.hash = h; h += 1
    _clib.reb_simulation_add(ctypes.byref(sim), p); used.append("reb_simulation_add")
    oracle(sim, "add", False)
    sim.N_active = 8; used.append("py:N_active")
    sim.step(); used += ["reb_simulation_step", "py:step"]; oracle(sim, "step", True)
    sim.steps(3); used += ["reb_simulation_steps", "py:steps"]; oracle(sim, "steps", True)
    sim.integrate(sim.t + 0.12); used += ["reb_simulation_integrate", "py:integrate"]; oracle(sim, "integrate", True)
    sim.move_to_com(); used += ["reb_simulation_move_to_com", "py:move_to_com"]; oracle(sim, "move_to_com", False)
    sim.move_to_hel(); used += ["reb_simulation_move_to_hel", "py:move_to_hel"]; oracle(sim, "move_to_hel + wrap + update", True)
    sim.update_tree(); used += ["reb_simulation_update_tree", "py:update_tree"]; oracle(sim, "update_tree", False)
    n0 = sim.N
    sim.remove(index=3, keep_sorted=False); used += ["reb_simulation_remove_particle", "py:remove"]
    other = get_parts(sim)[5]["h"]                 # a different particle (the array order has changed by now)
    sim.remove(hash=ctypes.c_uint32(other), keep_sorted=False); used.append("reb_simulation_remove_particle_by_hash")
    oracle(sim, "remove (index, hash) + update", True)
    if sim.N != n0 - 2:
        out.viol.append(("entry-remove", "two removals on a simulation with a tree left N=%d (was %d)" % (sim.N, n0), dict(entry="remove")))
    s2 = sim.copy(); used += ["reb_simulation_copy", "py:copy"]; oracle(s2, "copy", False)
    fd, fn = tempfile.mkstemp(prefix="c15e.", suffix=".bin", dir=os.environ.get("VERIF_TMP", "/tmp")); os.close(fd)
    try:
        sim.save_to_file(fn, delete_file=True); used += ["reb_simulation_save_to_file", "py:save_to_file"]
        s3 = _rebound.Simulation(fn); used.append("reb_simulation_create_from_file")
        oracle(s3, "Simulation(filename)", False)
        s3.step(); oracle(s3, "step after reload", True)
    finally:
        if os.path.exists(fn):
            os.remove(fn)
    _clib.reb_simulation_remove_all_particles(ctypes.byref(s2)); used.append("reb_simulation_remove_all_particles")
    if s2.N != 0 or get_dump(s2):
        out.viol.append(("entry-remove_all", "remove_all_particles left N=%d or a tree" % s2.N, dict(entry="remove_all")))
    s2.add(m=1., x=0.3, y=0.2, z=0.1); s2.add(m=1., x=-0.3, y=0.2, z=0.1)
    oracle(s2, "add after remove_all_particles", False)
    del s2, s3; used.append("reb_simulation_free")
    out.notes["entry_used"] = used
    out.evals.append((("entry",), 10))


# ----------------------------------------------------------------------------- forked workers
_marker = [None]


def worker(job, path):
    out = Out()
    _marker[0] = path + ".marker"
    try:
        kind = job["kind"]
        if kind == "sim":
            run_sim(job["cfg"], out, [job.get("model_budget", 2)])
        elif kind == "boundary":
            rows = [[h2d(v) for v in r] for r in job["rows"]]
            run_boundary(job["cfg"], rows, out, job["with_tree"])
        elif kind == "fresh":
            run_fresh(job["cfg"], out)
        elif kind == "scramble":
            run_scramble(job["cfg"], out)
        elif kind == "probe":
            run_probe(job, out)
        elif kind == "entry":
            run_entry(job, out)
    except Exception as e:   # python-level failure inside the worker = infrastructure
        import traceback
        out.notes["exception"] = traceback.format_exc()[-1500:]
    if out.notes.get("flagged_restart"):
        # F17 state copied / reloaded: the flagged particle is put back into the tree with a root-box index computed
        # from NaN (crash, or a write outside tree_root and a particle left in no leaf)
        sym = ("tree-", "step-error", "update-error", "duplicate-particle", "walk-theta0", "flagged-particle", "count-changed", "outside-after-step")
        out.viol = [((F17R if k.startswith(sym) else k), w, r) for k, w, r in out.viol]
    if job.get("cfg", {}).get("face") and out.notes.get("f18_seen"):
        # once a particle sits in a cell that does not contain it the next update can damage tree and heap
        # (known finding C15-N1): everything but F17 observed in such a run is attributed to it
        # (tree / particle-array symptoms only; the boundary oracles keep their own keys)
        sym = ("tree-", "step-error", "update-error", "duplicate-particle", "walk-theta0", "flagged-particle")
        arr = ("count-changed",) if job["kind"] == "sim" else \
            (("count-changed", "open-survivors", "open-moved") if job.get("with_tree") else ())   # read after the damaged update
        out.viol = [((F18 if (k.startswith(sym) or k in arr) else k), w, r) for k, w, r in out.viol]
    with open(path, "w") as f:
        json.dump(dict(viol=out.viol, lines=out.lines, counts=out.counts, evals=out.evals, notes=out.notes), f)


def run_fresh(cfg, out):
    """freshly constructed tree: dump must equal the model's (before and after the gravity data update)"""
    sim = make_sim(cfg)
    addmsgs = add_parts(sim, cfg)
    parts = get_parts(sim)
    if cfg.get("face") and any(f18_class(cfg, p) for p in parts):
        out.notes["f18_seen"] = True
    nearly = [i for i, ms in addmsgs if near_refused(ms)]
    coincident = [i for i, ms in addmsgs if any("same coordinates" in t for _, t in ms) and not near_refused(ms)]
    other = [(i, ms) for i, ms in addmsgs if not any("same coordinates" in t for _, t in ms)]
    if nearly and (not coincident or nearly[0] < coincident[0]):
        # refused because refinement would not end; the model (no such rule) runs out of fuel on the same particle
        line = model_line(cfg, [dict(x=h2d(r[0]), y=h2d(r[1]), z=h2d(r[2]), m=h2d(r[6])) for r in cfg["parts"]], False)
        out.lines.append((line, "err fuel %d" % nearly[0], dict(where="near-coincident add refused (model: fuel exhausted)", N=len(parts), exact=True)))
        out.inc("near_coincident_refused")
        return
    key = ("fresh", cfg["nx"], cfg["ny"], cfg["nz"], cfg["posmode"], min(len(parts), 50))
    if other:
        out.viol.append(("add-error", "adding an in-box particle reported: %s" % other[0][1][0][1], dict(cfg=cfg)))
        return
    if coincident:
        # the code refuses (with an error) a particle at the position of an earlier one; model: Err.coincident
        line = model_line(cfg, [dict(x=h2d(r[0]), y=h2d(r[1]), z=h2d(r[2]), m=h2d(r[6])) for r in cfg["parts"]], False)
        out.lines.append((line, "err coincident %d" % coincident[0], dict(where="coincident add", N=len(parts), exact=True)))
        out.inc("coincident_cases")
        out.evals.append((key + ("coincident",), len(parts)))
        return
    cells = get_dump(sim)
    if cells is None:
        out.viol.append(("tree-walk", "fresh tree cannot be walked", dict(cfg=cfg)))
        return
    out.lines.append((model_line(cfg, parts, False), dump_str(cells), dict(where="fresh tree", N=len(parts), exact=True)))
    errs = check_tree(cfg, cells, parts, False)
    _clib.reb_simulation_update_tree_gravity_data(ctypes.byref(sim))
    cells = get_dump(sim)
    out.lines.append((model_line(cfg, parts, True), dump_str(cells), dict(where="fresh tree + gravity data", N=len(parts), exact=True)))
    errs += check_tree(cfg, cells, parts, True)
    out.inc("tree_evaluations", 2)
    out.inc("cells_checked", 2 * len(cells))
    out.inc("max_depth", 0)
    out.notes["depth"] = max([I[1] for _, I in cells] + [0])
    if errs:
        culprits = [q for e in errs for q in e[2]]
        is18 = bool(culprits) and all(f18_class(cfg, parts[q]) for q in culprits)
        out.viol.append((F18 if is18 else "tree-" + errs[0][0], "freshly built tree: " + errs[0][1],
                         dict(cfg=cfg, errors=[e[1] for e in errs[:5]])))
    out.evals.append((key, len(parts)))


def run_jobs(c, jobs, par=4, timeout=120):
    """each job in its own forked process: a crash or hang of the real code is a failing input"""
    results = [None] * len(jobs)
    tmpd = tempfile.mkdtemp(prefix="c15.", dir=os.environ.get("VERIF_TMP", "/tmp"))
    running = {}
    nxt = 0
    while nxt < len(jobs) or running:
        while nxt < len(jobs) and len(running) < par:
            path = os.path.join(tmpd, "%d.json" % nxt)
            pid = os.fork()
            if pid == 0:
                try:
                    worker(jobs[nxt], path)
                finally:
                    os._exit(0)
            running[pid] = (nxt, path, time.time())
            nxt += 1
        time.sleep(0.002)
        for pid in list(running):
            j, path, t0 = running[pid]
            r, status = os.waitpid(pid, os.WNOHANG)
            if r == 0:
                if time.time() - t0 > jobs[j].get("timeout", timeout):
                    os.kill(pid, signal.SIGKILL)
                    os.waitpid(pid, 0)
                    del running[pid]
                    results[j] = dict(hang=True)
                continue
            del running[pid]
            if os.WIFSIGNALED(status) or not os.path.exists(path):
                results[j] = dict(crash=os.WTERMSIG(status) if os.WIFSIGNALED(status) else -1)
                if os.path.exists(path + ".marker"):
                    results[j]["marker"] = open(path + ".marker").read()
            else:
                with open(path) as f:
                    results[j] = json.load(f)
                os.remove(path)
    import shutil
    shutil.rmtree(tmpd, ignore_errors=True)
    return results


# ----------------------------------------------------------------------------- main
def run(c):
    d = build()
    setup(d)
    rule = read_root_rule(d)
    c.cov["root_box_index_rule_in_source"] = rule
    if rule is None:
        c.corr_break("the root-box index computation in particle.c:reb_get_rootbox_for_particle / tree.c (new root node) is "
                     "neither of the two forms the model knows (modulo wrap, clamp)")
    else:
        ROOT_RULE[0] = rule
    # ---- translator: schedule of boundary checks / tree updates in reb_simulation_step and reb_collision_search
    import extract_c15
    try:
        st_, pre_, end_ = extract_c15.extract(os.path.join(d, "src"))
        write_if_changed(os.path.join(LEAN, "RV", "Gen", "C15Schedule.lean"), extract_c15.lean_file(st_, pre_, end_))
        c.cov["schedule_calls_extracted"] = {"reb_simulation_step": len(st_), "end of reb_collision_search": len(end_)}
        names = [x[0] for x in st_]
        for need in ("reb_integrator_part1", "reb_integrator_part2", "reb_collision_search"):
            if need not in names:
                c.broken.append("schedule extraction: %s not found in reb_simulation_step" % need)
    except extract_c15.ExtractError as e:
        c.broken.append("schedule extraction failed (source no longer has a form the translator knows): %s" % e)
    ok = c.prove(["RV.Props.C15"])
    exe = lean_exe("drv_c15")
    T = c.thorough
    n_fresh = 6000 if T else 400
    n_bnd = 9000 if T else 600
    n_sim = 8000 if T else 500
    n_scr = 4000 if T else 300
    c.cov["rule"] = (
        "random boxes (root size round or arbitrary, 1-6 root boxes per axis), boundaries open/periodic/shear, tree gravity and/or "
        "tree/line-tree collisions (hard sphere or merge), N 1..600, positions uniform / clustered to 1e-9 of a root box / on dyadic cell faces / "
        "exactly on or one ulp from box faces, velocities 0.1..8 root boxes per step.  (a) fresh: real tree after adding all particles "
        "vs model, cell by cell, bitwise, before and after the gravity-data update; (b) boundary: reb_boundary_check called on particles displaced "
        "up to 25 box lengths, model bitwise + exact rational oracle, then the tree update re-inserting all of them; (c) runs of 8-60 steps (a third of them continued from sim.copy() or a saved file at a random step): after each "
        "step flags/box membership/identity/straight-line shadow, after each tree update leaf bijection, containment, counts, back pointers, mass and "
        "centre of mass, and the updated tree vs a fresh model build of the current array.  distinct_nontrivial = distinct (boundary, gravity, collision, "
        "resolve, root layout, N class) with N>=2")
    c.cov["trusted_base"] = ["Lean 4.33 kernel", "Mathlib linarith/field_simp/ring (kernel-checked)",
                             "harness/c15_dump.c (70 lines, read-only walk compiled against the scratch headers)",
                             "correspondence drv_c15 vs compiled boundary.c / tree.c on generated inputs (differential test)",
                             "ctypes Simulation layout up to the fields set by the generator (checked by C18)"]
    c.assumptions += [
        "theorems are over an ordered field; on doubles `x -= L` can be a no-op (|x| > 2^53 L): reb_boundary_check then never returns (model: fuel exhausted)",
        "insertion theorems assume pairwise distinct positions inside the root cell; the code refuses a coincident particle with an error message but still "
        "appends it to the particle array (outside the tree) — recorded, not counted as a violation",
        "the in-place update walk (re-insertion while the walk is in progress, swap-with-last renumbering) is proved only in its functional form "
        "(sweep, then re-insert); the real walk is covered by the invariant search and by the canonical-shape comparison",
        "the termination theorem is exact-arithmetic: on doubles the cell centres stall once w/4 is below their rounding unit, so particles about "
        "one ulp apart can recurse without bound (known finding C15-N2; the Float model runs out of fuel on the same input)",
        "MPI and QUADRUPOLE builds are not modelled"]

    jobs = []
    for i in range(n_fresh):
        rng = c.rng.fork()
        cfg = gen_config(rng, "fresh")
        cfg["gravity"] = "tree"
        if i % 25 == 7 and len(cfg["parts"]) >= 2:     # coincident pair
            j = rng.randint(1, len(cfg["parts"]) - 1)
            cfg["parts"][j][:3] = cfg["parts"][rng.randint(0, j - 1)][:3]
        jobs.append(dict(kind="fresh", cfg=cfg))
    for i in range(n_bnd):
        rng = c.rng.fork()
        cfg = gen_config(rng, "boundary")
        if len(cfg["parts"]) > 100:
            cfg["parts"] = cfg["parts"][:100]
        with_tree = rng.chance(0.5)
        if with_tree and cfg["gravity"] == "none" and cfg["collision"] == "none":
            cfg["gravity"] = "tree"
        rows = gen_far(rng, cfg)
        jobs.append(dict(kind="boundary", cfg=cfg, rows=[[d2h(v) for v in r] for r in rows], with_tree=with_tree))
    # ---- random runs: all-pairs covering array of FACTORS (whole array in both tiers; thorough: three arrays), the full
    #      3-way block boundary x gravity x collision x resolver (thorough: x integrator; quick: a seed-rotated third),
    #      then random admissible vectors
    fvs = []
    for rep in range(3 if T else 1):
        fvs += covering_array(c.rng.fork())
    c.cov["covering_array_rows"] = len(fvs)
    block = []
    for b in FACTORS["boundary"]:
        for g in FACTORS["gravity"]:
            for col in FACTORS["collision"]:
                for res in FACTORS["resolve"]:
                    for integ in (FACTORS["integrator"] if T else ["*"]):
                        block.append((b, g, col, res, integ))
    r3 = c.rng.fork()
    nblock = 0
    for k, (b, g, col, res, integ) in enumerate(block):
        if not T and k % 3 != c.seed % 3:
            continue
        for _ in range(200):
            fv = random_vector(r3)
            fv.update(boundary=b, gravity=g, collision=col, resolve=res)
            if integ != "*":
                fv["integrator"] = integ
            if vector_ok(fv):
                fvs.append(fv); nblock += 1
                break
    c.cov["three_way_block_rows"] = nblock
    for i in range(max(n_sim, len(fvs))):
        rng = c.rng.fork()
        cfg = gen_config(rng, "sim", fv=(fvs[i] if i < len(fvs) else None))
        if len(cfg["parts"]) > 150 and not T:
            cfg["steps"] = min(cfg["steps"], 15)
        jobs.append(dict(kind="sim", cfg=cfg, model_budget=3))
    jobs.append(dict(kind="entry", seed=c.rng.next() & 0xFFFFFF))
    for i in range(n_scr):
        rng = c.rng.fork()
        cfg = gen_config(rng, "scramble", allow_face=False)
        if cfg["gravity"] == "none" and cfg["collision"] == "none":
            cfg["gravity"] = "tree"
        if len(cfg["parts"]) > 200:
            cfg["parts"] = cfg["parts"][:200]
        cfg["rounds"] = rng.randint(1, 4)
        cfg["boundary"] = rng.choice(["periodic", "open", "shear", "none"])
        jobs.append(dict(kind="scramble", cfg=cfg))
    for what in ("x=+inf periodic", "x=-inf shear", "x=nan periodic", "variational+collision tree", "whfast+open+tree",
                 "refused add + tree update"):
        jobs.append(dict(kind="probe", probe=what, timeout=4))
    # interleave the kinds so that every batch exercises all of them
    order = list(range(len(jobs)))
    c.rng.fork().shuffle(order)
    jobs = [jobs[i] for i in order]
    c.log("running %d jobs on the real code (forked workers), model comparison per batch" % len(jobs))
    st = dict(nd=0, nbit=0, ties=0, first=None, byw={}, nlines=0, totals={}, depth=0)
    BATCH = 600
    for b0 in range(0, len(jobs), BATCH):
        batch = jobs[b0:b0 + BATCH]
        results = run_jobs(c, batch, par=8)
        lines, expect, meta = [], [], []
        for job, res in zip(batch, results):
            if res is None or res.get("notes", {}).get("exception"):
                raise Infra("worker failed: %s" % (res or {}).get("notes", {}).get("exception"))
            if res.get("crash") is not None or res.get("hang"):
                what = "the real code %s on a generated %s case" % ("crashed (signal %s)" % res.get("crash") if res.get("crash") is not None else "did not return within the time limit", job["kind"])
                if job["kind"] == "probe":
                    st["totals"]["dim:probe:" + job["probe"]] = st["totals"].get("dim:probe:" + job["probe"], 0) + 1
                    if res.get("marker") == "refused-particle-in-array":
                        c.violation(N9, "after reb_simulation_add refused a coincident particle (error message) the particle is still in the "
                                    "array with a NULL cell pointer; the next reb_simulation_update_tree that swaps it crashed", job)
                    elif res.get("hang") and "inf" in job["probe"]:
                        c.violation(N5, "reb_boundary_check does not return for a particle with %s (`while (x > L/2) x -= L` cannot make progress)" % job["probe"], job)
                    else:
                        c.violation("probe-crash", what + " (%s)" % job["probe"], job)
                    c.count(("probe", job["probe"]), nontrivial=True)
                    continue
                cf = job["cfg"]
                f18 = cf.get("face") and (job["kind"] == "boundary" or any_f18(cf))
                if os.environ.get("C15_DEBUG"):
                    json.dump(job, open(os.path.join(os.environ.get("VERIF_TMP", "/tmp"), "c15_crash_%d.json" % len(c.known_hit)), "w"))
                    c.log("DEBUG crash/hang", res, job["kind"])
                pair = None
                if job["kind"] in ("fresh", "sim"):
                    pair = never_separating_pair(cf, [[h2d(t) for t in r[:3]] for r in cf["parts"]])
                if pair is not None:
                    c.violation(N2, what + ": particles %d and %d differ by about one ulp and are never separated by a cell centre (unbounded recursion in reb_tree_add_particle_to_cell)" % pair, job)
                    if job["kind"] == "fresh":
                        # the model agrees: refinement does not stop within any fuel
                        lines.append(model_line(cf, [dict(x=h2d(r[0]), y=h2d(r[1]), z=h2d(r[2]), m=h2d(r[6])) for r in cf["parts"]], False))
                        expect.append("err fuel %d" % pair[1]); meta.append(dict(where="unbounded refinement (model: fuel exhausted)", exact=True))
                elif job["kind"] == "sim" and res.get("crash") is not None and cf.get("integrator") == "whfast" and \
                        cf["boundary"] == "open" and cf.get("n_active", -1) >= 0:
                    c.violation(N8, what + ": WHFast, open boundary, N_active set (removal by swap-with-last does not maintain N_active)", job)
                elif res.get("marker") == "restart-with-flagged-particle":
                    c.violation(F17R, what + " while copying / reloading a simulation that holds a particle flagged for removal", job)
                else:
                    c.violation(F18 if f18 else ("crash" if res.get("crash") is not None else "hang"), what, job)
                continue
            for k, v in res["counts"].items():
                st["totals"][k] = st["totals"].get(k, 0) + v
            st["depth"] = max(st["depth"], res["notes"].get("depth", 0))
            ne = max(1, res["counts"].get("tree_evaluations", 0) + res["counts"].get("boundary_calls", 0) + res["counts"].get("steps", 0))
            if res["notes"].get("fv"):
                st.setdefault("seenp", set()).update(pairs_of(res["notes"]["fv"]))
            if res["notes"].get("entry_used"):
                st.setdefault("entry_used", set()).update(res["notes"]["entry_used"])
            for key, n in res["evals"]:
                c.count(tuple(key) if isinstance(key, (list, tuple)) else key, nontrivial=n >= 2, n=ne)
            for key, what, rep in res["viol"]:
                if os.environ.get("C15_DEBUG"):
                    c.log("DEBUG", job["kind"], key, what[:200], res["notes"])
                c.violation(key, what, rep)
            for l, e, m in res["lines"]:
                lines.append(l); expect.append(e); meta.append(m)
            if len(c.cov["samples"]) < 4 and job["kind"] == "sim" and res["counts"].get("steps", 0) > 5:
                cf = job["cfg"]
                c.sample(dict(kind="sim", boundary=cf["boundary"], gravity=cf["gravity"], collision=cf["collision"], resolve=cf["resolve"],
                              roots=[cf["nx"], cf["ny"], cf["nz"]], N=len(cf["parts"]), steps=cf["steps"], counts=res["counts"]))
        if b0 == 0:
            # model-only lines: the exact fmod emulation used by the shear offsets vs libm
            rng = c.rng.fork()
            for i in range(2000 if T else 300):
                a = rng.normal() * 10 ** rng.uniform(-3, 6)
                b = rng.choice([1.0, 2.0, 0.3, rng.uniform(0.01, 50.0), -rng.uniform(0.01, 50.0)])
                lines.append("fmod %s %s" % (d2h(a), d2h(b))); expect.append("ok " + d2h(math.fmod(a, b))); meta.append(dict(where="fmod", exact=True))
        compare_batch(c, exe, lines, expect, meta, st)
        if c.violations and len(c.violations) > 40:
            break
    c.cov["model_lines_compared"] = st["nlines"]
    c.cov["model_lines_by_kind"] = st["byw"]
    c.cov["disagreements"] = st["nd"]
    c.cov["bitwise_mismatches_within_tolerance"] = st["nbit"]
    c.cov["shape_differences_explained_by_particle_on_cell_face"] = st["ties"]
    # ---- pairwise coverage of the run factors
    tot, exc = all_pairs()
    seenp = st.get("seenp", set())
    missing = [list(t) for t in tot if t not in seenp]
    c.cov["pairs"] = {"covered": len(tot) - len(missing), "total": len(tot), "excluded": len(exc),
                      "factors": {f: len(v) for f, v in FACTORS.items()}, "missing": missing[:20],
                      "excluded_reasons": sorted({pair_excluded(*t) for t in exc})}
    if missing and c.thorough:
        c.broken.append("pairwise coverage of the run factors incomplete: %d of %d pairs never executed, e.g. %s" % (len(missing), len(tot), missing[:3]))
    # ---- public entry points
    cpres, related, pypres = extract_entry_points(d)
    used = st.get("entry_used", set())
    c.cov["entry_points"] = {"c_extracted": len(cpres), "python_extracted": len(pypres),
                             "exercised": len([n for n in cpres if n in used]) + len([n for n in pypres if "py:" + n in used])}
    if len(cpres) < len(C_ENTRY) or len(pypres) < len(PY_ENTRY):
        c.broken.append("entry-point extraction: %s not found in rebound.h / rebound.Simulation" %
                        ([n for n in C_ENTRY if n not in cpres] + [n for n in PY_ENTRY if n not in pypres]))
    if related:
        c.broken.append("public functions that look related to boundaries / the tree but are not in the entry-point table: %s" % related)
    notused = [n for n in cpres if n not in used] + [n for n in pypres if "py:" + n not in used]
    if notused:
        c.broken.append("entry points not exercised in this run: %s" % notused)
    dims = {k[4:]: v for k, v in sorted(st["totals"].items()) if k.startswith("dim:")}
    c.cov["dimensions"] = dims
    c.cov["measured"] = {k: v for k, v in st["totals"].items() if not k.startswith("dim:")}
    for need in REQUIRED_DIMENSIONS:
        if dims.get(need, 0) == 0:
            c.broken.append("dimension %s not covered" % need)
    c.cov["max_tree_depth_fresh"] = st["depth"]
    if st["nd"]:
        c.corr_break("%d of %d model/implementation lines differ; first: %s" % (st["nd"], st["nlines"], st["first"]["meta"]["where"]), st["first"])


def compare_batch(c, exe, lines, expect, meta, st):
    if not lines:
        return
    got = run_driver(exe, lines, timeout=1500)
    st["nlines"] += len(lines)
    if len(got) != len(lines):
        st["nd"] += 1
        if st["first"] is None:
            st["first"] = dict(meta=dict(where="driver returned %d lines for %d ops" % (len(got), len(lines))))
        return
    for g, e, m, l in zip(got, expect, meta, lines):
        w = m["where"].split(" + ")[0]
        w = "after a step" if w.startswith("after step") else w[:44]
        st["byw"][w] = st["byw"].get(w, 0) + 1
        if g.split() != e.split():
            if m.get("tie"):
                st["ties"] += 1
                continue
            if close_lines(g, e):
                st["nbit"] += 1        # same integers (shape, indices, counters), doubles equal to rounding error
                if os.environ.get("C15_DEBUG") and st["nbit"] <= 3:
                    gt, et = g.split(), e.split()
                    pos = next((i for i, (a, b) in enumerate(zip(gt, et)) if a != b), -1)
                    c.log("DEBUG nbit", m, pos, gt[max(0, pos - 14):pos + 3], et[max(0, pos - 14):pos + 3])
                continue
            st["nd"] += 1
            if os.environ.get("C15_DEBUG"):
                json.dump(dict(line=l, model=g, impl=e, meta=m), open("/tmp/c15dbg_%d.json" % st["nd"], "w"))
            if st["first"] is None:
                gt, et = g.split(), e.split()
                pos = next((i for i, (a, b) in enumerate(zip(gt, et)) if a != b), min(len(gt), len(et)))
                st["first"] = dict(meta=m, first_difference_at_token=pos, model=" ".join(gt[max(0, pos - 6):pos + 8]),
                                   impl=" ".join(et[max(0, pos - 6):pos + 8]), op_line=l[:3000])


HEX16 = None


def close_lines(g, e):
    """tolerance policy: a harmless re-association must not fire, a wrong bound/index/sign/constant must.
    Integer tokens (shape, particle indices, counters, survivor order) must agree exactly; 16-hex-digit doubles
    must agree to 256 ulp of the largest double on the line."""
    gt, et = g.split(), e.split()
    if len(gt) != len(et):
        return False
    vals = []
    pairs = []
    for a, b in zip(gt, et):
        ha = len(a) == 16 or a == "nan"
        hb = len(b) == 16 or b == "nan"
        if ha != hb:
            return False
        if not ha:
            if a != b:
                return False
            continue
        try:
            x, y = h2d(a), h2d(b)
        except ValueError:
            return False
        pairs.append((x, y))
        vals += [abs(x), abs(y)]
    scale = max([v for v in vals if v == v and v != float("inf")] + [0.0])
    for x, y in pairs:
        if (x != x) != (y != y):
            return False
        if x == x and not abs(x - y) <= 256 * 2.3e-16 * scale:
            return False
    return True


def shared_depth(cfg, p, q, cap=1200):
    """number of levels two positions descend together (float operations of tree.c); cap = never separated"""
    rs, nx, ny, nz = box_of(cfg)
    n = (nx, ny, nz)
    b = [rs * k for k in n]

    def ridx(v, a):
        i = math.floor((v + b[a] / 2.) / rs)
        return max(0, min(n[a] - 1, i)) if ROOT_RULE[0] == "clamp" else (i + n[a]) % n[a]
    ip = [ridx(p[a], a) for a in range(3)]
    if ip != [ridx(q[a], a) for a in range(3)]:
        return 0
    c = [-b[a] / 2. + rs * (0.5 + ip[a]) for a in range(3)]
    w = rs
    for d in range(cap):
        op = [p[a] < c[a] for a in range(3)]
        if op != [q[a] < c[a] for a in range(3)]:
            return d
        w = w / 2.
        c = [c[a] + w / 2. * (-1. if op[a] else 1.) for a in range(3)]
    return cap


def never_separating_pair(cfg, pos):
    """(i, j), i < j, smallest j: two distinct positions so close (about an ulp) that no cell centre ever falls between
    them — reb_tree_add_particle_to_cell recurses until the stack overflows (known finding C15-N2)"""
    rs, nx, ny, nz = box_of(cfg)
    tol = rs * max(nx, ny, nz) * 1e-12
    order = sorted(range(len(pos)), key=lambda i: pos[i][0])
    best = None
    for ai in range(len(order)):
        i = order[ai]
        for bi in range(ai + 1, len(order)):
            j = order[bi]
            if pos[j][0] - pos[i][0] > tol:
                break
            if abs(pos[i][1] - pos[j][1]) <= tol and abs(pos[i][2] - pos[j][2]) <= tol and pos[i] != pos[j]:
                if shared_depth(cfg, pos[i], pos[j]) >= 1200:
                    lo, hi = min(i, j), max(i, j)
                    if best is None or hi < best[1]:
                        best = (lo, hi)
    return best


REQUIRED_DIMENSIONS = [
    "integrator:leapfrog", "integrator:sei", "integrator:ias15", "integrator:whfast",
    "tree_use:gravity_only", "tree_use:collisions_only", "tree_use:both",
    "boundary:open", "boundary:periodic", "boundary:shear",
    "boundary_direct:open", "boundary_direct:periodic", "boundary_direct:shear",
    "boundary_direct:open+tree", "boundary_direct:periodic+tree", "boundary_direct:shear+tree",
    "resolver:hardsphere", "resolver:merge", "resolver:callback",
    "collision_search:tree", "collision_search:linetree", "collision_search:direct", "collision_search:line",
    "conj:tree_gravity x direct search x removing resolver", "conj:tree_gravity x line search x removing resolver",
    "roles:N_active<N", "roles:testparticle_type0", "roles:testparticle_type1", "roles:massless_test_particles",
    "roles:massive_test_particles", "roles:zero_mass_active",
    "time:dt<0", "time:shear_t<0", "time:shear_t>=0", "time:shear_|t|_huge",
    "callbacks:additional_forces",
    "history:restart_copy", "history:restart_file", "history:user_add", "history:user_remove",
    "geometry:nonsquare_root_layout", "geometry:particles_on_faces", "geometry:far_wraps(|x|>100L)",
    "options:G!=1", "options:softening=0", "options:opening_angle=0",
    "scale:N>128",
    "probe:x=+inf periodic", "probe:x=-inf shear", "probe:x=nan periodic", "probe:variational+collision tree",
    "probe:whfast+open+tree", "probe:refused add + tree update",
    "update_walk:scramble",
    "tree_gravity_force_tie:theta2=0", "tree_gravity_force_tie:theta2=0.25", "tree_gravity_force_tie:theta2=1",
]


def any_f18(cfg):
    return any(f18_class(cfg, dict(x=h2d(r[0]), y=h2d(r[1]), z=h2d(r[2]))) for r in cfg["parts"])


if __name__ == "__main__":
    main("C15", run)
