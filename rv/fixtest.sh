#!/bin/bash
# rv/fixtest.sh fixes/A.diff [fixes/B.diff ...]
# Applies the patches to a scratch worktree of /repo's HEAD (outside /repo and /verif), builds,
# runs the full existing test suite, prints the summary line and removes the worktree.
set -u
wt=/tmp/fixtest.$$
git -C /repo worktree add -q --detach "$wt" HEAD || exit 2
trap 'git -C /repo worktree remove --force "$wt" >/dev/null 2>&1; rm -rf "$wt"' EXIT
cd "$wt"
for p in "$@"; do
  git apply --whitespace=nowarn "$(realpath -m "/verif/$p" 2>/dev/null || echo "$p")" 2>/dev/null || git apply --whitespace=nowarn "$p" || { echo "PATCH DOES NOT APPLY: $p"; exit 1; }
done
/venv/bin/python setup.py build_ext --inplace >/tmp/fixtest.build.log 2>&1 || { echo BUILD FAILED; tail -20 /tmp/fixtest.build.log; exit 1; }
/venv/bin/python -m pytest -ra -q -p no:cacheprovider --timeout=900 --continue-on-collection-errors 2>&1 | tail -12
# the server tests bind a fixed port; if another suite ran at the same time, re-run them alone
/venv/bin/python -m pytest -q -p no:cacheprovider --timeout=900 rebound/tests/test_server.py 2>&1 | tail -1
