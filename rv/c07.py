"""C07 — a crash during an archive write never loses completed snapshots.

proof:   lean/RV/Props/C07.lean about lean/RV/Model/Bin.lean (`crash`, `openArchive`, `appendPlan` incl. the
         corruption test and the repair walk)
tie:     strace confirms the write pattern assumed by `crash` (one ascending contiguous run of writes that
         starts at the old trailer, file never truncated); the model's write plan reproduces the bytes the real
         append changes; for every crash image the model's verdict (`crashscan`) is compared with what the real
         C reader does in a child process (exit status / signal is an output); model `append` on a crash image
         reproduces the file the real code writes when it restarts
search:  the property itself on the real code: every crash image opened by the C API and by the Python class in
         child processes exposes exactly the completed snapshots, each equal to the uninterrupted run's; restart
         from the last intact snapshot and continue: final archive snapshot-wise equal; crash/restart chains
"""
import json, os, re, shutil, struct, subprocess, sys, tempfile, time
sys.path.insert(0, os.path.dirname(os.path.abspath(__file__)))
from common import *
import archive_common as ac

K_F2 = "F2:first-snapshot-cut-error-path-ownership"
K_F2C = "F2:c-api-returns-uninitialised-handle"
K_F19 = "F19:index-builder-trusts-field-size"
RESTARTABLE = ["whfast", "leapfrog", "ias15", "saba", "eos", "janus", "sei", "none"]


def vstr(v):
    return "".join("1" if x else "0" for x in v)


# ------------------------------------------------------------------------------------------- strace
def strace_writes(logfile, path):
    """-> (open flags, [(offset, nbytes)] writes to `path`, truncated: bool)"""
    fdpos, flags, writes, trunc = {}, [], [], False
    base = os.path.basename(path)
    for line in open(logfile, errors="replace"):
        line = re.sub(r"^\d+\s+", "", line)
        m = re.match(r'openat\(.*?"([^"]*)", ([A-Z_|0-9]+)(?:, \d+)?\)\s+= (\d+)', line)
        if m:
            if os.path.basename(m.group(1)) == base:
                fdpos[int(m.group(3))] = 0
                flags.append(m.group(2))
                if "O_TRUNC" in m.group(2):
                    trunc = trunc or "O_CREAT" not in m.group(2)
            continue
        m = re.match(r"(read|write)\((\d+), .*, (\d+)\)\s+= (\d+)", line)
        if m and int(m.group(2)) in fdpos:
            fd, n = int(m.group(2)), int(m.group(4))
            if m.group(1) == "write":
                writes.append((fdpos[fd], n))
            fdpos[fd] += n
            continue
        m = re.match(r"lseek\((\d+), (-?\d+), (\w+)\)\s+= (\d+)", line)
        if m and int(m.group(1)) in fdpos:
            fdpos[int(m.group(1))] = int(m.group(4))
            continue
        m = re.match(r"pwrite64\((\d+), .*, (\d+), (\d+)\)\s+= (\d+)", line)
        if m and int(m.group(1)) in fdpos:
            writes.append((int(m.group(3)), int(m.group(4))))
            continue
        m = re.match(r"(ftruncate|truncate)\(", line)
        if m:
            trunc = True
        m = re.match(r"close\((\d+)\)", line)
        if m and int(m.group(1)) in fdpos:
            del fdpos[int(m.group(1))]
    return flags, writes, trunc


def contiguous(writes):
    if not writes:
        return None
    start = writes[0][0]
    pos = start
    for off, n in writes:
        if off != pos:
            return None
        pos += n
    return start, pos - start


def strace_check(c, d, W, app_exe, drv, V, open_exe=None, st=None, dims=None):
    fn = os.path.join(W, "st.bin")
    log = os.path.join(W, "strace.log")
    res = dict(available=False)
    tr = ["strace", "-f", "-o", log, "-e", "trace=openat,read,write,pread64,pwrite64,lseek,ftruncate,truncate,close"]
    p = subprocess.run(tr + [app_exe, "--fresh", fn], capture_output=True, text=True)
    if p.returncode != 0 or not os.path.exists(log) or not os.path.exists(fn):
        c.assumptions.append("strace not usable here (%s): write pattern taken from byte diffs before/after each append only" % p.stderr[:80])
        return res
    res["available"] = True
    flags, writes, trunc = strace_writes(log, fn)
    L = os.path.getsize(fn)
    cg = contiguous(writes)
    res["fresh"] = dict(flags=flags, nwrites=len(writes), span=cg, size=L)
    if cg != (0, L):
        c.corr_break("first snapshot is not written as one ascending contiguous run from offset 0", res["fresh"])
    napp = 0
    for nsteps in (1, 3, 40, 2):
        before = open(fn, "rb").read()
        extra = ["add"] if napp == 2 else []        # third append: a particle is added, the delta has another size
        p = subprocess.run(tr + [app_exe, fn, str(nsteps)] + extra, capture_output=True, text=True)
        after = open(fn, "rb").read()
        flags, writes, trunc = strace_writes(log, fn)
        cg = contiguous(writes)
        want = (len(before) - 12, len(after) - (len(before) - 12))
        ok = cg == want and not trunc and after[:len(before) - 12] == before[:len(before) - 12]
        napp += 1
        c.count(("strace-append", nsteps))
        if not ok:
            c.corr_break("append is not one ascending contiguous run of writes starting at the old trailer",
                         dict(writes=writes[:8], want=want, trunc=trunc, flags=flags))
        if open_exe is not None and napp in (1, 3):
            observed_order_restart(c, W, app_exe, open_exe, before, after, writes, nsteps, napp == 1, st, dims, extra)
    res["appends_checked"] = napp
    res["append_flags"] = flags
    return res


def observed_order_restart(c, W, app_exe, open_exe, before, after, writes, nsteps, first, st, dims, extra=()):
    """crash images built from the write sequence the real code was OBSERVED to perform (strace: offsets and sizes in
    time order; contents from the file after the append), not from the sequence the model assumes; each image is
    restarted with the real code (load last snapshot, redo the steps, append; then one more append) and must expose
    the same snapshots as the uninterrupted run.  Covers the first delta append of a one-snapshot archive."""
    nb = len(ac.parse_archive(before))
    ref = os.path.join(W, "oo_ref.bin")
    open(ref, "wb").write(before)
    subprocess.run([app_exe, ref, str(nsteps)] + list(extra), capture_output=True)
    subprocess.run([app_exe, ref, "5"], capture_output=True)
    cuts = []
    for j, (off, n) in enumerate(writes):
        content = after[off:off + n]
        ks = {1, 4, 8, 12, 13, 16, 20, 24, 28, n // 2, max(1, n - 12), n - 1} | set(range(max(1, n - 8), n))
        if j > 0:
            ks.add(0)
        zeros = [k for k in range(4, n) if content[k - 4:k] == bytes(4)]
        ks |= set(zeros[:4] + zeros[len(zeros) // 2:len(zeros) // 2 + 3] + zeros[-3:])
        is_last = j == len(writes) - 1
        for k in sorted(ks):
            if 0 <= k < n or (k == n and not is_last):
                cuts.append((j, k))
    total = sum(n for _, n in writes)
    imgs = []
    for j, k in cuts:
        img = bytearray(before)
        for jj, (off, n) in enumerate(writes[:j + 1]):
            m = n if jj < j else k
            if len(img) < off + m:
                img.extend(bytes(off + m - len(img)))
            img[off:off + m] = after[off:off + m]
        p = os.path.join(W, "oo_%d_%d.bin" % (j, k))
        open(p, "wb").write(bytes(img))
        r1 = subprocess.run([app_exe, p, str(nsteps)] + list(extra), capture_output=True)
        r2 = subprocess.run([app_exe, p, "5"], capture_output=True)
        imgs.append((j, k, p, r1.returncode, r2.returncode))
    res = run_batch(open_exe, [(p, ref) for _, _, p, _, _ in imgs] + [(ref, ref)])
    vref = view_of(res[-1])
    key = "restart:observed_write_order_" + ("first_append" if first else "later_append")
    for (j, k, p, rc1, rc2), r in zip(imgs, res[:-1]):
        vw = view_of(r)
        dims[key] = dims.get(key, 0) + 1
        c.count(("observed-order", first, j, k))
        st["observed_order_images"] += 1
        ok = vw[0] == "ok" and vref[0] == "ok" and vw[1] == vref[1] and all(x in (1, 2) for x in vw[5]) and rc1 == 0 and rc2 == 0
        if not ok:
            c.violation("restart-differs:observed-write-order", "crash in the %s append after %d of %d bytes of write %d (observed order %s), restart, two more appends: "
                        "archive exposes %s, uninterrupted run %s" % ("FIRST delta" if first else "a later", k, writes[j][1], j, writes, vw[:2], vref[:2]),
                        dict(writes=writes, cut_write=j, cut_bytes=k, nsteps=nsteps, complete_before=nb, restart_rc=(rc1, rc2), exposed=vw[:2], uninterrupted=vref[:2],
                             recipe="c07_append --fresh f; [appends]; truncate/overlay per observed order; c07_append f n; c07_append f 5; open"))
            break
        os.remove(p)


# ------------------------------------------------------------------------------------------- images
def boundary_cuts(data, fresh):
    """cut points of every class the reader / repairer branches on"""
    ks = set()
    n = len(data)
    start = 64 if fresh else 12
    if fresh:
        ks |= {0, 1, 15, 16, 17, 63, 64, 65}
    else:
        ks |= set(range(0, 14))
    pos = start
    while pos + 16 <= n:
        ty, _, size = struct.unpack_from("<IIQ", data, pos)
        if fresh and ty not in (ac.END, 125, 0, 85):
            ks |= {pos, pos + 9}                # every field boundary, one point inside every header
        else:
            ks |= {pos, pos + 1, pos + 4, pos + 8, pos + 15, pos + 16}
        if ty == ac.END:
            pos += 16
            break
        if size and not (fresh and ty not in (125, 0, 85)):
            ks |= {pos + 17, pos + 16 + size // 2, pos + 16 + size - 1}
        if ty == 125:
            ks |= set(range(pos, pos + 16 + size + 2))
        pos += 16 + size
    ks |= set(range(max(0, n - 30), n + 1))
    return sorted(k for k in ks if 0 <= k <= n)


def run_batch(open_exe, pairs, perturb=False):
    """pairs [(image, ref)] -> list of dict(status, lines) from the C reader, each image in its own child"""
    env = dict(os.environ)
    if perturb:
        env["MALLOC_PERTURB_"] = "165"
    p = subprocess.run([open_exe, "--batch"], input="".join(" ".join(str(x) for x in pr) + "\n" for pr in pairs), capture_output=True,
                       text=True, env=env, timeout=3000)
    out, cur = [], []
    for l in p.stdout.splitlines():
        if l.startswith("status "):
            out.append(dict(status=int(l.split()[1]), lines=cur))
            cur = []
        else:
            cur.append(l)
    return out


def view_of(res):
    """canonical verdict of the real C reader: ('ok', n, [offsets], [t], allsame) | ('null',) | ('error',) | ('died', sig)"""
    if res["status"] != 0:
        return ("died", res["status"])
    ls = res["lines"]
    if not ls:
        return ("died", "no-output")
    if ls[0] == "open null":
        return ("null",)
    if ls[0] == "open error":
        return ("error",)
    m = re.match(r"open ok nblobs=(-?\d+)", ls[0])
    n = int(m.group(1))
    offs, ts, same, loads = [], [], [], []
    for l in ls[1:]:
        mm = re.match(r"blob (\d+) off=(\d+) t=([0-9a-f]+) load=(\w+) same=(-?\d+)", l)
        if mm:
            offs.append(int(mm.group(2))); ts.append(mm.group(3)); loads.append(mm.group(4)); same.append(int(mm.group(5)))
    return ("ok", n, offs, ts, all(x == "ok" for x in loads), same)


def py_open(rebound, img, ref, out):
    """Python class in a child: writes what it exposes to `out`"""
    import warnings
    warnings.filterwarnings("ignore")
    os.dup2(os.open(os.devnull, os.O_WRONLY), 2)       # glibc's abort message of the child is not ours
    try:
        sa = rebound.Simulationarchive(img, process_warnings=False)
    except RuntimeError as e:
        open(out, "w").write(json.dumps(dict(error=str(e)[:80])))
        return
    r = rebound.Simulationarchive(ref, process_warnings=False) if ref else None
    res = dict(nblobs=int(sa.nblobs), same=[], t=[ac.hex64(sa.t[i]) for i in range(sa.nblobs)])
    for i in range(sa.nblobs):
        s = sa[i]
        eq = bool(r is not None and i < r.nblobs and s == r[i])
        if not eq and r is not None and i < r.nblobs and not (r[i] == r[i]):
            eq = True       # control: two loads of the reference snapshot are unequal to each other (C17's business)
        res["same"].append(eq)
    res["iter"] = [ac.hex64(s.t) for s in sa]       # container protocol: iteration and len() see the same snapshots
    res["len"] = len(sa)
    open(out, "w").write(json.dumps(res))


# ------------------------------------------------------------------------------------------- restart
def restart_run(rebound, img, ops, wd, tag):
    """restart from the last snapshot `img` exposes, execute the remaining ops (appending to img)"""
    import warnings
    warnings.filterwarnings("ignore")
    sim = rebound.Simulation(img, snapshot=-1)
    k = 0
    for op in ops:
        o = op[0]
        if o == "steps":
            if sim.N > 0:
                sim.steps(op[1])
        elif o == "set":
            ac._setpath(sim, op[1], op[2])
        elif o == "edit":
            if op[1] < sim.N:
                setattr(sim.particles[op[1]], op[2], op[3])
        elif o == "add":
            sim.add(**op[1])
        elif o == "hash":
            if op[1] < sim.N:
                sim.particles[op[1]].hash = op[2]
        elif o == "lrescale":
            if sim.N_var_config > 0:
                sim.var_config[0]._lrescale = op[1]
        elif o == "integrator":
            sim.integrator = op[1]
        elif o == "snap":
            if k == 0:
                shutil.copy(img, os.path.join(wd, tag + "_before.bin"))
                p = os.path.join(wd, tag + "_s.bin")
                if os.path.exists(p):
                    os.remove(p)
                sim.save_to_file(p)
            sim.save_to_file(img)
            if k == 0:
                shutil.copy(img, os.path.join(wd, tag + "_after.bin"))
            k += 1
        elif o == "integrate":
            sim.integrate(op[1], exact_finish_time=0)
        elif o == "auto_interval":
            sim.save_to_file(img, interval=op[1])
        elif o == "auto_step":
            sim.save_to_file(img, step=op[1])


C07_IMG_FACTORS = {
    "integrator": ["whfast", "leapfrog", "ias15", "saba", "eos", "janus", "sei", "mercurius", "none", "bs", "trace"],
    "kind": ["plain", "lazy_vanish", "grow_first", "add_remove", "single_change", "variations"],
    "write": ["first_snapshot", "first_delta", "later_delta"],
    "cut": ["head", "link", "body", "END", "trailer", "complete"],
    "entry": ["create_from_file", "with_messages", "init_from_buffer", "simulation_create_from_file", "simulation_copy", "with_messages_reuse_index", "python_class"],
}
_LAZY = ["ias15", "whfast", "mercurius", "bs", "janus", "trace", "saba", "eos", "sei", "leapfrog"]   # order of ac.gen_history(lazy_arrays)


def c07_img_excluded(f, a, g, b):
    d = {f: a, g: b}
    integ, kind = d.get("integrator"), d.get("kind")
    if kind == "variations" and integ is not None and integ not in ("ias15", "leapfrog"):
        return True      # variational particles: integrators that support every configuration
    if kind == "lazy_vanish" and integ == "none":
        return True      # no lazily allocated arrays
    if kind == "grow_first" and integ in ("none", "leapfrog"):
        return True      # nothing appears after the first snapshot
    if kind == "add_remove" and integ == "bs":
        return True      # BS ODE buffers vs N changes between steps (heap overflow outside the archive code)
    return False


C07_RESTART_FACTORS = {
    "integrator": ["whfast", "leapfrog", "ias15", "saba", "eos", "janus", "sei", "none"],
    "write": ["first_delta", "later_delta"],
    "cut": ["head", "link", "body", "END", "trailer"],
    "pattern": ["once", "chain2", "chain3"],
}


def c07_archive_history(rng, integ, kind):
    """archive whose deltas have the content class `kind`, written with `integ`"""
    if kind == "plain":
        return gen_restart_history(rng, integ)
    if kind == "lazy_vanish":
        h = ac.gen_history(rng, 3, structural="lazy_arrays", variant=6 * _LAZY.index(integ))
    elif kind == "grow_first":
        parts = [ac.gen_particle(rng, star=True), ac.gen_particle(rng), ac.gen_particle(rng)]
        h = dict(init=dict(particles=parts, integrator="none", dt=0.01),
                 ops=[["snap"], ["integrator", integ], ["steps", 2], ["snap"], ["steps", 1], ["snap"], ["edit", 1, "x", 0.3], ["snap"]],
                 structural="grow_first", auto=None, tag=None)
    elif kind == "add_remove":
        parts = [ac.gen_particle(rng, star=True), ac.gen_particle(rng), ac.gen_particle(rng)]
        h = dict(init=dict(particles=parts, integrator=integ, dt=0.01),
                 ops=[["steps", 1], ["snap"], ["add", ac.gen_particle(rng)], ["steps", 1], ["snap"], ["remove", 1], ["snap"], ["steps", 2], ["snap"]],
                 structural="add_remove", auto=None, tag=None)
    elif kind == "single_change":
        h = ac.gen_history(rng, 5, structural="single_change")
        h["init"]["integrator"] = integ
        h["ops"] = [o for o in h["ops"] if o[0] != "variation"]
    else:
        h = ac.gen_history(rng, 3, structural="variations", variant=(0 if integ == "ias15" else 36) + 18)
        h["init"]["integrator"] = integ
    h["c07kind"] = kind
    h["c07integ"] = integ      # the integrator under test (grow_first starts with "none" and switches to it)
    return h


def cut_class(k, data, fresh):
    """factor value of a cut point"""
    n = len(data)
    if k >= n:
        return "complete"
    if k >= n - 12:
        return "trailer"
    if k >= n - 28:
        return "END"
    if fresh:
        if k < 64:
            return "head"
        pos = 64
        while pos + 16 <= n:
            ty, _, size = struct.unpack_from("<IIQ", data, pos)
            if ty == 125:
                return "link" if pos <= k < pos + 16 + size else "body"
            if ty == ac.END:
                break
            pos += 16 + size
        return "body"
    return "head" if k <= 8 else "link" if k < 12 else "body"


def gen_restart_history(rng, integ=None):
    """deterministic history on an integrator that promises bit-wise restarts: ops between snapshots are
    steps / settings / edits (no callbacks)"""
    integ = integ or rng.choice(RESTARTABLE)
    n0 = rng.randint(2, 4)
    init = dict(particles=[ac.gen_particle(rng, star=True)] + [ac.gen_particle(rng) for _ in range(n0 - 1)],
                integrator=integ, dt=rng.choice([0.01, 0.02]))
    ops = [["snap"]]
    for _ in range(rng.randint(3, 6)):
        for _ in range(rng.randint(1, 2)):
            c = rng.randint(0, 9)
            if c < 6:
                ops.append(["steps", rng.randint(1, 4)])
            elif c < 8:
                ops.append(["set", rng.choice(["G", "softening"]), rng.choice([1.0, 0.5, 1e-3])])
            else:
                ops.append(["edit", rng.randint(0, n0 - 1), rng.choice(["x", "vy"]), rng.uniform(-1, 1)])
        ops.append(["snap"])
    return dict(init=init, ops=ops, structural=None, auto=None, c07kind="plain")


def run(c):
    d = build()
    rebound = use_scratch_rebound(d)
    c.prove(["RV.Props.C07"])
    drv = lean_exe("drv_c07")
    open_exe = compile_harness(d, os.path.join(ROOT, "harness", "c07_open.c"), os.path.join(d, "c07_open"))
    app_exe = compile_harness(d, os.path.join(ROOT, "harness", "c07_append.c"), os.path.join(d, "c07_append"))
    W = tempfile.mkdtemp(prefix="c07.", dir=os.environ.get("VERIF_TMP", "/tmp"))
    try:
        _run(c, d, rebound, drv, open_exe, app_exe, W)
    finally:
        shutil.rmtree(W, ignore_errors=True)


def detect_variant(c, rebound, open_exe, W):
    """which repairs does the source under test contain (behavioural probes; the F2 probe is an instance of
    the property and reports the known finding)"""
    import c06
    class Q:      # quiet: the C06 probes report to C06, here they only decide the model variant
        def violation(self, *a):
            return False
    f1, f11, _, f19, f18, f5 = c06.probe_variant(Q(), rebound, os.path.join(W, "probe"))
    fn = os.path.join(W, "probe", "p1.bin")
    b = open(fn, "rb").read()
    blobs = ac.parse_archive(b)
    first = b[:blobs[0]["end"]]
    # cut after the version field, before END
    pos, vend = 64, None
    while True:
        ty, _, size = struct.unpack_from("<IIQ", first, pos)
        if ty == 125:
            vend = pos + 16 + size
        if ty == ac.END:
            break
        pos += 16 + size
    img = os.path.join(W, "probe", "cut.bin")
    open(img, "wb").write(first[:(vend + pos) // 2])
    out = os.path.join(W, "probe", "py.json")
    rc = ac.fork_run(py_open, rebound, img, None, out)
    res = run_batch(open_exe, [(img, "-")], perturb=True)[0]
    f2 = (rc == 0 and res["status"] == 0)
    return (f1, f11, f2, f19, f18, f5), dict(py_rc=rc, c_status=res["status"], c_lines=res["lines"][:2])


def _run(c, d, rebound, drv, open_exe, app_exe, W):
    from common import REPO
    cent, cint = ac.entry_points(REPO, ac.ENTRY_CORE_C07)
    pyent = {k_: v_ for k_, v_ in ac.py_entry_points(REPO, cent).items()
             if v_ or k_ in ("Simulationarchive.__iter__", "Simulationarchive.__len__", "Simulationarchive.__getitem__")}
    elog = os.path.join(W, "entry.log")
    ac.install_entry_trace(rebound, elog, cent, pyent)
    # extracted: field table of the library under test against the struct mirror (a scalar dtype smaller than the member
    # truncates it in every snapshot: counters and cadence state above 2^32 do not survive a restart)
    c.cov["field_table"] = ac.image_table_report(rebound)
    if c.cov["field_table"]["dtype_size_mismatch"]:
        c.corr_break("field table dtype size differs from the struct member size [name, id, dtype bytes, member bytes]: %s" % c.cov["field_table"]["dtype_size_mismatch"][:4])
    v, probe = detect_variant(c, rebound, open_exe, W)
    V = vstr(v)
    c.cov["source_variant"] = {"F1_fixed": v[0], "F11_fixed": v[1], "F2_fixed": v[2], "F19_fixed": v[3], "F18_particles_bitwise": v[4], "F5_varconfig_memberwise": v[5], "probe": probe}
    c.log("source behaves as model variant", V)
    c.cov["rule"] = ("archives from the C06 history generator (manual snapshots; structural histories only when the source writes them "
                     "correctly); for every append the model's write plan must reproduce the bytes the real append changed; crash images "
                     "= file before ++ first k bytes of that write, for every boundary class the reader/repairer branches on (inside the "
                     "4 bytes of offset_next, field header, payload, END, new trailer, exact boundaries) plus random offsets (quick) or "
                     "every byte offset (thorough, exhaustive per archive); every image is opened by the C API in a child process "
                     "(MALLOC_PERTURB_ set so that use of uninitialised handle members shows) and, on a sample, by the Python class in a "
                     "forked child; restart from the last intact snapshot, continue, compare snapshot-wise with the uninterrupted run; "
                     "crash/restart chains.  distinct_nontrivial = distinct (cut class, append number, archive kind, integrator)")
    c.cov["trusted_base"] = ["Lean 4.33 kernel", "strace (syscall trace of the real append)", "model verdict vs real C reader on generated crash images (differential)",
                             "fork/waitpid exit statuses", "glibc MALLOC_PERTURB_ to surface reads of uninitialised heap"]
    c.assumptions += ["crash model: a write is an in-place overwrite/extension, a crash leaves a byte prefix of the write (no reordering, no torn bytes, no truncation)",
                      "restart theorem needs NoFakeTrailer: the interrupted write leaves no bytes that read as END header ++ trailer where the repair walk looks (evaluated on every image by the driver)"]
    st = dict(archives=0, appends=0, plan_equal=0, images=0, images_first=0, model_equal=0, py_images=0, restarts=0, restart_equal=0,
              restart_bytes_equal=0, chains=0, chain_links=0, nofake_true=0, nofake_false=0, chain_nofake_true=0, chain_nofake_false=0, died=0, f2_images=0, hazards=0, exhaustive_appends=0,
              auto_restarts=0, observed_order_images=0)
    cutclass = {}
    nofake_false_classes = {}
    dims = {}
    c.cov["strace"] = strace_check(c, d, W, app_exe, drv, V, open_exe, st, dims)
    if c.cov["strace"].get("available"):
        dims["tie:strace_write_pattern"] = c.cov["strace"].get("appends_checked", 0)
    t_start = time.time()
    budget = (20 * 60) if c.thorough else 125
    narch = 200 if c.thorough else 40
    nrand = 0 if c.thorough else 24
    exhaustive_budget = (9 * 60) if c.thorough else 0
    # ------------------------------------------------------------------ archives + crash images
    img_tracker = ac.PairTracker(C07_IMG_FACTORS, c07_img_excluded)
    ik_all = [(i_, k_) for i_ in C07_IMG_FACTORS["integrator"] for k_ in C07_IMG_FACTORS["kind"]
              if not c07_img_excluded("integrator", i_, "kind", k_) and (k_ != "lazy_vanish" or v[0])]
    SplitMix(777).shuffle(ik_all)
    nik = len(ik_all) if c.thorough else 19
    ik = (ik_all + ik_all)[((c.seed - 1) * nik) % len(ik_all):][:nik]
    # dimension obligations must not depend on the seed: the archive kinds a required dimension needs come first in every run
    for must in (("whfast", "lazy_vanish"), ("ias15", "plain")):
        if must in ik_all:
            if must in ik:
                ik.remove(must)
            ik.insert(0, must)
    # restart array: all pairs of C07_RESTART_FACTORS (no exclusions) + every (write, cut, pattern) triple
    noexc = lambda *a: False
    rs_tracker = ac.PairTracker(C07_RESTART_FACTORS, noexc)
    rs_all = ac.covering_array(C07_RESTART_FACTORS, noexc, SplitMix(20260931), 60)
    tri = [(w_, c_, p_) for w_ in C07_RESTART_FACTORS["write"] for c_ in C07_RESTART_FACTORS["cut"] for p_ in C07_RESTART_FACTORS["pattern"]]
    have3 = {(r_["write"], r_["cut"], r_["pattern"]) for r_ in rs_all}
    rs_all += [dict(integrator=C07_RESTART_FACTORS["integrator"][i_ % 8], write=t_[0], cut=t_[1], pattern=t_[2])
               for i_, t_ in enumerate(t_ for t_ in tri if t_ not in have3)]
    nrs = len(rs_all) if c.thorough else 24
    rs_rows = (rs_all + rs_all)[((c.seed - 1) * nrs) % len(rs_all):][:nrs]
    pending = {}
    for r_ in rs_rows:
        pending.setdefault(r_["integrator"], []).append(r_)
    c.cov["restart_array_rows"] = dict(total=len(rs_all), this_run=len(rs_rows))
    triples_done = set()
    ai = 0
    while ai < narch and time.time() - t_start < budget * (0.75 if c.thorough else 0.6):
        rng = c.rng.fork()
        from_array = bool(ik) or any(pending.values())
        if ik:
            hist = c07_archive_history(rng, *ik.pop(0))
        elif any(pending.values()):
            hist = gen_restart_history(rng, max(pending, key=lambda i_: len(pending[i_])))
        elif ai % 2:
            hist = gen_restart_history(rng)
        else:
            hist = ac.gen_history(rng, rng.randint(2, 6), structural=("grow_first" if rng.chance(0.3) else None))
        wd = os.path.join(W, "a%d" % ai)
        os.makedirs(wd)
        rc = ac.fork_run(ac.run_history, rebound, hist, wd, False, True)
        ai += 1
        if rc != 0 or not os.path.exists(os.path.join(wd, "meta.json")):
            st["hazards"] += 1
            shutil.rmtree(wd, ignore_errors=True)
            continue
        meta = json.load(open(os.path.join(wd, "meta.json")))
        n = len(meta["appends"])
        if n < 2 or not all(os.path.exists(os.path.join(wd, "a%d.bin" % k)) for k in range(n)):
            shutil.rmtree(wd, ignore_errors=True)
            continue
        final = os.path.join(wd, "arch.bin")
        S = [ac.parse_stream(open(os.path.join(wd, "s%d.bin" % k), "rb").read())[1] for k in range(n)]
        ids0 = {ty for ty, pl, _ in S[0] if len(pl)}
        if not v[0] and any(ids0 - {ty for ty, pl, _ in S[k] if len(pl)} for k in range(1, n)):
            shutil.rmtree(wd, ignore_errors=True)      # F1 territory: the uninterrupted archive itself is garbled (C06)
            continue
        st["archives"] += 1
        dims["archive_integrator:" + hist["init"]["integrator"]] = dims.get("archive_integrator:" + hist["init"]["integrator"], 0) + 1
        if hist.get("tag"):
            dims["archive_lazy_arrays:" + hist["tag"]] = dims.get("archive_lazy_arrays:" + hist["tag"], 0) + 1
        if hist["structural"] in ("reset_after_whfast", "remove_all", "shrink_zero_reappear", "lazy_arrays"):
            dims["archive:array_vanishes"] = dims.get("archive:array_vanishes", 0) + 1
        # thorough: every byte offset on every third archive of the covering array and on every archive after it (time permitting)
        exhaustive = c.thorough and (time.time() - t_start < exhaustive_budget) and (not from_array or ai % 3 == 1)
        # --- first snapshot: images are prefixes of s0
        s0 = open(os.path.join(wd, "a0.bin"), "rb").read()
        jobs = [("fresh", 0, None, s0)]
        for j in range(1, n):
            before = open(os.path.join(wd, "a%d.bin" % (j - 1)), "rb").read()
            after = open(os.path.join(wd, "a%d.bin" % j), "rb").read()
            df = os.path.join(wd, "data%d.bin" % j)
            o = run_driver(drv, ["plan %s %s %s %s" % (V, os.path.join(wd, "a%d.bin" % (j - 1)), os.path.join(wd, "s%d.bin" % j), df)])[0]
            m = re.match(r"ok pos=(\d+) len=(\d+) repaired=(\w+)", o)
            st["appends"] += 1
            if not m:
                c.corr_break("model refuses an append the real code performs: %s" % o, dict(history=hist, append=j))
                continue
            pos = int(m.group(1))
            data = open(df, "rb").read()
            if before[:pos] + data + before[pos + len(data):] != after or pos != len(before) - 12:
                c.corr_break("model write plan does not reproduce the bytes the real append changed (append %d)" % j, dict(history=hist, append=j, driver=o))
                continue
            st["plan_equal"] += 1
            jobs.append(("app", j, (before, pos), data))
        for mode, j, ctx, data in jobs:
            fresh = mode == "fresh"
            ks = set(boundary_cuts(data, fresh))
            bset = set(ks)
            if exhaustive:
                ks |= set(range(len(data) + 1))
                st["exhaustive_appends"] += 1
            else:
                for _ in range(nrand or 24):
                    ks.add(rng.randint(0, len(data)))
            ks = sorted(ks)
            # model verdicts
            dfile = os.path.join(wd, "d.bin")
            open(dfile, "wb").write(data)
            if fresh:
                line = "crashscan %s - fresh %s %s" % (V, dfile, " ".join(map(str, ks)))
            else:
                line = "crashscan %s %s %d %s %s" % (V, os.path.join(wd, "a%d.bin" % (j - 1)), ctx[1], dfile, " ".join(map(str, ks)))
            mv = run_driver(drv, [line])[0].split()
            if len(mv) != len(ks):
                c.corr_break("crashscan returned %d verdicts for %d cuts" % (len(mv), len(ks)), dict(line=line[:200]))
                continue
            # images + real reader
            pairs = []
            for k in ks:
                ip = os.path.join(wd, "i%d.bin" % k)
                if fresh:
                    img = data[:k]
                else:
                    before, pos = ctx
                    img = before[:pos] + data[:k] + before[pos + k:]
                open(ip, "wb").write(img)
                pairs.append((ip, final))
            res = run_batch(open_exe, pairs, perturb=True)
            if len(res) != len(ks):
                raise Infra("c07_open batch returned %d results for %d images" % (len(res), len(ks)))
            complete = 0 if fresh else j        # snapshots whose write had completed before this one started
            for k, mvk, r in zip(ks, mv, res):
                view = view_of(r)
                full = (k == len(data))
                # cut class for the evidence
                if fresh:
                    cls = "first:" + ("complete" if full else "trailer" if k >= len(data) - 12 else "END" if k >= len(data) - 28 else "body")
                else:
                    cls = "append:" + ("complete" if full else "offset_next" if 8 < k < 12 else "old-trailer" if k <= 8 else
                                       "new-trailer" if k >= len(data) - 12 else "END" if k >= len(data) - 28 else "delta")
                cutclass[cls] = cutclass.get(cls, 0) + 1
                frow = dict(integrator=hist.get("c07integ") or hist["init"]["integrator"], kind=hist.get("c07kind"),
                            write=("first_snapshot" if fresh else "first_delta" if j == 1 else "later_delta"), cut=cut_class(k, data, fresh))
                if view[0] != "died":
                    img_tracker.add(dict(frow, entry="create_from_file"))
                dims["cut:" + cls] = dims.get("cut:" + cls, 0) + 1
                if not fresh:
                    dk = "cut:first_delta_append" if j == 1 else "cut:later_append"
                    dims[dk] = dims.get(dk, 0) + 1
                dims["reader:C_API"] = dims.get("reader:C_API", 0) + 1
                c.count((cls, j, hist["structural"] or "free", hist["init"]["integrator"]), nontrivial=True)
                # NoFakeTrailer (hypothesis of the restart theorem) evaluated by the model on this image
                nf = mvk.split(":")[-1]
                if nf == "R":
                    st["nofake_true"] += 1
                elif nf == "x" and not full:
                    st["nofake_false"] += 1
                    nofake_false_classes[cls] = nofake_false_classes.get(cls, 0) + 1
                st["images_first" if fresh else "images"] += 1
                rep = dict(history=hist, append=j, cut=k, of=len(data), c_reader=r, model=mvk)
                # ---- property on the real code
                want_n = complete + (1 if full else 0)
                data_complete = fresh and k >= len(data) - 12      # every field and END on disk, only the zero trailer cut
                if view[0] == "died":
                    st["died"] += 1
                    if fresh and not full:
                        st["f2_images"] += 1
                        c.violation(K_F2, "opening a first snapshot cut at byte %d of %d kills the client (status %s)" % (k, len(data), view[1]), rep)
                    elif mvk.startswith("undefined"):
                        c.violation(K_F19, "opening crash image (cut %d of %d) kills the client (status %s); the model marks an out-of-bounds read of a 't' field" % (k, len(data), view[1]), rep)
                    else:
                        c.violation("died:" + cls, "opening a crash image (append %d cut at byte %d of %d) kills the client (status %s)" % (j, k, len(data), view[1]), rep)
                elif view[0] in ("null", "error"):
                    dims["c_entry:create_from_file"] = dims.get("c_entry:create_from_file", 0) + 1
                    if view[0] == "error" and v[2]:
                        # contract of reb_simulationarchive_create_from_file (since the F2 repair): no snapshot could be
                        # read -> NULL.  A non-NULL handle with inf == NULL, nblobs = 0 and NULL arrays is not an archive
                        c.violation("c-api:empty-handle-returned", "reb_simulationarchive_create_from_file returns a non-NULL empty handle (inf == NULL) for a first "
                                    "snapshot cut at byte %d of %d instead of NULL" % (k, len(data)), rep)
                    if want_n > 0 or data_complete and False:
                        c.violation("lost:" + cls, "crash image (append %d cut %d of %d) cannot be opened although %d snapshots were complete" % (j, k, len(data), want_n), rep)
                else:
                    dims["c_entry:create_from_file"] = dims.get("c_entry:create_from_file", 0) + 1
                    _, nb, offs, ts, loads, same = view
                    if want_n == 0 and not data_complete:
                        c.violation("phantom:" + cls, "a first snapshot cut at byte %d of %d is opened as %d snapshot(s)" % (k, len(data), nb), rep)
                    elif nb != max(want_n, 1 if data_complete else 0):
                        c.violation("count:" + cls, "crash image (append %d cut %d of %d) exposes %d snapshots, %d were complete" % (j, k, len(data), nb, want_n), rep)
                    elif not loads or any(s not in (1, 2) for s in same):
                        c.violation("content:" + cls, "crash image (append %d cut %d of %d): an exposed snapshot differs from the uninterrupted run (%s)" % (j, k, len(data), same), rep)
                # ---- model vs real
                if view[0] == "died":
                    mwant = "abort" if (mvk.startswith("abort") or mvk.startswith("undefined")) else None
                    if fresh and not v[2] and mvk.startswith("old"):
                        mwant = "abort"     # C API: handle with uninitialised members is freed by the client (F2, C side)
                    ok = mwant is not None
                elif view[0] in ("null", "error"):
                    # the model's client view for the repaired source is NULL on every error exit
                    ok = (mvk.startswith("old") or mvk.startswith("seek")) and not (view[0] == "error" and v[2])
                else:
                    ok = mvk.startswith("ok:%d:" % view[1]) and mvk.split(":")[3] == (str(view[2][-1]) if view[2] else "-")
                if ok:
                    st["model_equal"] += 1
                else:
                    c.corr_break("model verdict %s differs from the real C reader %s (append %d cut %d of %d)" % (mvk, view[:2], j, k, len(data)), rep)
            # every other public C entry point on a sample of the boundary cuts
            byc = {}
            for k in sorted(bset):
                byc.setdefault(cut_class(k, data, fresh), []).append(k)
            samp = sorted({x for lst in byc.values() for x in ([lst[0], lst[len(lst) // 2], lst[-1]] + (lst[::4] if c.thorough else []))})
            trip = [(os.path.join(wd, "i%d.bin" % k), "-", mode) for k in samp for mode in (1, 2, 3, 4, 5)]
            eres = run_batch(open_exe, trip, perturb=True)
            vmap = {k: view_of(r) for k, r in zip(ks, res)}
            for (ipath, _, mode), er in zip(trip, eres):
                k = int(os.path.basename(ipath)[1:-4])
                full = (k == len(data))
                want_n = (0 if fresh else j) + (1 if full else 0)
                dc = fresh and k >= len(data) - 12
                expect = max(want_n, 1 if dc else 0)
                name = {1: "with_messages", 2: "init_from_buffer", 3: "simulation_create_from_file", 4: "simulation_copy", 5: "with_messages_reuse_index"}[mode]
                dims["c_entry:" + name] = dims.get("c_entry:" + name, 0) + 1
                if er["status"] == 0:
                    img_tracker.add(dict(integrator=hist.get("c07integ") or hist["init"]["integrator"], kind=hist.get("c07kind"), entry=name, cut=cut_class(k, data, fresh),
                                         write=("first_snapshot" if fresh else "first_delta" if j == 1 else "later_delta")))
                c.count(("c-entry", name, "first" if fresh else "append"))
                rep = dict(history=hist, append=j, cut=k, of=len(data), entry=name, result=er)
                if er["status"] != 0 or not er["lines"]:
                    c.violation("c-entry-died:" + name, "%s on a crash image (append %d cut %d of %d) kills the client (status %s)" % (name, j, k, len(data), er["status"]), rep)
                    continue
                l0 = er["lines"][0]
                if mode == 4:
                    mm = re.match(r"entry 4 sim=(\w+) t=([0-9a-f]+) copy=(\w+) copy_t=([0-9a-f]+) difflen=(-?\d+)", l0)
                    if not mm or (mm.group(1) == "ok") != (expect > 0):
                        c.violation("c-entry:" + name, "reb_simulation_create_from_file returns %s on a crash image with %d complete snapshots (append %d cut %d)" % (l0, expect, j, k), rep)
                    elif mm.group(1) == "ok" and (mm.group(3) != "ok" or mm.group(4) != mm.group(2)):
                        c.violation("c-entry:" + name, "reb_simulation_copy of the simulation restored from a crash image: %s" % l0, rep)
                    elif mm.group(1) == "ok" and int(mm.group(5)) != 0:
                        st["copy_diff_nonempty"] = st.get("copy_diff_nonempty", 0) + 1      # copy != original: C05/C17's business
                elif mode == 3:
                    got_ok = "sim=ok" in l0
                    if got_ok != (expect > 0):
                        c.violation("c-entry:" + name, "%s returns %s on a crash image with %d complete snapshots (append %d cut %d)" % (name, l0, expect, j, k), rep)
                    elif got_ok and vmap[k][0] == "ok" and vmap[k][3] and l0.split("t=")[1] != vmap[k][3][-1]:
                        c.violation("c-entry:" + name, "%s loads t=%s, the last exposed snapshot has t=%s" % (name, l0.split("t=")[1], vmap[k][3][-1]), rep)
                else:
                    mm = re.match(r"entry \d warnings=(-?\d+) nblobs=(-?\d+) inf=(\d)", l0)
                    nb = int(mm.group(2)) if mm else -1
                    loads_ok = all(x.endswith("ok") for x in er["lines"][1:] if x.startswith("load"))
                    if nb != expect or not loads_ok:
                        c.violation("c-entry:" + name, "%s exposes %d snapshots (%s) on a crash image with %d complete ones (append %d cut %d)" % (name, nb, l0, expect, j, k), rep)
            # Python class on the boundary classes (sample)
            for k in (sorted(bset) if c.thorough else samp):
                ip = os.path.join(wd, "i%d.bin" % k)
                out = os.path.join(wd, "py.json")
                if os.path.exists(out):
                    os.remove(out)
                rc = ac.fork_run(py_open, rebound, ip, final, out)
                st["py_images"] += 1
                dims["reader:Python_class"] = dims.get("reader:Python_class", 0) + 1
                if rc == 0:
                    img_tracker.add(dict(integrator=hist.get("c07integ") or hist["init"]["integrator"], kind=hist.get("c07kind"), entry="python_class", cut=cut_class(k, data, fresh),
                                         write=("first_snapshot" if fresh else "first_delta" if j == 1 else "later_delta")))
                full = (k == len(data))
                want_n = (0 if fresh else j) + (1 if full else 0)
                rep = dict(history=hist, append=j, cut=k, of=len(data), py_rc=rc)
                if rc != 0:
                    if fresh and not full:
                        c.violation(K_F2, "Python: opening a first snapshot cut at byte %d of %d kills the interpreter (status %s)" % (k, len(data), rc), rep)
                    else:
                        c.violation("py-died", "Python: opening crash image (append %d cut %d) kills the interpreter (status %s)" % (j, k, rc), rep)
                    continue
                pr = json.load(open(out))
                if "error" in pr:
                    if want_n > 0:
                        c.violation("py-lost", "Python: crash image (append %d cut %d) raises %s, %d snapshots were complete" % (j, k, pr["error"], want_n), rep)
                else:
                    dc = fresh and k >= len(data) - 12
                    if pr.get("len") != pr["nblobs"] or len(pr.get("iter", [])) != pr["nblobs"]:
                        c.violation("py-count", "Python: crash image (append %d cut %d): nblobs %d, len() %s, iteration yields %d" % (j, k, pr["nblobs"], pr.get("len"), len(pr.get("iter", []))), rep)
                    if pr["nblobs"] != max(want_n, 1 if dc else 0) or not all(pr["same"]):
                        c.violation("py-count", "Python: crash image (append %d cut %d) exposes %d snapshots (same=%s), %d were complete" % (j, k, pr["nblobs"], pr["same"], want_n), rep)
            for k in ks:
                try:
                    os.remove(os.path.join(wd, "i%d.bin" % k))
                except OSError:
                    pass
        # ------------------------------------------------------------------ restart from a crash image
        if hist["init"]["integrator"] in RESTARTABLE and all(o[0] in ("snap", "steps", "set", "edit", "hash", "lrescale", "integrator", "nop") for o in hist["ops"]) and n >= 3:
            specs = pending.get(hist["init"]["integrator"], [])
            take, specs[:] = specs[:(len(specs) if c.thorough else 4)], specs[(len(specs) if c.thorough else 4):]
            for spec in (take or [None]):
                restart_case(c, rebound, drv, open_exe, V, v, hist, wd, n, rng, st, spec, rs_tracker, triples_done)
        shutil.rmtree(wd, ignore_errors=True)
    # ------------------------------------------------------------------ complete chain + residual tail longer than a snapshot
    for irt in range(12 if c.thorough else 4):
        rr = ac.residual_tail_case(c, rebound, run_driver, drv, V, os.path.join(W, "rtail%d" % irt), c.rng.fork(), irt + 4 * irt)
        if rr:
            dims["restart:residual_tail:" + rr["kind"]] = dims.get("restart:residual_tail:" + rr["kind"], 0) + 1
            st["residual_tail_model_appends_equal"] = st.get("residual_tail_model_appends_equal", 0) + rr["model_appends_equal"]
    # ------------------------------------------------------------------ more than 1024 completed snapshots before the crash
    big_cut_case(c, rebound, open_exe, drv, V, os.path.join(W, "bigcut"), st, dims, 2100 if c.thorough else 1040)
    # ------------------------------------------------------------------ the contrived fake-trailer image (once per run)
    fake_trailer_case(c, rebound, drv, V, os.path.join(W, "fake"), st)
    # ------------------------------------------------------------------ automatic cadence: crash + restart
    # covering array over integrator x cadence mode x direction x counter magnitude; the whole array in every run (thorough: twice)
    au_tracker = ac.PairTracker(C07_AUTO_FACTORS, noexc)
    au_rows = ac.covering_array(C07_AUTO_FACTORS, noexc, SplitMix(20261001), 60)
    c.cov["auto_restart_array_rows"] = len(au_rows)
    for i, spec in enumerate(au_rows * (2 if c.thorough else 1)):
        auto_restart_case(c, rebound, open_exe, c.rng.fork(), os.path.join(W, "auto%d" % i), st, dims, spec, cad_drv=drv, tracker=au_tracker)
    wall_restart_case(c, rebound, c.rng.fork(), os.path.join(W, "autowall"), st, dims)
    dims["restart:manual_history"] = st["restarts"] - st["auto_restarts"]
    dims["restart:chain"] = st["chains"]
    dims["restart:model_bytes_equal"] = st["restart_bytes_equal"]
    dims["nofake_trailer_evaluated"] = st["nofake_true"] + st["nofake_false"]
    dims["fake_trailer_replayed"] = 1 if st.get("fake_trailer") else 0
    ip_, rp_, ap_ = img_tracker.report(), rs_tracker.report(), au_tracker.report()
    if ap_["covered"] < ap_["total"]:
        c.broken.append("automatic-cadence restart factor pairs not covered: %s" % ap_["missing"][:12])
    c.cov["pairs"] = dict(covered=ip_["covered"] + rp_["covered"] + ap_["covered"], total=ip_["total"] + rp_["total"] + ap_["total"], excluded=ip_["excluded"] + rp_["excluded"],
                          crash_images=ip_, restarts=rp_, auto_restarts=ap_,
                          restart_triples=dict(covered=len(triples_done), total=len(tri), missing=sorted(set(tri) - triples_done)[:20]))
    c.cov["pairs_exclusions"] = ["variations x integrator not in {ias15, leapfrog}: the other integrators reject or ignore variational configurations",
                                 "lazy_vanish x none: no lazily allocated arrays", "grow_first x {none, leapfrog}: no integrator arrays appear after the first snapshot",
                                 "add_remove x bs: BS ODE buffers overflow on N changes between steps (outside the archive code; C08/C14)",
                                 "restart factors: integrators without bit-wise restart promise (mercurius, bs, trace) are not restart rows"]
    if c.thorough:
        if ip_["covered"] < ip_["total"]:
            c.broken.append("crash-image factor pairs not covered: %s" % ip_["missing"][:12])
        if rp_["covered"] < rp_["total"]:
            c.broken.append("restart factor pairs not covered: %s" % rp_["missing"][:12])
        if len(triples_done) < len(tri):
            c.broken.append("restart (write, cut, pattern) triples not covered: %s" % sorted(set(tri) - triples_done)[:12])
    # ---- public entry points reaching the index builder / the repairing writer / the cadence re-arming: each must have run
    c_seen, py_seen = ac.read_entry_trace(elog)
    if st["images"]:
        c_seen |= ac.harness_calls([os.path.join(ROOT, "harness", "c07_open.c")], cent)
    if c.cov["strace"].get("appends_checked") or st["observed_order_images"]:
        c_seen |= ac.harness_calls([os.path.join(ROOT, "harness", "c07_append.c")], cent)
    ep_missing = sorted(set(cent) - c_seen) + sorted(set(pyent) - py_seen)
    c.cov["entry_points"] = dict(c_extracted=len(cent), c_exercised=len(set(cent) & c_seen), python_extracted=len(pyent), python_exercised=len(set(pyent) & py_seen),
                                 c=sorted(cent), python=sorted(pyent), not_exported_on_the_way=sorted(cint), missing=ep_missing)
    if len(cent) < 9 or len(pyent) < 5:
        c.corr_break("entry-point extraction found only %d C functions / %d Python methods" % (len(cent), len(pyent)))
    if ep_missing:
        c.broken.append("public entry point(s) reaching the crash/restart code not exercised in this run: %s" % ", ".join(ep_missing))
    c.cov["dimensions"] = dict(sorted(dims.items()))
    required = ["cut:first:body", "cut:first:END", "cut:first:trailer", "cut:first:complete", "cut:append:old-trailer", "cut:append:offset_next",
                "cut:append:delta", "cut:append:END", "cut:append:new-trailer", "cut:append:complete", "cut:first_delta_append", "cut:later_append",
                "reader:C_API", "reader:Python_class", "restart:manual_history", "restart:chain", "restart:auto_interval", "restart:auto_step",
                "restart:auto_backward", "restart:auto_interval_short", "restart:auto_walltime", "restart:observed_write_order_first_append", "restart:observed_write_order_later_append",
                "tie:strace_write_pattern", "tie:cadence_restart_model", "nofake_trailer_evaluated", "fake_trailer_replayed", "archive:array_vanishes",
                "restart:residual_tail:zeros_link_kept", "restart:residual_tail:zeros_link_cleared", "restart:residual_tail:garbage",
                "restart:residual_tail:zeros_long", "scale:archive>1024_cut", "c_entry:create_from_file", "c_entry:with_messages",
                "c_entry:init_from_buffer", "c_entry:simulation_create_from_file", "c_entry:simulation_copy", "c_entry:with_messages_reuse_index"]
    missing = [d_ for d_ in required if not dims.get(d_)]
    c.cov["dimensions_missing"] = missing
    if missing:
        c.broken.append("dimension(s) not covered: %s" % ", ".join(missing))
    c.cov.update(st)
    c.cov["cut_class_histogram"] = cutclass
    c.cov["nofake_false_by_cut_class"] = nofake_false_classes
    c.log("archives %d appends %d images %d+%d model_equal %d restarts %d/%d chains %d" % (
        st["archives"], st["appends"], st["images"], st["images_first"], st["model_equal"], st["restart_equal"], st["restarts"], st["chains"]))


def ops_after_snapshot(hist, j):
    """ops of the history that follow the j-th 'snap' (0-based)"""
    k = -1
    for i, op in enumerate(hist["ops"]):
        if op[0] == "snap":
            k += 1
            if k == j:
                return hist["ops"][i + 1:]
    return []


def compare_archives(rebound, a, ref, wd):
    """-> (equal: bool, detail) snapshot-wise, through the Python loader + re-parser in a child"""
    out = os.path.join(wd, "cmp.json")
    if os.path.exists(out):
        os.remove(out)
    rc = ac.fork_run(ac.py_compare, rebound, a, ref, out, wd)
    if rc != 0 or not os.path.exists(out):
        return False, dict(rc=rc)
    r = json.load(open(out))
    ok = r["error"] is None and r["n"][0] == r["n"][1] and r["t"][0] == r["t"][1] and all(not x for x in r["diff"])
    return ok, r


def pick_cut(rng, cls, n):
    """byte offset inside the write of an append (old trailer ++ delta ++ END ++ new trailer, n bytes) in cut class cls"""
    lo, hi = {"head": (0, 8), "link": (9, 11), "body": (12, n - 29), "END": (n - 28, n - 13), "trailer": (n - 12, n - 1)}[cls]
    lo = max(0, min(lo, n - 1))
    return rng.randint(lo, max(lo, min(hi, n - 1)))


def restart_case(c, rebound, drv, open_exe, V, v, hist, wd, n, rng, st, spec=None, tracker=None, triples=None):
    """crash append j at byte k; restart from the last intact snapshot with the real code, continue the history
    to its end; the final archive must expose the same snapshots as the uninterrupted one.  Chains: crash the
    restarted append again."""
    final = os.path.join(wd, "arch.bin")
    CUTS = C07_RESTART_FACTORS["cut"]
    if spec:
        j = 1 if spec["write"] == "first_delta" else rng.randint(2, n - 1)
        chain = {"once": 1, "chain2": 2, "chain3": 3}[spec["pattern"]]
    else:
        j = rng.randint(1, n - 1)
        chain = rng.randint(1, 5 if c.thorough else 2)
    img = os.path.join(wd, "restart.bin")
    rows = []
    cur_before = open(os.path.join(wd, "a%d.bin" % (j - 1)), "rb").read()
    sj = os.path.join(wd, "s%d.bin" % j)
    link = 0
    while True:
        # write plan of appending s_j to the current (possibly damaged) file
        open(img, "wb").write(cur_before)
        df = os.path.join(wd, "rdata.bin")
        o = run_driver(drv, ["plan %s %s %s %s" % (V, img, sj, df)])[0]
        m = re.match(r"ok pos=(\d+) len=(\d+)", o)
        if not m:
            c.corr_break("model refuses the restart append: %s" % o, dict(history=hist, append=j, link=link))
            return
        pos, data = int(m.group(1)), open(df, "rb").read()
        link += 1
        if link > chain:
            break
        if spec:
            k = pick_cut(rng, CUTS[(CUTS.index(spec["cut"]) + link - 1) % len(CUTS)], len(data))
        else:
            k = rng.choice([rng.randint(0, len(data) - 1), rng.randint(0, 12), rng.randint(max(0, len(data) - 30), len(data) - 1)])
        rows.append(dict(integrator=hist["init"]["integrator"], write=("first_delta" if j == 1 else "later_delta"), cut=cut_class(k, data, False),
                         pattern={1: "once", 2: "chain2", 3: "chain3"}.get(chain)))
        cur_before = cur_before[:pos] + data[:k] + cur_before[pos + k:]
        st["chain_links"] += 1
        # NoFakeTrailer, evaluated by the model on the image
        open(img, "wb").write(cur_before)
        nf = run_driver(drv, ["nofake %s %d" % (img, pos + 12)])[0]
        st["chain_nofake_true" if nf == "true" else "chain_nofake_false"] += 1
    if chain > 1:
        st["chains"] += 1
    open(img, "wb").write(cur_before)
    ops = [["snap"]] + ops_after_snapshot(hist, j)      # the interrupted snapshot is taken again, then the rest
    # the state to restart from is snapshot j-1; replay the ops between snapshot j-1 and j first
    pre = []
    cnt = -1
    for op in hist["ops"]:
        if op[0] == "snap":
            cnt += 1
            if cnt == j:
                break
            if cnt == j - 1:
                pre = []
                continue
        if cnt == j - 1:
            pre.append(op)
    tag = "r"
    rc = ac.fork_run(restart_run, rebound, img, pre + ops, wd, tag)
    st["restarts"] += 1
    c.count(("restart", chain, hist["init"]["integrator"], j))
    rep = dict(history=hist, crashed_append=j, chain=chain, rc=rc)
    if rc != 0:
        c.violation("restart-died", "restarting from a crash image kills the process (status %s)" % rc, rep)
        return
    for r_ in rows:       # executed factor values (restart ran to the end)
        if tracker is not None:
            tracker.add(r_)
        if triples is not None and r_["pattern"]:
            triples.add((r_["write"], r_["cut"], r_["pattern"]))
    ok, det = compare_archives(rebound, img, final, wd)
    if not ok:
        c.violation("restart-differs", "archive after crash (append %d, chain %d) + restart differs snapshot-wise from the uninterrupted run: %s" % (j, chain, json.dumps(det)[:300]), rep)
    else:
        st["restart_equal"] += 1
    # tie: model append (with its repair logic) on the damaged file = what the real code wrote
    bf, af, sf = [os.path.join(wd, tag + x) for x in ("_before.bin", "_after.bin", "_s.bin")]
    if all(os.path.exists(x) for x in (bf, af, sf)):
        mo = os.path.join(wd, "mrestart.bin")
        o = run_driver(drv, ["append %s %s %s %s" % (V, bf, sf, mo)])[0]
        if o.startswith("ok") and open(mo, "rb").read() == open(af, "rb").read():
            st["restart_bytes_equal"] += 1
        else:
            c.corr_break("model append on a crash image differs from the file the real restart wrote (%s)" % o[:80], rep)


def big_cut_case(c, rebound, open_exe, drv, V, wd, st, dims, nsnap):
    """scale: more than 1024 COMPLETED snapshots before the crash (the reader's index arrays start with 1024 slots):
    the image must expose exactly the completed snapshots, counted independently by the re-parser"""
    os.makedirs(wd, exist_ok=True)
    fn = os.path.join(wd, "big.bin")

    def child():
        import warnings
        warnings.filterwarnings("ignore")
        sim = rebound.Simulation()
        sim.add(m=1.0); sim.add(m=0.0, x=1.0, vy=1.0)
        sim.integrator = "leapfrog"
        sim.dt = 0.01
        sim.save_to_file(fn, step=1)
        sim.integrate(sim.dt * (nsnap - 1.5), exact_finish_time=0)
    if ac.fork_run(child, timeout=120) != 0 or not os.path.exists(fn):
        st["hazards"] += 1
        return
    b = open(fn, "rb").read()
    blobs = ac.parse_archive(b)
    if len(blobs) < 1030:
        c.violation("big-cut:written", "only %d blobs after %d automatic snapshots" % (len(blobs), nsnap), dict(nsnap=nsnap))
        return
    cuts = []
    for bi in (len(blobs) - 1, 1026):
        bl = blobs[bi]
        L = bl["end"] - bl["off"]
        for rel in (0, 5, 17, L // 2, L - 28, L - 13, L - 12, L - 5, L - 1):
            cuts.append((bi, bl["off"] + rel))
    pairs, metas = [], []
    for bi, cut in cuts:
        ip = os.path.join(wd, "c%d.bin" % cut)
        open(ip, "wb").write(b[:cut])
        pairs.append((ip, "-"))
        metas.append((bi, cut, ip))
    res = run_batch(open_exe, pairs, perturb=True)
    mo = run_driver(drv, ["open %s %s" % (V, ip) for _, _, ip in metas])
    for (bi, cut, ip), r, m in zip(metas, res, mo):
        completed = len(ac.parse_archive(b[:cut]))       # independent count: blobs that parse and chain
        # the cut blob itself is incomplete by construction; the one before it ends with a patched trailer
        vw = view_of(r)
        dims["scale:archive>1024_cut"] = dims.get("scale:archive>1024_cut", 0) + 1
        c.count(("big-cut", bi, cut - blobs[bi]["off"]))
        rep = dict(snapshots_in_file=len(blobs), cut_in_blob=bi, cut_offset=cut, completed=completed, c_reader=r["lines"][:1], status=r["status"], model=m[:40])
        if vw[0] != "ok" or vw[1] != completed:
            c.violation("big-cut:count", "archive with %d snapshots cut inside snapshot %d: the reader exposes %s, %d snapshots were complete" % (
                len(blobs), bi, vw[1] if vw[0] == "ok" else vw, completed), rep)
        if not m.startswith("ok %d " % completed):
            c.corr_break("model index of a %d-snapshot crash image exposes %s, completed %d" % (len(blobs), m[:20], completed), rep)
        elif vw[0] == "ok" and vw[1] == completed:
            st["model_equal"] += 1
    # Python class on two of them
    for bi, cut, ip in metas[:2]:
        out = os.path.join(wd, "py.json")
        if os.path.exists(out):
            os.remove(out)
        rc = ac.fork_run(py_open, rebound, ip, None, out)
        pr = json.load(open(out)) if rc == 0 and os.path.exists(out) else {}
        completed = len(ac.parse_archive(b[:cut]))
        if pr.get("nblobs") != completed:
            c.violation("big-cut:py-count", "Python: archive with %d snapshots cut inside snapshot %d exposes %s, %d were complete" % (len(blobs), bi, pr.get("nblobs"), completed),
                        dict(cut=cut, rc=rc, result=pr))
    shutil.rmtree(wd, ignore_errors=True)


K_FAKE = "LIMIT:fake-trailer-defeats-repair-test"


def fake_trailer_case(c, rebound, drv, V, wd, st):
    """DESIGN C07: the writer's corruption test reads only the last 28 bytes of the file and one earlier trailer.
    A delta whose particle payload contains bytes that read as `END header ++ trailer` (a particle with
    x = 4.94e-320 = u64 9999, y = 0, z = two int32 (index, offset_prev = 116), low half of vx = 0), preceded 128
    bytes earlier by 12 bytes whose last 4 are 116, cut exactly after the fake trailer, is judged "not corrupt":
    the restarted append goes to the end of the interrupted write instead of the last intact trailer.
    Built and replayed on the real code once per run; the model must predict it (NoFakeTrailer = false) and
    reproduce the bytes the real restart writes."""
    os.makedirs(wd, exist_ok=True)
    full, a0p = os.path.join(wd, "full.bin"), os.path.join(wd, "a0.bin")
    dbl = lambda bs: struct.unpack("<d", bs)[0]
    P = 116
    crafted = [dict(i=1, z=dbl(struct.pack("<ii", 7, 7)), vx=dbl(struct.pack("<iI", P, 0))),
               dict(i=2, x=dbl(struct.pack("<Q", 9999)), y=0.0, z=dbl(struct.pack("<ii", 1, P)), vx=0.0)]

    def apply1(sim):
        for cr in crafted:
            for kk, vv in cr.items():
                if kk != "i":
                    setattr(sim.particles[cr["i"]], kk, vv)

    def apply2(sim):
        sim.G = 0.5

    def fullrun():
        import warnings
        warnings.filterwarnings("ignore")
        sim = rebound.Simulation()
        sim.integrator = "none"
        sim.add(m=1.0); sim.add(m=1e-3, x=1.0, vy=1.0); sim.add(m=1e-3, x=2.0, vy=0.7)
        sim.save_to_file(full)
        shutil.copy(full, a0p)
        apply1(sim)
        sim.save_to_file(full)
        p = os.path.join(wd, "s1.bin")
        sim.save_to_file(p)
        apply2(sim)
        sim.save_to_file(full)
    if ac.fork_run(fullrun) != 0:
        st["hazards"] += 1
        return
    a0, a2 = open(a0p, "rb").read(), open(full, "rb").read()
    blobs = ac.parse_archive(a2)
    if len(blobs) != 3:
        return
    pos = len(a0) - 12
    data = a2[pos:blobs[1]["end"]]
    # offset of particle 2 inside the write
    q, poff = 12, None
    while q + 16 <= len(data):
        ty, _, size = struct.unpack_from("<IIQ", data, q)
        if ty == ac.PARTICLES:
            poff = q + 16
            break
        if ty == ac.END:
            break
        q += 16 + size
    if poff is None:
        return
    k = poff + 2 * 128 + 28
    img = os.path.join(wd, "img.bin")
    open(img, "wb").write(a0[:pos] + data[:k])
    nf = run_driver(drv, ["nofake %s %d" % (img, pos + 12)])[0]
    shutil.copy(img, os.path.join(wd, "img0.bin"))

    def restart():
        import warnings
        warnings.filterwarnings("ignore")
        sim = rebound.Simulation(img, snapshot=-1)
        apply1(sim)
        p = os.path.join(wd, "rs.bin")
        sim.save_to_file(p)
        sim.save_to_file(img)
        shutil.copy(img, os.path.join(wd, "after1.bin"))
        apply2(sim)
        sim.save_to_file(img)
    rc = ac.fork_run(restart)
    ok, det = compare_archives(rebound, img, full, wd) if rc == 0 else (False, dict(rc=rc))
    c.count(("fake-trailer", nf, ok))
    st["fake_trailer"] = dict(cut=k, of=len(data), model_nofake=nf, restart_rc=rc, restart_equal=ok,
                              exposed=det.get("n") if isinstance(det, dict) else None)
    # tie: the model's append on the image = the bytes the real restart wrote
    mo = os.path.join(wd, "m.bin")
    if rc == 0 and os.path.exists(os.path.join(wd, "after1.bin")):
        o = run_driver(drv, ["append %s %s %s %s" % (V, os.path.join(wd, "img0.bin"), os.path.join(wd, "rs.bin"), mo)])[0]
        same = o.startswith("ok") and open(mo, "rb").read() == open(os.path.join(wd, "after1.bin"), "rb").read()
        st["fake_trailer"]["model_bytes_equal"] = same
        if not same:
            c.corr_break("model append on the fake-trailer image differs from the real restart (%s)" % o[:80], st["fake_trailer"])
    if ok and nf != "true":
        c.corr_break("model says NoFakeTrailer is false for the contrived image but the real restart recovers", st["fake_trailer"])
    if not ok:
        if nf == "true":
            c.violation("restart-differs:fake-trailer-unpredicted", "restart from the contrived image fails although NoFakeTrailer holds: %s" % json.dumps(det)[:200], st["fake_trailer"])
        else:
            c.violation(K_FAKE, "restart from a crash image whose last 28 bytes imitate END + trailer appends behind the interrupted write: %s" % json.dumps(det)[:200], st["fake_trailer"])


K_DUP = "cadence:lagging-next-duplicate"


C07_AUTO_FACTORS = {
    "integrator": ["whfast", "leapfrog", "saba", "eos", "janus"],
    "mode": ["interval", "step", "interval_short"],          # interval_short: interval < |dt| (prescribed time lags)
    "direction": ["fwd", "back"],
    "counter": ["small", "beyond_2^32"],                     # steps_done / simulationarchive_next_step below / above 2^32 at the restart
}


def auto_restart_case(c, rebound, open_exe, rng, wd, st, dims, spec, cad_drv=None, tracker=None):
    """automatic cadence: uninterrupted run vs crash in the middle + restart (cadence state is persisted).
    spec = one row of the covering array over C07_AUTO_FACTORS"""
    os.makedirs(wd, exist_ok=True)
    integ = spec["integrator"]
    short = spec["mode"] == "interval_short"
    mode = "interval" if short else spec["mode"]
    back = spec["direction"] == "back"
    big = spec["counter"] != "small"
    dt = -0.01 if back else 0.01
    val = abs(dt) * rng.choice([2.0, 3.0, 5.5]) if mode == "interval" else rng.randint(2, 5)
    tmax = dt * rng.randint(30, 60)
    if short:          # interval shorter than the step: the persisted prescribed time lags behind t
        val, tmax = abs(dt) * 0.4, dt * rng.randint(8, 14)
    # 64-bit counters: the run has (as far as the struct knows) taken almost 2^32 steps; in step mode the persisted
    # simulationarchive_next_step passes 2^32 with the second snapshot
    steps0 = (2 ** 32 - (val if mode == "step" else 3) - 1) if big else 0
    parts = [ac.gen_particle(rng, star=True)] + [ac.gen_particle(rng) for _ in range(2)]
    full = os.path.join(wd, "full.bin")

    def fullrun():
        import warnings
        warnings.filterwarnings("ignore")
        sim = rebound.Simulation()
        for p in parts:
            sim.add(**p)
        sim.integrator = integ
        sim.dt = dt
        if steps0:
            sim.steps_done = steps0
        if mode == "interval":
            sim.save_to_file(full, interval=val)
        else:
            sim.save_to_file(full, step=val)
        sim.integrate(tmax, exact_finish_time=0)
    if ac.fork_run(fullrun) != 0 or not os.path.exists(full):
        st["hazards"] += 1
        return
    b = open(full, "rb").read()
    blobs = ac.parse_archive(b)
    if len(blobs) < 5:
        return
    j = rng.randint(3 if big else 2, len(blobs) - 1)      # beyond_2^32: the snapshot restarted from (j-1 >= 2) persists next_step >= 2^32
    start = blobs[j - 1]["end"] - 12            # the write of blob j starts at the previous trailer
    end = blobs[j]["end"]
    k = rng.randint(0, end - start - 1)
    img = os.path.join(wd, "img.bin")
    prev = b[:blobs[j - 1]["end"] - 4] + bytes(4)          # file before append j: last offset_next still 0
    data = b[start:end]
    open(img, "wb").write(prev[:start] + data[:k] + prev[start + k:])
    shutil.copy(img, os.path.join(wd, "img0.bin"))

    def restart():
        import warnings
        warnings.filterwarnings("ignore")
        sim = rebound.Simulation(img, snapshot=-1)
        if mode == "interval":
            sim.save_to_file(img, interval=val)
        else:
            sim.save_to_file(img, step=val)
        sim.integrate(tmax, exact_finish_time=0)
    rc = ac.fork_run(restart)
    st["auto_restarts"] += 1
    # tie of the cadence-restart model (RV.Cadence.restart / restartStep, theorems c07_cadence_restart_*): a second restart
    # on a copy of the image records the persisted cadence state and every heartbeat boundary; the model run over them must
    # give the number of snapshots the real restart appended and the final cadence state
    img2, tj = os.path.join(wd, "img2.bin"), os.path.join(wd, "tie.json")
    shutil.copy(os.path.join(wd, "img0.bin"), img2)

    def restart_traced():
        import warnings
        warnings.filterwarnings("ignore")
        sim = rebound.Simulation(img2, snapshot=-1)
        rec = dict(pint=ac.hex64(sim.simulationarchive_auto_interval), pnext=ac.hex64(sim.simulationarchive_next),
                   pstep=int(sim.simulationarchive_auto_step), pnext_step=int(sim.simulationarchive_next_step), hb=[])
        if mode == "interval":
            sim.save_to_file(img2, interval=val)
        else:
            sim.save_to_file(img2, step=val)

        def hb(simp):
            rec["hb"].append((ac.hex64(simp.contents.t), int(simp.contents.steps_done)))
        sim.heartbeat = hb
        sim.integrate(tmax, exact_finish_time=0)
        rec["next"] = ac.hex64(sim.simulationarchive_next)
        rec["next_step"] = int(sim.simulationarchive_next_step)
        open(tj, "w").write(json.dumps(rec))
    n_img = len(ac.parse_archive(open(img2, "rb").read()))
    if cad_drv and ac.fork_run(restart_traced) == 0 and os.path.exists(tj):
        rec = json.load(open(tj))
        n_after = len(ac.parse_archive(open(img2, "rb").read()))
        # the cadence state the restarted run starts from = the state the uninterrupted run had when it wrote that snapshot:
        # step mode: the model run over the step counter up to the snapshot; interval mode: the 8 bytes in the file (re-parser)
        rj = ac.overlay(blobs[0]["recs"], blobs[j - 1]["recs"]) if j - 1 > 0 else blobs[0]["recs"]
        if mode == "step":
            sdj = struct.unpack("<Q", ac.rec_value(rj, ac.STEPS))[0]
            mo = run_driver(cad_drv, ["cadstep %d %d %s" % (val, steps0, " ".join(str(x_) for x_ in range(steps0, sdj + 1)))])[0].split()
            f136 = ac.rec_value(rj, 136)
            if str(rec["pnext_step"]) != mo[1] or f136 is None or len(f136) != 8:
                c.corr_break("persisted step cadence: the restarted run starts with simulationarchive_next_step = %d, the model's state when snapshot %d (steps_done %d) "
                             "was written is %s; field 136 holds %s bytes in the file" % (rec["pnext_step"], j - 1, sdj, mo[1], None if f136 is None else len(f136)), dict(spec=spec, value=val))
            else:
                st["persisted_cadence_state_equal"] = st.get("persisted_cadence_state_equal", 0) + 1
        else:
            f48 = ac.rec_value(rj, 48)
            if f48 is None or len(f48) != 8 or f48[::-1].hex() != rec["pnext"]:
                c.corr_break("persisted interval cadence: the restarted run starts with simulationarchive_next = %s, the file holds %s" % (rec["pnext"], None if f48 is None else f48[::-1].hex()), dict(spec=spec, value=val))
            else:
                st["persisted_cadence_state_equal"] = st.get("persisted_cadence_state_equal", 0) + 1
        if mode == "interval":
            line = "%s %d %s %s %s %s" % ("cadrestartR" if ac.probe_cadence_variant(rebound, wd) else "cadrestart", -1 if dt < 0 else 1, rec["pint"], rec["pnext"], ac.hex64(val), " ".join(h for h, _ in rec["hb"]))
            want_next = rec["next"]
        else:
            line = "cadrestartstep %d %d %d %s" % (rec["pstep"], rec["pnext_step"], val, " ".join(str(sd) for _, sd in rec["hb"]))
            want_next = str(rec["next_step"])
        flags, nx = run_driver(cad_drv, [line])[0].split()
        if flags.count("1") != n_after - n_img or nx != want_next:
            c.corr_break("cadence restart model: %d snapshots, next=%s; the real restart appended %d, next=%s (%s %s)" % (
                flags.count("1"), nx, n_after - n_img, want_next, mode, val), dict(mode=mode, value=val, rec=rec))
        else:
            st["cadence_restart_model_equal"] = st.get("cadence_restart_model_equal", 0) + 1
            dims["tie:cadence_restart_model"] = dims.get("tie:cadence_restart_model", 0) + 1
            if flags[0] == "1":
                st["cadence_restart_first_heartbeat_fires"] = st.get("cadence_restart_first_heartbeat_fires", 0) + 1
    c.count(("auto-restart", mode, integ, back, big))
    dims["restart:auto_" + mode + ("_short" if short else "")] = dims.get("restart:auto_" + mode + ("_short" if short else ""), 0) + 1
    if back:
        dims["restart:auto_backward"] = dims.get("restart:auto_backward", 0) + 1
    rep = dict(integrator=integ, mode=mode, value=val, tmax=tmax, particles=parts, crashed_blob=j, cut=k, rc=rc, steps_done_at_start=steps0, spec=spec)
    if tracker is not None and rc == 0:
        tracker.add(spec)
    if rc != 0:
        c.violation("auto-restart-died", "restart of an automatic archive from a crash image kills the process (status %s)" % rc, rep)
        return
    ok, det = compare_archives(rebound, img, full, wd)
    if not ok and short and det.get("n") and det["n"][0] == det["n"][1] + 1:
        c.violation(K_DUP, "automatic archive (interval %g < |dt| %g) after crash (blob %d, cut %d) + restart has %d snapshots, the uninterrupted run %d: the "
                    "restarted run writes the snapshot it was restarted from a second time" % (val, abs(dt), j, k, det["n"][0], det["n"][1]), rep)
    elif not ok:
        c.violation("auto-restart-differs", "automatic archive after crash (blob %d, cut %d) + restart differs from the uninterrupted run: %s" % (j, k, json.dumps(det)[:300]), rep)
    else:
        st["restart_equal"] += 1
        st["restarts"] += 1


def wall_restart_case(c, rebound, rng, wd, st, dims):
    """wall-time cadence: crash + restart.  The clock is the machine's, so the oracle is what does not depend on it: the
    completed snapshots survive unchanged, the archive stays readable, times never decrease, and (re-armed
    unconditionally, simulationarchive.c:652-657, theorem c07_cadence_restart_walltime_fires) the restarted run writes a
    snapshot at its very first heartbeat, i.e. at the time of the snapshot it was restarted from"""
    os.makedirs(wd, exist_ok=True)
    integ = rng.choice(["whfast", "leapfrog", "saba"])
    parts = [ac.gen_particle(rng, star=True)] + [ac.gen_particle(rng) for _ in range(2)]
    full, img = os.path.join(wd, "full.bin"), os.path.join(wd, "img.bin")
    nst = rng.randint(12, 20)

    def go(fn, fresh):
        def f():
            import warnings
            warnings.filterwarnings("ignore")
            if fresh:
                sim = rebound.Simulation()
                for p in parts:
                    sim.add(**p)
                sim.integrator = integ
                sim.dt = 0.01
            else:
                sim = rebound.Simulation(fn, snapshot=-1)
            sim.save_to_file(fn, walltime=1e-7)
            sim.integrate(0.01 * nst, exact_finish_time=0)
        return f
    if ac.fork_run(go(full, True)) != 0 or not os.path.exists(full):
        st["hazards"] += 1
        return
    b = open(full, "rb").read()
    blobs = ac.parse_archive(b)
    if len(blobs) < 4:
        return
    j = rng.randint(2, len(blobs) - 1)
    start, end = blobs[j - 1]["end"] - 12, blobs[j]["end"]
    k = rng.randint(0, end - start - 1)
    prev = b[:blobs[j - 1]["end"] - 4] + bytes(4)
    open(img, "wb").write(prev[:start] + b[start:end][:k] + prev[start + k:])
    rc = ac.fork_run(go(img, False))
    dims["restart:auto_walltime"] = dims.get("restart:auto_walltime", 0) + 1
    c.count(("auto-restart", "walltime", integ, False))
    rep = dict(integrator=integ, mode="walltime", particles=parts, crashed_blob=j, cut=k, rc=rc, steps=nst)
    if rc != 0:
        c.violation("auto-restart-died", "restart of a wall-time archive from a crash image kills the process (status %s)" % rc, rep)
        return
    ok, det = compare_archives(rebound, img, full, wd)
    tt = [struct.unpack("<d", bytes.fromhex(x)[::-1])[0] for x in det.get("t", [[]])[0]] if det.get("t") else []
    if det.get("error") or not det.get("n") or det["n"][0] < j or det["t"][0][:j] != det["t"][1][:j] or any(det["diff"][:j]):
        c.violation("auto-restart-differs", "wall-time archive after crash (blob %d, cut %d) + restart: the %d completed snapshots are not all there unchanged: %s" % (
            j, k, j, json.dumps(det)[:300]), rep)
    elif any(tt[i + 1] < tt[i] for i in range(len(tt) - 1)):
        c.violation("auto-restart-differs", "wall-time archive after restart: snapshot times decrease %s" % tt[:12], rep)
    elif det["n"][0] <= j or det["t"][0][j] != det["t"][0][j - 1]:
        c.corr_break("wall-time restart: the model (armWall, c07_cadence_restart_walltime_fires) says the first heartbeat of the restarted run writes a "
                     "snapshot at the restart time; the real archive has %d snapshots, t[%d..%d] = %s" % (det["n"][0], j - 1, j, det["t"][0][j - 1:j + 1]), rep)
    else:
        st["wall_restart_ok"] = st.get("wall_restart_ok", 0) + 1


if __name__ == "__main__":
    main("C07", run)
