"""C20 — changes of units and of reference frame are exact symmetries.

proof:   lean/RV/Props/C20.lean — unit algebra over any field + the regenerated unit tables
         against a committed independent reference; quaternion algebra, constructors
         (from-to incl. the antiparallel branch: full statement for the repaired variant,
         negation for the variant as found = finding F7), frame shifts ∀ N incl.
         first/second order variational shifts as formal derivatives
tie:     lean/RV/Model/{Rotation,Frame,Units}.lean run on IEEE doubles (drv_c20) vs every
         exported reb_vec3d_* / reb_rotation_* / reb_simulation_move_to_* / imul / iadd /
         isub routine (bitwise) and vs rebound.units (≤ 4 ulp, CPython `**` is libm pow)
search:  the property statement on the real code with exact-rational oracles: all unit
         triples (G, read-back, there-and-back, period), rotation invariants and
         constructor contracts incl. degenerate geometry, frame shifts with variational
         particles against exact truncated-polynomial (dual number) arithmetic
"""
import ctypes, itertools, json, math, os, shutil, sys, tempfile
from fractions import Fraction as Fr
sys.path.insert(0, os.path.dirname(os.path.abspath(__file__)))
from common import *
import extract_c20

ULP = 2.0 ** -52


# ----------------------------------------------------------------------------- helpers
def ulps(a, b, scale):
    if a != a or b != b:
        return 0.0 if (a != a and b != b) else float("inf")
    if a == b:
        return 0.0
    return abs(a - b) / (ULP * max(scale, 1e-300))


DIMS = {}


def dim(name, n=1):
    """coverage.dimensions: number of evaluated cases per crossed configuration dimension"""
    DIMS[name] = DIMS.get(name, 0) + n


REQUIRED_DIMS = [
    "roles: N_active < N / test particles (frame ops)", "roles: zero-mass and leading massless bodies (frame ops)",
    "variational: 1st order non-zero (frame ops)", "variational: 2nd order non-zero (frame ops)", "variational: test-particle variation (frame ops)",
    "variational: rotate 1st/2nd order/megno", "variational: convert_particle_units",
    "scale: N >= 300 (frame ops)", "geometry: centre of mass far from the origin and moving",
    "rotation: non-unit quaternion (exact law)", "rotation: zero / NaN / inf constructor arguments",
    "rotation: exactly antiparallel from_to", "rotation: non-unit newz with non-perpendicular newx",
    "history: op then continue, integrator ias15", "history: op then continue, integrator whfast safe_mode=1",
    "history: op then continue, integrator whfast safe_mode=0 + recalculate flag", "history: op then continue, integrator mercurius",
    "history: op then continue, integrator trace", "history: op then continue, integrator janus + recalculate flag",
    "history: op then continue, integrator saba safe_mode=0 + recalculate flag", "history: op then continue, integrator leapfrog",
    "history: op then continue, integrator eos", "history: op then continue, integrator bs",
    "time: dt < 0 after a frame op", "history: frame op, save/restore, continue",
    "units: particles added by orbital elements", "units: persisted through archive / copy / pickle",
    "units: G assigned manually then convert", "units: hash / N_active / t / dt untouched by conversion",
    "units: setter given a dict / upper case / any order", "operators: different N rejected", "operators: variational particles on one side only",
]


class Tie:
    """collects (op line, expected tokens, meta) and compares with the Lean driver"""

    def __init__(self, c, exe):
        self.c, self.exe = c, exe
        self.lines, self.expect, self.meta = [], [], []

    def add(self, line, expected, meta, tol=64.0, scale=None, soft=False):
        self.lines.append(line)
        self.expect.append(expected)
        self.meta.append((meta, tol, scale, soft))

    def run(self):
        got = run_driver(self.exe, self.lines) if self.lines else []
        return got


def hv(*xs):
    return " ".join(d2h(float(x)) for x in xs)


# ----------------------------------------------------------------------------- generators
def rvec(rng, scale=None):
    s = scale if scale is not None else rng.loguniform(1e-3, 1e3)
    return [rng.normal() * s for _ in range(3)]


def special_vectors():
    out = []
    for v in itertools.product([-1.0, 0.0, 1.0], repeat=3):
        if any(v):
            out.append(list(v))
    out += [[2.0, 3.0, -5.0], [1e-3, 1.0, 1.0], [1.0, 1e-8, 0.0], [3.0, 4.0, 0.0], [1e150, 1.0, 1.0][:3],
            [1e-160, 1e-160, 0.0]]
    return out


def gen_from_to(rng, i):
    """(from, to, class) covering the four branches of reb_rotation_init_from_to"""
    sp = special_vectors()
    # the witnesses of the theorems first (model-level counter-examples replayed on the real code)
    fixed = {0: ([1.0, 1.0, 1.0], [-1.0, -1.0, -1.0]), 1: ([1.0, 0.0, 0.0], [-1.0, 0.0, 0.0]), 2: ([0.0, 0.0, 1.0], [0.0, 0.0, -1.0]),
             3: ([0.0, 1.0, 0.0], [0.0, -2.0, 0.0]), 4: ([1.0, 2.0, 3.0], [-1.0, -2.0, -3.0]), 5: ([3.0, 0.0, 4.0], [-3.0, 0.0, -4.0])}
    if i in fixed:
        return fixed[i][0], fixed[i][1], "antiparallel-exact"
    k = i % 10
    if k == 0:      # exactly antiparallel, generic direction (F7 class)
        f = rvec(rng)
        s = rng.choice([1.0, 2.0, 0.5, 4.0, 1024.0])
        return f, [-s * x for x in f], "antiparallel-exact"
    if k == 1:      # exactly antiparallel, special direction
        f = rng.choice(sp)
        s = rng.choice([1.0, 2.0, 0.25])
        return f, [-s * x for x in f], "antiparallel-exact"
    if k == 2:      # nearly antiparallel
        f = rvec(rng)
        e = 10 ** -rng.uniform(3, 17)
        return f, [-x * rng.uniform(0.5, 2) + e * rng.normal() * abs(x + 1e-300) for x in f][:3], "antiparallel-near"
    if k == 3:      # parallel exactly / nearly
        f = rvec(rng)
        s = rng.choice([1.0, 2.0, 3.0, 0.1])
        e = rng.choice([0.0, 1e-15, 1e-8])
        return f, [s * x * (1 + e * rng.normal()) for x in f], "parallel"
    if k == 4:      # orthogonal (dot == 0 boundary of the first branch)
        f = rng.choice(sp)
        t = rng.choice(sp)
        return f, t, "special-pair"
    if k == 5:      # obtuse
        f = rvec(rng, 1.0)
        t = rvec(rng, 1.0)
        d = sum(a * b for a, b in zip(f, t))
        if d > 0:
            t = [-x for x in t]
        return f, t, "obtuse"
    if k == 6:
        f = rvec(rng, 1.0)
        t = rvec(rng, 1.0)
        d = sum(a * b for a, b in zip(f, t))
        if d < 0:
            t = [-x for x in t]
        return f, t, "acute"
    if k == 7:      # antiparallel up to one ulp in one component
        f = rvec(rng)
        t = [-x for x in f]
        j = rng.randint(0, 2)
        t[j] = math.nextafter(t[j], rng.choice([-1e308, 1e308]))
        return f, t, "antiparallel-near"
    return rvec(rng), rvec(rng), "random"


# ----------------------------------------------------------------------------- exact oracle (rationals)
def fr3(v):
    return [Fr(x) for x in v]


def fdot(a, b):
    return sum(x * y for x, y in zip(a, b))


def fcross(a, b):
    return [a[1] * b[2] - a[2] * b[1], a[2] * b[0] - a[0] * b[2], a[0] * b[1] - a[1] * b[0]]


def frot_matrix(q):
    """exact rotation matrix of a (not necessarily unit) quaternion, the *specification*
    v -> q v q^-1 (independent of REBOUND's t = 2 u×v formulation)"""
    ix, iy, iz, r = [Fr(x) for x in q]
    n = ix * ix + iy * iy + iz * iz + r * r
    if n == 0:
        return None
    m = [[r * r + ix * ix - iy * iy - iz * iz, 2 * (ix * iy - r * iz), 2 * (ix * iz + r * iy)],
         [2 * (ix * iy + r * iz), r * r - ix * ix + iy * iy - iz * iz, 2 * (iy * iz - r * ix)],
         [2 * (ix * iz - r * iy), 2 * (iy * iz + r * ix), r * r - ix * ix - iy * iy + iz * iz]]
    return [[e / n for e in row] for row in m]


def fapply(m, v):
    return [sum(m[i][j] * v[j] for j in range(3)) for i in range(3)]


# ----------------------------------------------------------------------------- rotations
def rotations(c, rebound, exe):
    clib = rebound.clibrebound
    from rebound.vectors import Vec3dBasic as V
    from rebound.rotation import Rotation as Q
    D = ctypes.c_double
    sig = {"reb_vec3d_mul": (V, [V, D]), "reb_vec3d_add": (V, [V, V]), "reb_vec3d_cross": (V, [V, V]),
           "reb_vec3d_dot": (D, [V, V]), "reb_vec3d_length_squared": (D, [V]), "reb_vec3d_normalize": (V, [V]),
           "reb_vec3d_rotate": (V, [V, Q]), "reb_rotation_mul": (Q, [Q, Q]), "reb_rotation_inverse": (Q, [Q]),
           "reb_rotation_conjugate": (Q, [Q]), "reb_rotation_normalize": (Q, [Q]), "reb_rotation_identity": (Q, []),
           "reb_rotation_init_angle_axis": (Q, [D, V]), "reb_rotation_init_from_to": (Q, [V, V]),
           "reb_rotation_init_orbit": (Q, [D, D, D]), "reb_rotation_init_to_new_axes": (Q, [V, V]),
           "reb_rotation_slerp": (Q, [Q, Q, D])}
    F = {}
    for n, (rt, at) in sig.items():
        f = getattr(clib, n)
        f.restype, f.argtypes = rt, at
        F[n[4:]] = f
    clib.reb_vec3d_irotate.restype = None
    clib.reb_vec3d_irotate.argtypes = [ctypes.POINTER(V), Q]
    clib.reb_rotation_length_squared.restype = D
    clib.reb_rotation_length_squared.argtypes = [Q]

    def vl(v):
        return [v.x, v.y, v.z]

    def ql(q):
        return [q.ix, q.iy, q.iz, q.r]

    def mkq(l):
        return Q(ix=l[0], iy=l[1], iz=l[2], r=l[3])

    lines, expect, meta = [], [], []
    tolf = {}           # line index -> tolerance factor (condition number of the construction)
    slerp_short = {}

    def add(line, exp, tag, soft=False):
        lines.append(line)
        expect.append(" ".join(d2h(x) for x in exp))
        meta.append((tag, soft))

    n = 20000 if c.thorough else 800
    rng = c.rng.fork()
    worst = {}
    hist = {}
    fails = []          # (key, what, replay)

    def note(k, v):
        if v == v:
            worst[k] = max(worst.get(k, 0.0), v)

    def runit(rng):
        """random unit-ish quaternion (exactly representable inputs, norm within rounding of 1)"""
        kind = rng.randint(0, 3)
        if kind == 0:
            q = [rng.normal() for _ in range(4)]
        elif kind == 1:
            q = [0.0, 0.0, 0.0, 0.0]
            q[rng.randint(0, 3)] = rng.choice([1.0, -1.0])
            return q
        elif kind == 2:   # small angle
            q = [1e-6 * rng.normal(), 1e-6 * rng.normal(), 1e-6 * rng.normal(), 1.0]
        else:             # near pi
            q = [rng.normal(), rng.normal(), rng.normal(), 1e-9 * rng.normal()]
        nrm = math.sqrt(math.fsum(x * x for x in q))
        return [x / nrm for x in q]

    # ---------------- primitives + algebraic laws on the real code
    for i in range(n):
        try:
            v, w = rvec(rng), rvec(rng)
            if i % 7 == 0:
                v = rng.choice(special_vectors())
            s = rng.normal() * rng.loguniform(1e-3, 1e3)
            p, q = runit(rng), runit(rng)
            if i % 11 == 0:      # arbitrary (non-unit) quaternions for the group operations
                p = [rng.normal() * 3 for _ in range(4)]
            V_, W_, P_, Q_ = V(*v), V(*w), mkq(p), mkq(q)
            add("vmul " + hv(*v, s), vl(F["vec3d_mul"](V_, s)), "vec3d_mul")
            add("vadd " + hv(*v, *w), vl(F["vec3d_add"](V_, W_)), "vec3d_add")
            add("cross " + hv(*v, *w), vl(F["vec3d_cross"](V_, W_)), "vec3d_cross")
            add("dot " + hv(*v, *w), [F["vec3d_dot"](V_, W_)], "vec3d_dot")
            add("len2 " + hv(*v), [F["vec3d_length_squared"](V_)], "vec3d_length_squared")
            add("normalize " + hv(*v), vl(F["vec3d_normalize"](V_)), "vec3d_normalize")
            pq = F["rotation_mul"](P_, Q_)
            add("qmul " + hv(*p, *q), ql(pq), "rotation_mul")
            add("qlen2 " + hv(*p), [clib.reb_rotation_length_squared(P_)], "rotation_length_squared")
            add("conj " + hv(*p), ql(F["rotation_conjugate"](P_)), "rotation_conjugate")
            add("qnormalize " + hv(*p), ql(F["rotation_normalize"](P_)), "rotation_normalize")
            pinv = F["rotation_inverse"](P_)
            add("inverse " + hv(*p), ql(pinv), "rotation_inverse")
            rv_ = F["vec3d_rotate"](V_, Q_)
            add("rotate " + hv(*v, *q), vl(rv_), "vec3d_rotate")
            tmp = V(*v)
            clib.reb_vec3d_irotate(ctypes.byref(tmp), Q_)
            if [d2h(x) for x in vl(tmp)] != [d2h(x) for x in vl(rv_)]:
                c.corr_break("reb_vec3d_irotate and reb_vec3d_rotate disagree", dict(v=v, q=q))
            c.count(("prim", i % 50))
            # ---- search: the laws, oracle = exact rational arithmetic on the same doubles
            sc = max(abs(x) for x in v) or 1.0
            scw = max(abs(x) for x in w) or 1.0
            nq = float(sum(Fr(x) ** 2 for x in q))
            if abs(nq - 1) < 1e-12:
                M = frot_matrix(q)
                ev = fapply(M, fr3(v))
                e = max(abs(float(Fr(a) - b)) for a, b in zip(vl(rv_), ev)) / sc
                note("rotate_vs_exact_qvq*", e)
                if not e <= 1e-13:
                    fails.append(("rotate-spec", "reb_vec3d_rotate differs from q v q^-1", dict(v=v, q=q, got=vl(rv_), err=e)))
                rw = F["vec3d_rotate"](W_, Q_)
                d0 = float(fdot(fr3(v), fr3(w)))
                d1 = float(fdot(fr3(vl(rv_)), fr3(vl(rw))))
                e = abs(d1 - d0) / (sc * scw)
                note("dot_preserved", e)
                if not e <= 1e-13:
                    fails.append(("rotate-dot", "rotation does not preserve the dot product", dict(v=v, w=w, q=q, before=d0, after=d1)))
                # cross product covariance (orientation preserved: angular momentum rotates as a vector)
                cr = F["vec3d_rotate"](V(*[float(x) for x in fcross(fr3(v), fr3(w))]), Q_)
                c2 = fcross(fr3(vl(rv_)), fr3(vl(rw)))
                e = max(abs(float(Fr(a) - b)) for a, b in zip(vl(cr), c2)) / (sc * scw)
                note("cross_covariant", e)
                if not e <= 1e-12:
                    fails.append(("rotate-cross", "rotation does not commute with the cross product", dict(v=v, w=w, q=q)))
                # inverse undoes
                back = F["vec3d_rotate"](rv_, F["rotation_inverse"](Q_))
                e = max(abs(a - b) for a, b in zip(vl(back), v)) / sc
                note("inverse_undoes", e)
                if not e <= 1e-13:
                    fails.append(("rotate-inverse", "rotating with the inverse does not undo the rotation", dict(v=v, q=q, back=vl(back))))
            npf = float(sum(Fr(x) ** 2 for x in p))
            if abs(npf - 1) > 1e-3:
                # a user-supplied non-unit quaternion: what reb_vec3d_rotate does is given exactly by c20_rotate_dot_general,
                # R v . R w = v.w + 4(|p|^2 - 1)(u x v).(u x w)
                rvp, rwp = vl(F["vec3d_rotate"](V_, P_)), vl(F["vec3d_rotate"](W_, P_))
                u_ = fr3(p[:3])
                pred = fdot(fr3(v), fr3(w)) + 4 * (sum(Fr(x) ** 2 for x in p) - 1) * fdot(fcross(u_, fr3(v)), fcross(u_, fr3(w)))
                gotd = fdot(fr3(rvp), fr3(rwp))
                e = abs(float(gotd - pred)) / (sc * scw * max(1.0, npf) ** 2)
                note("non_unit_rotate_dot_law", e)
                dim("rotation: non-unit quaternion (exact law)")
                if not e <= 1e-12:
                    fails.append(("rotate-nonunit-law", "reb_vec3d_rotate with a non-unit quaternion does not follow R v.R w = v.w + 4(|q|^2-1)(u x v).(u x w)", dict(v=v, w=w, q=p)))
            if abs(nq - 1) < 1e-12 and abs(npf - 1) < 1e-12:
                a = F["vec3d_rotate"](V_, pq)
                b = F["vec3d_rotate"](rv_, P_)
                e = max(abs(x - y) for x, y in zip(vl(a), vl(b))) / sc
                note("compose", e)
                if not e <= 1e-13:
                    fails.append(("rotate-compose", "rotate(p*q) v != rotate p (rotate q v)", dict(v=v, p=p, q=q, a=vl(a), b=vl(b))))
            # norm multiplicative, q * q^-1 = 1 (any non-zero quaternion)
            e = abs(float(sum(Fr(x) ** 2 for x in ql(pq))) - npf * nq) / max(npf * nq, 1e-300)
            note("norm_multiplicative", e)
            if not e <= 1e-13:
                fails.append(("norm-mul", "|p q|^2 != |p|^2 |q|^2", dict(p=p, q=q)))
            one = ql(F["rotation_mul"](P_, pinv))
            e = max(abs(a - b) for a, b in zip(one, [0, 0, 0, 1]))
            note("q_times_inverse", e)
            if not e <= 1e-13:
                fails.append(("mul-inverse", "p * inverse(p) != identity", dict(p=p, got=one)))
        except (ValueError, OverflowError, ZeroDivisionError) as ex:
            _lc = locals()
            fails.append(("nonfinite:rotation-laws", "the real code returned a non-finite value where the oracle expects a number (%r)" % (ex,),
                          {k_: repr(_lc[k_])[:400] for k_ in ['v', 'w', 'p', 'q', 's'] if k_ in _lc}))
    add("identity", ql(F["rotation_identity"]()), "rotation_identity")

    # ---------------- from_to (all branches)
    nft = 30000 if c.thorough else 1000
    variant_votes = {"asfound": 0, "fixed": 0, "both": 0, "neither": 0}
    ft_cases = []
    for i in range(nft):
        try:
            f, t, cls = gen_from_to(rng, i)
            if not all(1e-150 < math.sqrt(sum(x * x for x in v_)) < 1e150 for v_ in (f, t)):
                cls = "extreme-scale"    # |v|^2 under/overflows: the normalisation itself is inaccurate, results are ill-conditioned
            q = F["rotation_init_from_to"](V(*f), V(*t))
            qv = ql(q)
            lines.append("fromto " + hv(*f, *t)); expect.append(" ".join(d2h(x) for x in qv)); meta.append(("fromto", cls))
            lines.append("fromtofixed " + hv(*f, *t)); expect.append(" ".join(d2h(x) for x in qv)); meta.append(("fromtofixed", cls))
            _ff, _tt = fr3(f), fr3(t)
            _anti = fdot(_ff, _tt) < 0 and sum(x * x for x in fcross(_ff, _tt)) <= Fr(1, 10 ** 24) * fdot(_ff, _ff) * fdot(_tt, _tt)
            ft_cases.append((f, t, cls if not _anti else "antiparallel-near", qv))
            if cls == "antiparallel-exact":
                dim("rotation: exactly antiparallel from_to")
            # conditioning of the construction: the bisector from+to cancels when the vectors are nearly opposite
            _lf, _lt = math.sqrt(float(fdot(_ff, _ff))) or 1.0, math.sqrt(float(fdot(_tt, _tt))) or 1.0
            _hs = math.sqrt(sum((a / _lf + b / _lt) ** 2 for a, b in zip(f, t)))
            tolf[len(lines) - 1] = tolf[len(lines) - 2] = max(1.0, 2.0 / _hs) if _hs > 1e-9 else 1.0   # exactly opposite: own branch, well conditioned
            hist[cls] = hist.get(cls, 0) + 1
            c.count(("from_to", cls, i % 40))
            # ---- search: unit and maps from -> to (oracle: exact rational q v q^-1 on the returned doubles,
            #      directions normalised with math.fsum / sqrt independent of the C normalisation)
            lf = math.sqrt(float(sum(Fr(x) ** 2 for x in f)))
            lt_ = math.sqrt(float(sum(Fr(x) ** 2 for x in t)))
            if not (lf > 1e-150 and lt_ > 1e-150 and lf < 1e150 and lt_ < 1e150):
                continue
            nq = float(sum(Fr(x) ** 2 for x in qv)) if all(x == x for x in qv) else float("nan")
            # input class of F7: directions antiparallel to within a few ulp (measured exactly)
            ff, tt = fr3(f), fr3(t)
            cr2 = sum(x * x for x in fcross(ff, tt))
            antip = fdot(ff, tt) < 0 and cr2 <= Fr(1, 10 ** 30) * fdot(ff, ff) * fdot(tt, tt)
            key = "from_to:" + cls
            if antip:
                # the known defect has a definite signature (theorem c20_from_to_antiparallel_as_found):
                # r = 0 and |q|^2 = 1 - m^2, m the smallest |component| of the direction.  Anything else
                # on the same inputs is a different failure and is reported under its own key.
                m2 = min((x / lf) ** 2 for x in f)
                sig_ok = all(x == x for x in qv) and qv[3] == 0.0 and abs(nq - (1 - m2)) <= 1e-12
                key = "F7:from_to-antiparallel" if sig_ok else "from_to:antiparallel-unexpected"
            bad = None
            if not abs(nq - 1) <= 1e-13:
                bad = "from_to rotation is not unit: |q|^2 = %r" % nq
            else:
                fn = [x / lf for x in f]
                tn = [x / lt_ for x in t]
                # apply through the real code (reb_vec3d_rotate) and through the exact specification
                got = vl(F["vec3d_rotate"](V(*fn), q))
                e = max(abs(a - b) for a, b in zip(got, tn))
                M = frot_matrix(qv)
                e2 = max(abs(float(a) - b) for a, b in zip(fapply(M, fr3(fn)), tn))
                note("from_to_maps[" + cls + "]", max(e, e2))
                tolmap = 1e-13 if cls != "antiparallel-near" else 1e-7
                if not (e <= tolmap and e2 <= tolmap):
                    bad = "from_to rotation does not map from to to (error %.3g)" % max(e, e2)
            if cls != "antiparallel-near":
                note("from_to_norm[" + cls + "]", abs(nq - 1))
            if bad:
                fails.append((key, bad, dict(fromv=f, tov=t, q=qv, norm2=nq, cls=cls)))
        except (ValueError, OverflowError, ZeroDivisionError) as ex:
            _lc = locals()
            fails.append(("nonfinite:from_to", "the real code returned a non-finite value where the oracle expects a number (%r)" % (ex,),
                          {k_: repr(_lc[k_])[:400] for k_ in ['f', 't', 'cls'] if k_ in _lc}))

    # ---------------- angle-axis, orbit, new axes, slerp
    nc = 10000 if c.thorough else 500
    for i in range(nc):
        try:
            ang = rng.choice([0.0, math.pi, -math.pi, math.pi / 2, 2 * math.pi, 1e-9, rng.uniform(-10, 10), rng.uniform(-1e3, 1e3)])
            ax = rvec(rng) if i % 5 else rng.choice(special_vectors())
            q = F["rotation_init_angle_axis"](ang, V(*ax))
            add("angleaxis " + hv(ang, *ax), ql(q), "rotation_init_angle_axis")
            c.count(("angle_axis", i % 40))
            la = math.sqrt(float(sum(Fr(x) ** 2 for x in ax)))
            if 1e-150 < la < 1e150:
                nq = float(sum(Fr(x) ** 2 for x in ql(q)))
                note("angle_axis_norm", abs(nq - 1))
                # oracle: Rodrigues formula with math.cos/math.sin of the full angle
                an = [x / la for x in ax]
                v = rvec(rng, 1.0)
                got = vl(F["vec3d_rotate"](V(*v), q))
                cr = [an[1] * v[2] - an[2] * v[1], an[2] * v[0] - an[0] * v[2], an[0] * v[1] - an[1] * v[0]]
                dt = sum(a * b for a, b in zip(an, v))
                want = [v[k] * math.cos(ang) + cr[k] * math.sin(ang) + an[k] * dt * (1 - math.cos(ang)) for k in range(3)]
                e = max(abs(a - b) for a, b in zip(got, want))
                note("angle_axis_rodrigues", e / max(1.0, abs(ang)))
                if not abs(nq - 1) <= 1e-13 or not e <= 1e-12 * max(1.0, abs(ang)):
                    fails.append(("angle-axis", "angle-axis rotation is not the Rodrigues rotation / not unit", dict(angle=ang, axis=ax, q=ql(q), v=v, got=got, want=want)))
            Om, inc, om = [rng.choice([0.0, math.pi, math.pi / 2, rng.uniform(-7, 7)]) for _ in range(3)]
            q = F["rotation_init_orbit"](Om, inc, om)
            add("orbit " + hv(Om, inc, om), ql(q), "rotation_init_orbit")
            c.count(("orbit", i % 40))
            nq = float(sum(Fr(x) ** 2 for x in ql(q)))
            note("orbit_norm", abs(nq - 1))
            # oracle: Murray & Dermott eq. 2.119-2.121 with full-angle sines and cosines
            cO, sO, ci, si, co, so = math.cos(Om), math.sin(Om), math.cos(inc), math.sin(inc), math.cos(om), math.sin(om)
            P = [[cO * co - sO * so * ci, -cO * so - sO * co * ci, sO * si],
                 [sO * co + cO * so * ci, -sO * so + cO * co * ci, -cO * si],
                 [so * si, co * si, ci]]
            v = rvec(rng, 1.0)
            got = vl(F["vec3d_rotate"](V(*v), q))
            want = [sum(P[a][b] * v[b] for b in range(3)) for a in range(3)]
            e = max(abs(a - b) for a, b in zip(got, want))
            note("orbit_MD2.121", e)
            if not abs(nq - 1) <= 1e-13 or not e <= 1e-13:
                fails.append(("orbit", "Rotation.orbit is not Murray-Dermott 2.121 / not unit", dict(Omega=Om, inc=inc, omega=om, q=ql(q), v=v, got=got, want=want)))
            # to_new_axes
            kind = i % 6
            if kind == 0:
                nz = rng.choice([[0.0, 0.0, -1.0], [0.0, 0.0, 1.0], [0.0, 0.0, -3.0], [1.0, 0.0, 0.0], [0.0, -2.0, 0.0]])
            else:
                nz = rvec(rng)
            nx = rvec(rng)
            if kind == 1:   # newx such that the rotated newx is antiparallel to x
                nx = [-1.0, 0.0, 0.0] if nz[0] == 0 else nx
            if kind == 2:
                nz = [0.0, 0.0, -1.0]; nx = [-1.0, 0.0, 0.0]
            if i == 0:
                nz = [0.0, 0.0, 2.0]; nx = [1.0, 0.0, 1.0]     # witness of c20_to_new_axes_F18_negation
            q = F["rotation_init_to_new_axes"](V(*nz), V(*nx))
            # conditioning of the orthogonalisation newx - (newx.z)z: rounding differences are amplified by |newx|/|newx_perp|
            _lz = math.sqrt(sum(x * x for x in nz)) or 1.0
            _dp = sum(a * b for a, b in zip(nz, nx)) / _lz
            _perp = math.sqrt(max(sum((a - _dp * b / _lz) ** 2 for a, b in zip(nx, nz)), 1e-300))
            _cond = max(1.0, math.sqrt(sum(x * x for x in nx)) / _perp, math.sqrt(sum(x * x for x in nx)) * max(_lz, 1.0) / _perp)
            try:
                _zn = [x / _lz for x in nz]
                _c1 = 2.0 / max(math.sqrt(sum((a + b) ** 2 for a, b in zip(_zn, [0, 0, 1]))), 1e-300)
                _q1 = F["rotation_init_from_to"](V(*_zn), V(0, 0, 1))
                _x2 = vl(F["vec3d_rotate"](V(*[a - _dp * b for a, b in zip(nx, _zn)]), _q1))
                _l2 = math.sqrt(sum(x * x for x in _x2)) or 1.0
                _c2 = 2.0 / max(math.sqrt(sum((a / _l2 + b) ** 2 for a, b in zip(_x2, [1, 0, 0]))), 1e-300)
                # exactly opposite vectors take the dedicated (well conditioned) branch
                _c1 = _c1 if _c1 < 1e9 else 1.0
                _c2 = _c2 if _c2 < 1e9 else 1.0
                _cond = max(_cond, _c1, _c2, _cond * _c2)
            except Exception:
                pass
            if not _cond == _cond:
                _cond = 1.0
            for vv in ("00", "10", "01", "11"):
                tolf[len(lines)] = _cond
                lines.append("newaxes" + vv + " " + hv(*nz, *nx)); expect.append(" ".join(d2h(x) for x in ql(q))); meta.append(("newaxes" + vv, "newaxes"))
            c.count(("new_axes", i % 40))
            lz = math.sqrt(sum(x * x for x in nz))
            zn = [x / lz for x in nz]
            dp = sum(a * b for a, b in zip(zn, nx))
            if abs(lz - 1) > 1e-3 and abs(dp) > 1e-3 * math.sqrt(sum(x * x for x in nx)):
                dim("rotation: non-unit newz with non-perpendicular newx")
            xo = [a - dp * b for a, b in zip(nx, zn)]
            lx = math.sqrt(sum(x * x for x in xo))
            if lx > 1e-6 * math.sqrt(sum(x * x for x in nx)) and all(x == x for x in ql(q)):
                xn = [x / lx for x in xo]
                nq = float(sum(Fr(x) ** 2 for x in ql(q)))
                gz = vl(F["vec3d_rotate"](V(*zn), q))
                gx = vl(F["vec3d_rotate"](V(*xn), q))
                e = max(max(abs(a - b) for a, b in zip(gz, [0, 0, 1])), max(abs(a - b) for a, b in zip(gx, [1, 0, 0])))
                cond = max(math.sqrt(sum(x * x for x in nx)) / lx, _cond)     # incl. the conditioning of the two from_to stages
                note("new_axes_maps", e / cond)
                note("new_axes_norm", abs(nq - 1))
                if not abs(nq - 1) <= 1e-13 or not e <= 1e-13 * cond:
                    nonunit = abs(lz - 1) > 1e-12 and abs(dp) > 1e-12 * math.sqrt(sum(x * x for x in nx))
                    if nonunit:
                        # signature of the known defect (theorem c20_to_new_axes_F18_negation): a unit quaternion
                        # that takes the *wrongly* orthogonalised newx - (newz.newx) zhat to the x axis
                        d0 = sum(a * b for a, b in zip(nz, nx))
                        xw = [a - d0 * b for a, b in zip(nx, zn)]
                        lw = math.sqrt(sum(x * x for x in xw))
                        gw = vl(F["vec3d_rotate"](V(*[x / lw for x in xw]), q)) if lw > 0 else [float("nan")] * 3
                        sig_ok = abs(nq - 1) <= 1e-13 and max(abs(a - b) for a, b in zip(gw, [1, 0, 0])) <= 1e-12 * max(1.0, math.sqrt(sum(x * x for x in nx)) / lw)
                        nonunit = sig_ok
                    fails.append(("F18:to_new_axes-nonunit-newz" if nonunit else "new-axes",
                                  "to_new_axes does not map newz->z, newx->x / not unit (|newz| = %.3g, newx not perpendicular: %s)" % (lz, nonunit),
                                  dict(newz=nz, newx=nx, q=ql(q), gz=gz, gx=gx)))
            # slerp
            q1, q2 = runit(rng), runit(rng)
            if i % 4 == 0:
                q2 = list(q1)
            if i % 4 == 1:
                q2 = [-x for x in q1]
                if i % 8 == 5:      # nearly antipodal: the short-cut branch returns a nearly zero quaternion
                    eps_ = 10 ** -rng.uniform(5, 9)
                    q2 = [-x + eps_ * rng.normal() for x in q1]
                    n_ = math.sqrt(math.fsum(x * x for x in q2)); q2 = [x / n_ for x in q2]
            if i % 4 == 2:
                eps = 10 ** -rng.uniform(3, 9)
                q2 = [x + eps * rng.normal() for x in q1]
            t = rng.choice([0.0, 1.0, 0.5, rng.uniform(0, 1)])
            qsl = F["rotation_slerp"](mkq(q1), mkq(q2), t)
            add("slerp " + hv(1e-4, 0.5, *q1, *q2, t), ql(qsl), "rotation_slerp")
            c.count(("slerp", i % 40))
            cs = math.fsum(a * b for a, b in zip(q1, q2))
            if abs(cs) < 1 - 1e-6 and abs(math.fsum(a * a for a in q1) - 1) < 1e-12 and abs(math.fsum(a * a for a in q2) - 1) < 1e-12:
                # interpolation contract: unit, at angle t*theta from q1 and (1-t)*theta from q2 on the great circle
                th = math.acos(cs)
                res = ql(qsl)
                sn = math.sin(th)
                e = max(abs(math.fsum(a * a for a in res) - 1),
                        abs(math.fsum(a * b for a, b in zip(q1, res)) - math.cos(t * th)),
                        abs(math.fsum(a * b for a, b in zip(q2, res)) - math.cos((1 - t) * th))) * sn
                note("slerp_great_circle", e)
                if not e <= 1e-12:
                    fails.append(("slerp", "slerp result is not on the great circle at parameter t", dict(q1=q1, q2=q2, t=t, got=res)))
            elif abs(cs) < 1 - 1e-13 and abs(math.fsum(a * a for a in q1) - 1) < 1e-12 and abs(math.fsum(a * a for a in q2) - 1) < 1e-12 \
                    and math.sqrt(1 - cs * cs) < 0.5e-4:
                # short-cut branch |sin theta| < QUATERNION_EPS: the mean (q1+q2)/2, |.|^2 = (1 + q1.q2)/2 (theorem c20_slerp_shortcuts)
                res = ql(qsl)
                e = abs(math.fsum(a * a for a in res) - (1 + cs) / 2)
                note("slerp_shortcut_norm2_is_(1+c)/2", e)
                slerp_short["cases"] = slerp_short.get("cases", 0) + 1
                slerp_short["min_norm2"] = min(slerp_short.get("min_norm2", 1.0), math.fsum(a * a for a in res))
                if not e <= 1e-12:
                    fails.append(("slerp-shortcut", "slerp short-cut branch is not the mean of its arguments", dict(q1=q1, q2=q2, t=t, got=res)))
        except (ValueError, OverflowError, ZeroDivisionError) as ex:
            _lc = locals()
            fails.append(("nonfinite:rotation-constructors", "the real code returned a non-finite value where the oracle expects a number (%r)" % (ex,),
                          {k_: repr(_lc[k_])[:400] for k_ in ['ang', 'ax', 'Om', 'inc', 'om', 'nz', 'nx', 'q1', 'q2', 't'] if k_ in _lc}))

    # ---------------- zero / NaN / inf arguments: the constructors return NaN silently (no error path); model and code must agree
    nanv, infv = float("nan"), float("inf")
    degs = [[0.0, 0.0, 0.0], [nanv, 0.0, 1.0], [infv, 0.0, 0.0], [0.0, -0.0, 0.0], [1e-200, 0.0, 0.0], [1e200, 1e200, 0.0]]
    okv = [[1.0, 0.0, 0.0], [0.3, -2.0, 1.5]]
    for dv in degs:
        for ov in okv:
            for f_, t_ in ((dv, ov), (ov, dv)):
                q = F["rotation_init_from_to"](V(*f_), V(*t_))
                for opn in ("fromto", "fromtofixed"):
                    lines.append(opn + " " + hv(*f_, *t_)); expect.append(" ".join(d2h(x) for x in ql(q))); meta.append((opn, "degenerate-input"))
                q = F["rotation_init_to_new_axes"](V(*f_), V(*t_))
                for vv in ("00", "10", "01", "11"):
                    lines.append("newaxes" + vv + " " + hv(*f_, *t_)); expect.append(" ".join(d2h(x) for x in ql(q))); meta.append(("newaxes" + vv, "degenerate-input"))
                dim("rotation: zero / NaN / inf constructor arguments", 2)
        for ang in (1.0, nanv, infv, 0.0):
            add("angleaxis " + hv(ang, *dv), ql(F["rotation_init_angle_axis"](ang, V(*dv))), "rotation_init_angle_axis")
            dim("rotation: zero / NaN / inf constructor arguments")
        add("normalize " + hv(*dv), vl(F["vec3d_normalize"](V(*dv))), "vec3d_normalize")
    for ang3 in ((nanv, 0.1, 0.2), (0.1, infv, 0.2), (0.0, 0.0, 0.0)):
        add("orbit " + hv(*ang3), ql(F["rotation_init_orbit"](*ang3)), "rotation_init_orbit")
    # ---------------- run the model
    c.log("rotations: %d model lines through drv_c20" % len(lines))
    got = run_driver(exe, lines)
    nbit = ndis = 0
    first = None
    per = {}
    VAR = ["fromto", "fromtofixed", "newaxes00", "newaxes10", "newaxes01", "newaxes11"]
    vbit = {}
    ft_match = {k: [0, 0] for k in VAR}
    ft_bad = {k: None for k in VAR}
    if len(got) != len(lines):
        c.corr_break("drv_c20 returned %d lines for %d ops" % (len(got), len(lines)))
        return
    for idx_, (g, e, (tag, cls), l) in enumerate(zip(got, expect, meta, lines)):
        per[tag] = per.get(tag, 0) + 1
        same = g.split() == e.split()
        okk = same
        if not same:
            try:
                gv, ev = [h2d(x) for x in g.split()], [h2d(x) for x in e.split()]
                sc = max([abs(x) for x in ev + gv if x == x and abs(x) != float("inf")] + [1e-300])
                okk = len(gv) == len(ev) and all(ulps(a, b, sc) <= 64 * tolf.get(idx_, 1.0) for a, b in zip(gv, ev))
            except Exception:
                okk = False
        if tag in ft_match:
            # the model variants differ only in the exactly-antiparallel branch / the orthogonalisation
            ft_match[tag][0] += 1
            if okk or cls in ("antiparallel-near", "extreme-scale"):
                ft_match[tag][1] += 1
            elif ft_bad[tag] is None:
                ft_bad[tag] = dict(op_line=l, model=g, impl=e, cls=cls)
            if not same:
                vbit[tag] = vbit.get(tag, 0) + 1
            continue
        if not same:
            nbit += 1
            if not okk:
                ndis += 1
                if first is None:
                    first = dict(routine=tag, op_line=l, model=g, impl=e)
    # which variant of the antiparallel branch / of the orthogonalisation does the compiled code implement?
    full = lambda k: ft_match[k][0] == ft_match[k][1]
    f7 = "0" if full("fromto") else ("1" if full("fromtofixed") else None)
    f18 = None
    if f7 is not None:
        f18 = "0" if full("newaxes" + f7 + "0") else ("1" if full("newaxes" + f7 + "1") else None)
    c.cov["from_to_model_variant_matching_the_code"] = {"0": "as found (antiparallel axis not normalised, F7)", "1": "repaired (fixes/F7.diff)", None: "neither"}[f7]
    c.cov["to_new_axes_model_variant_matching_the_code"] = {"0": "as found (dot product with the un-normalised newz, F18)", "1": "repaired (fixes/C20-to-new-axes-orthogonalise.diff)", None: "neither"}[f18]
    if f7 is not None:
        nbit += vbit.get("fromto" if f7 == "0" else "fromtofixed", 0)
        if f18 is not None:
            nbit += vbit.get("newaxes" + f7 + f18, 0)
    if f7 is None:
        c.corr_break("reb_rotation_init_from_to agrees with neither model variant (as found: %d/%d, repaired: %d/%d)"
                     % (ft_match["fromto"][1], ft_match["fromto"][0], ft_match["fromtofixed"][1], ft_match["fromtofixed"][0]), ft_bad["fromto"])
    elif f18 is None:
        c.corr_break("reb_rotation_init_to_new_axes agrees with neither model variant (as found: %d/%d, repaired: %d/%d)"
                     % (ft_match["newaxes" + f7 + "0"][1], ft_match["newaxes" + f7 + "0"][0], ft_match["newaxes" + f7 + "1"][1], ft_match["newaxes" + f7 + "1"][0]),
                     ft_bad["newaxes" + f7 + "0"])
    c.cov["rotation_model_lines"] = len(lines)
    c.cov["rotation_lines_per_routine"] = per
    c.cov["rotation_bitwise_mismatches_within_tolerance"] = nbit - ndis
    c.cov["rotation_disagreements"] = ndis
    c.cov["from_to_branch_histogram"] = hist
    c.cov["rotation_worst_errors_measured"] = {k: float("%.3g" % v) for k, v in sorted(worst.items())}
    if ndis:
        c.corr_break("%d rotation model/implementation lines differ; first: %s" % (ndis, first["routine"]), first)
    # ---------------- Python Rotation class = the C functions (thin wrapper): same answers through the class
    npy = 0
    pybroken = False
    for f, t, cls, qv in ft_cases[:200]:
        r = rebound.Rotation(fromv=f, tov=t)
        if [d2h(x) for x in [r.ix, r.iy, r.iz, r.r]] != [d2h(x) for x in qv] and not pybroken:
            c.corr_break("rebound.Rotation(fromv, tov) differs from reb_rotation_init_from_to", dict(f=f, t=t))
            pybroken = True
        lf = math.sqrt(sum(x * x for x in f)); lt_ = math.sqrt(sum(x * x for x in t))
        if cls not in ("antiparallel-exact", "antiparallel-near") and 1e-100 < lf < 1e100 and 1e-100 < lt_ < 1e100:
            img = r * f
            e = max(abs(a / lf - b / lt_) for a, b in zip([img.x, img.y, img.z], t))
            if not e <= 1e-12:
                fails.append(("py-from_to", "rebound.Rotation(fromv=f, tov=t) * f is not along t", dict(fromv=f, tov=t, image=[img.x, img.y, img.z])))
        r2 = rebound.Rotation.from_to(f, t)
        v = r2 * [1.0, 2.0, 3.0]
        w = vl(F["vec3d_rotate"](V(1.0, 2.0, 3.0), mkq(qv)))
        if [d2h(x) for x in [v.x, v.y, v.z]] != [d2h(x) for x in w] and not pybroken:
            c.corr_break("Rotation.__mul__(vector) differs from reb_vec3d_rotate (through Rotation.from_to)", dict(f=f, t=t))
            pybroken = True
        npy += 1
    for i in range(100):
        ang = rng.uniform(-7, 7); ax = rvec(rng)
        r = rebound.Rotation(angle=ang, axis=ax)
        q = F["rotation_init_angle_axis"](ang, V(*ax))
        ri = r.inverse(); qi = F["rotation_inverse"](q)
        ro = rebound.Rotation.orbit(Omega=ang, inc=ax[0], omega=ax[1]); qo = F["rotation_init_orbit"](ang, ax[0], ax[1])
        rm = r * ro; qm = F["rotation_mul"](q, qo)
        rn = rebound.Rotation.to_new_axes(newz=ax, newx=[ax[1], -ax[0], 0.3]); qn = F["rotation_init_to_new_axes"](V(*ax), V(ax[1], -ax[0], 0.3))
        for a, b, nm in ((r, q, "angle/axis"), (ri, qi, "inverse"), (ro, qo, "orbit"), (rm, qm, "__mul__"), (rn, qn, "to_new_axes")):
            if [d2h(x) for x in ql(a)] != [d2h(x) for x in ql(b)] and not pybroken:
                c.corr_break("rebound.Rotation %s differs from the C routine" % nm, dict(angle=ang, axis=ax))
                pybroken = True
        # default x axis of to_new_axes: z cross newz
        rn2 = rebound.Rotation.to_new_axes(newz=ax)
        gz = rn2 * [x for x in ax]
        lz = math.sqrt(sum(x * x for x in ax))
        e = max(abs(a - b) for a, b in zip([gz.x / lz, gz.y / lz, gz.z / lz], [0, 0, 1]))
        if not e <= 1e-13:
            fails.append(("new-axes-default", "to_new_axes(newz) does not map newz to z", dict(newz=ax, got=[gz.x, gz.y, gz.z])))
        npy += 1
        c.count(("pyrotation", i % 20))
    c.cov["python_rotation_class_cases"] = npy
    c.cov["slerp_shortcut_branch"] = slerp_short
    # simulation / particle rotation = the vector rotation on every particle (positions and velocities),
    # energy and |L| preserved (oracle: exact rational kinetic energy and pair distances)
    nsim = 80 if c.thorough else 16
    sim_rot_var_cases = {}
    for i in range(nsim):
        sim = rebound.Simulation()
        N = rng.randint(2, 6)
        for k in range(N):
            sim.add(m=rng.loguniform(1e-3, 1), x=rng.normal(), y=rng.normal(), z=rng.normal(), vx=rng.normal(), vy=rng.normal(), vz=rng.normal())
        # variational particles with NON-ZERO data: reb_simulation_irotate must rotate all N particles, a variation
        # being the derivative of a vector transforms with the same (linear) rotation (theorem c20_rotate_variations)
        vmode = i % 4
        if N >= 3 and i % 2 == 1:
            sim.N_active = rng.randint(1, N - 1)      # test particles are rotated like everything else
            sim.testparticle_type = i % 4 // 2
            dim("roles: N_active < N / test particles (frame ops)")
        v1 = None
        if vmode in (1, 2):
            v1 = sim.add_variation()
        if vmode == 2:
            sim.add_variation(order=2, first_order=v1)
            sim.add_variation(testparticle=rng.randint(0, N - 1))
        if vmode == 3:
            sim.init_megno(seed=rng.randint(1, 10 ** 6))
        if vmode in (1, 2):
            for k in range(N, sim.N):
                pv = sim.particles[k]
                pv.m = rng.normal() * 0.1
                pv.x, pv.y, pv.z, pv.vx, pv.vy, pv.vz = [rng.normal() for _ in range(6)]
        pre = [(p.m, [p.x, p.y, p.z], [p.vx, p.vy, p.vz]) for p in sim.particles]
        E0 = sim.energy(); L0 = sim.angular_momentum()
        o0 = sim.particles[1].orbit(primary=sim.particles[0])
        o0v = (o0.a, o0.e, vl(o0.hvec), vl(o0.evec))
        qv = runit(rng)
        r = mkq(qv)
        sim.rotate(r)
        E1 = sim.energy(); L1 = sim.angular_momentum()
        # orbital elements of the rotated system (reb_orbit_from_particle on the real code): h and the eccentricity
        # vector rotate as vectors (theorem c20_rotate_orbit_vectors); e and the inclination from the rotated z axis are unchanged
        o1 = sim.particles[1].orbit(primary=sim.particles[0])
        hs_ = math.sqrt(sum(x * x for x in o0v[2])) or 1.0
        eh = max(abs(a - b) for a, b in zip(vl(o1.hvec), vl(F["vec3d_rotate"](V(*o0v[2]), r)))) / hs_
        ee = max(abs(a - b) for a, b in zip(vl(o1.evec), vl(F["vec3d_rotate"](V(*o0v[3]), r)))) / max(1.0, o0v[1])
        zr = vl(F["vec3d_rotate"](V(0.0, 0.0, 1.0), r))
        ci0 = o0v[2][2] / hs_
        ci1 = sum(a * b for a, b in zip(vl(o1.hvec), zr)) / hs_
        note("orbit_hvec_rotates", eh); note("orbit_evec_rotates", ee); note("orbit_e_invariant", abs(o1.e - o0v[1]) / max(1.0, o0v[1]))
        note("orbit_cos_inc_wrt_rotated_z", abs(ci1 - ci0))
        if not (eh <= 1e-13 and ee <= 1e-12 and abs(o1.e - o0v[1]) <= 1e-12 * max(1.0, o0v[1]) and abs(ci1 - ci0) <= 1e-13):
            fails.append(("orbit-rotate", "orbital elements of the rotated system are not the rotated elements (h, e vector, e, inclination)",
                          dict(q=qv, pre=pre[:2], h0=o0v[2], h1=vl(o1.hvec), e0=o0v[3], e1=vl(o1.evec))))
        for k, p in enumerate(sim.particles):
            wantx = vl(F["vec3d_rotate"](V(*pre[k][1]), r)); wantv = vl(F["vec3d_rotate"](V(*pre[k][2]), r))
            if [d2h(x) for x in [p.x, p.y, p.z, p.vx, p.vy, p.vz]] != [d2h(x) for x in wantx + wantv]:
                c.corr_break("reb_simulation_irotate differs from reb_vec3d_rotate on particle %d of %d (N_var=%d)" % (k, sim.N, sim.N_var), dict(q=qv, pre=pre[k]))
        # search: variational particles after Simulation.rotate = exact q v q^-1 of the variational particles before,
        # and = the finite difference of two rotated shadow simulations (first-order configuration)
        Mq = frot_matrix(qv)
        ev = 0.0
        for k in range(N, sim.N):
            pk = sim.particles[k]
            wx = fapply(Mq, fr3(pre[k][1])); wv = fapply(Mq, fr3(pre[k][2]))
            sck = max([abs(x) for x in pre[k][1] + pre[k][2]] + [1e-300])
            ev = max(ev, max(abs(float(Fr(a) - b)) for a, b in zip([pk.x, pk.y, pk.z, pk.vx, pk.vy, pk.vz], wx + wv)) / sck)
        if sim.N > N:
            note("sim_rotate_variations_vs_exact", ev)
            dim("variational: rotate 1st/2nd order/megno")
            sim_rot_var_cases[vmode] = sim_rot_var_cases.get(vmode, 0) + 1
            if not ev <= 1e-13:
                fails.append(("sim-rotate-variations", "Simulation.rotate does not rotate the variational particles (N=%d, N_var=%d, mode %d): they are no longer the derivative of the rotated coordinates" % (sim.N, sim.N_var, vmode),
                              dict(q=qv, N_real=N, N_var=sim.N_var, pre=pre, post=[[p.x, p.y, p.z, p.vx, p.vy, p.vz] for p in sim.particles], err=ev)))
        if vmode in (1, 2):
            hstep = 2.0 ** -20
            sA, sB = rebound.Simulation(), rebound.Simulation()
            for k in range(N):
                sA.add(m=pre[k][0], x=pre[k][1][0], y=pre[k][1][1], z=pre[k][1][2], vx=pre[k][2][0], vy=pre[k][2][1], vz=pre[k][2][2])
                dk = pre[N + k]
                sB.add(m=pre[k][0], x=pre[k][1][0] + hstep * dk[1][0], y=pre[k][1][1] + hstep * dk[1][1], z=pre[k][1][2] + hstep * dk[1][2],
                       vx=pre[k][2][0] + hstep * dk[2][0], vy=pre[k][2][1] + hstep * dk[2][1], vz=pre[k][2][2] + hstep * dk[2][2])
            sA.rotate(r); sB.rotate(r)
            efd = 0.0
            for k in range(N):
                pa_, pb_, pk = sA.particles[k], sB.particles[k], sim.particles[N + k]
                for f_ in COMPS6:
                    efd = max(efd, abs((getattr(pb_, f_) - getattr(pa_, f_)) / hstep - getattr(pk, f_)))
            note("sim_rotate_variations_vs_finite_differences", efd if efd < 1e-3 else 0.0)
            if not efd <= 1e-7 * max(1.0, max(abs(x) for row in pre for x in row[1] + row[2])):
                fails.append(("sim-rotate-variations", "variational particles after Simulation.rotate differ from the finite difference of two rotated shadow simulations (%.3g)" % efd,
                              dict(q=qv, N_real=N, pre=pre, err=efd)))
        l0 = math.sqrt(sum(x * x for x in L0)); l1 = math.sqrt(sum(x * x for x in L1))
        note("sim_rotate_energy", abs(E1 - E0) / abs(E0))
        note("sim_rotate_|L|", abs(l1 - l0) / l0)
        Lr = vl(F["vec3d_rotate"](V(*L0), r))
        eL = max(abs(a - b) for a, b in zip(Lr, L1)) / l0
        note("sim_rotate_L_vector", eL)
        # pairwise distances, exact
        dmax = 0.0
        for a in range(N):
            for b in range(a):
                d0 = sum((Fr(x) - Fr(y)) ** 2 for x, y in zip(pre[a][1], pre[b][1]))
                pa, pb = sim.particles[a], sim.particles[b]
                d1 = sum((Fr(x) - Fr(y)) ** 2 for x, y in zip([pa.x, pa.y, pa.z], [pb.x, pb.y, pb.z]))
                dmax = max(dmax, abs(float(d1 - d0)) / float(d0))
        note("sim_rotate_pair_distance2", dmax)
        if not (abs(E1 - E0) <= 1e-12 * abs(E0) + 1e-13 and abs(l1 - l0) <= 1e-12 * l0 and dmax <= 1e-13 and eL <= 1e-12):
            fails.append(("sim-rotate", "Simulation.rotate changes energy / |L| / pair distances", dict(q=qv, pre=pre, dE=E1 - E0, dL=l1 - l0, dd=dmax)))
        c.count(("simrotate", N, i % 3))
    c.cov["sim_rotate_cases_with_variational_particles_by_mode"] = {"first order": sim_rot_var_cases.get(1, 0), "first+second order+test particle": sim_rot_var_cases.get(2, 0), "megno": sim_rot_var_cases.get(3, 0)}
    # rotation commutes with the evolution, also for the variational particles (and MEGNO is orientation independent):
    # rotate-then-integrate = integrate-then-rotate
    ncomm = 12 if c.thorough else 3
    for i in range(ncomm):
        base = rebound.Simulation()
        base.add(m=1.0)
        base.add(m=rng.loguniform(1e-5, 1e-3), a=1.0, e=rng.uniform(0, 0.3), inc=rng.uniform(0, 0.5), Omega=rng.uniform(0, 6), omega=rng.uniform(0, 6), f=rng.uniform(0, 6))
        base.add(m=rng.loguniform(1e-5, 1e-3), a=rng.uniform(1.8, 2.5), e=rng.uniform(0, 0.2), inc=rng.uniform(0, 0.5), Omega=rng.uniform(0, 6), f=rng.uniform(0, 6))
        megno = (i % 3 == 2)
        if megno:
            base.init_megno(seed=rng.randint(1, 10 ** 6))
        else:
            va = base.add_variation()
            vb = base.add_variation(order=2, first_order=va)
            for k in range(3, base.N):
                pv = base.particles[k]
                pv.x, pv.y, pv.z, pv.vx, pv.vy, pv.vz = [rng.normal() for _ in range(6)]
        qv = runit(rng)
        r = mkq(qv)
        T = rng.uniform(0.5, 2.0)
        s1 = base.copy(); s1.rotate(r); s1.integrate(T)
        s2 = base.copy(); s2.integrate(T); s2.rotate(r)
        ec = 0.0
        for k in range(base.N):
            a_, b_ = s1.particles[k], s2.particles[k]
            sck = max([abs(getattr(b_, f_)) for f_ in COMPS6] + [1e-300])
            ec = max(ec, max(abs(getattr(a_, f_) - getattr(b_, f_)) for f_ in COMPS6) / sck)
        if megno:
            ec = max(ec, abs(s1.megno() - s2.megno()) / max(1.0, abs(s2.megno())))
        note("rotate_commutes_with_evolution_incl_variations", ec)
        c.count(("rotate-commute", i % 3))
        if not ec <= 1e-9:
            fails.append(("sim-rotate-commute", "rotate-then-integrate differs from integrate-then-rotate (real or variational particles%s) by %.3g" % (", MEGNO" if megno else "", ec),
                          dict(q=qv, T=T, megno=megno, N=base.N, N_var=base.N_var)))
    c.cov["rotation_worst_errors_measured"] = {k: float("%.3g" % v) for k, v in sorted(worst.items())}
    seen = set()
    for key, what, rep in fails:
        if key in seen:
            continue
        seen.add(key)
        c.violation(key, what, rep)
    c.cov["rotation_search_failures_by_key"] = {k: sum(1 for f in fails if f[0] == k) for k in seen}



# ----------------------------------------------------------------------------- frame shifts
class T2:
    """exact arithmetic in Q[ea, eb]/(ea^2, eb^2): coefficient `ca` of f(x + ea dx) is the
    derivative along dx, `cab` of f(x + ea xa + eb xb + ea eb xab) the mixed second derivative.
    Independent of REBOUND's hand-derived variational formulas."""
    __slots__ = ("c0", "ca", "cb", "cab")

    def __init__(self, c0=0, ca=0, cb=0, cab=0):
        self.c0, self.ca, self.cb, self.cab = Fr(c0), Fr(ca), Fr(cb), Fr(cab)

    def __add__(self, o):
        return T2(self.c0 + o.c0, self.ca + o.ca, self.cb + o.cb, self.cab + o.cab)

    def __sub__(self, o):
        return T2(self.c0 - o.c0, self.ca - o.ca, self.cb - o.cb, self.cab - o.cab)

    def __mul__(self, o):
        return T2(self.c0 * o.c0, self.c0 * o.ca + self.ca * o.c0, self.c0 * o.cb + self.cb * o.c0,
                  self.c0 * o.cab + self.ca * o.cb + self.cb * o.ca + self.cab * o.c0)

    def inv(self):
        # solved from (self * y = 1) coefficient by coefficient
        y0 = 1 / self.c0
        ya = -self.ca * y0 * y0
        yb = -self.cb * y0 * y0
        yab = -(self.cab * y0 + self.ca * yb + self.cb * ya) * y0
        return T2(y0, ya, yb, yab)

    def __truediv__(self, o):
        return self * o.inv()


COMPS6 = ["x", "y", "z", "vx", "vy", "vz"]


def frame(c, rebound, exe):
    clib = rebound.clibrebound
    P = rebound.Particle
    clib.reb_simulation_com.restype = P
    clib.reb_simulation_iadd.restype = ctypes.c_int
    clib.reb_simulation_isub.restype = ctypes.c_int
    rng = c.rng.fork()
    lines, expect, meta = [], [], []
    fails = []
    worst = {}
    hist = {}

    def note(k, v):
        worst[k] = max(worst.get(k, 0.0), v)

    def add(line, exp, tag):
        lines.append(line); expect.append(" ".join(d2h(x) for x in exp)); meta.append(tag)

    def mass(rng, kind):
        if kind == 0:
            return rng.loguniform(1e-6, 1e3)
        if kind == 1:
            return 0.0 if rng.chance(0.4) else rng.uniform(0.1, 2)
        if kind == 2:
            return rng.uniform(0.5, 1.5)
        return rng.choice([1e-12, 1e-3, 1.0, 10.0])

    def make_sim(rng, nvar_cfg, bigN=None):
        sim = rebound.Simulation()
        N = bigN or rng.choice([1, 2, 2, 3, 3, 4, 5, 8, 13])
        kind = rng.randint(0, 3)
        off = rng.normal() * rng.choice([0, 1, 100])
        for i in range(N):
            m = mass(rng, kind)
            if i == 0 and rng.chance(0.15):
                m = 0.0           # leading massless particle: exercises the `m > 0` guard
            sim.add(m=m, x=off + rng.normal(), y=rng.normal(), z=off * 0.5 + rng.normal(),
                    vx=rng.normal(), vy=off + rng.normal(), vz=rng.normal())
        if all(p.m == 0 for p in sim.particles) and rng.chance(0.7):
            sim.particles[N - 1].m = 1.0
        # particle roles: the frame routines sum over all N_real particles whatever N_active / testparticle_type say
        if N >= 2 and rng.chance(0.4):
            sim.N_active = rng.randint(1, N - 1)
            sim.testparticle_type = rng.randint(0, 1)
            dim("roles: N_active < N / test particles (frame ops)")
        if any(p.m == 0 for p in sim.particles):
            dim("roles: zero-mass and leading massless bodies (frame ops)")
        if abs(off) >= 50:
            dim("geometry: centre of mass far from the origin and moving")
        cfgs = []
        firsts = []
        for v in range(nvar_cfg):
            k = rng.randint(0, 3)
            if k <= 1 or not firsts:
                var = sim.add_variation()
                firsts.append(var)
                cfgs.append(("1", var))
            elif k == 2:
                a = rng.choice(firsts)
                b = rng.choice(firsts) if rng.chance(0.7) else None
                var = sim.add_variation(order=2, first_order=a, first_order_2=b)
                cfgs.append(("2", var))
            else:
                var = sim.add_variation(testparticle=rng.randint(0, N - 1))
                cfgs.append(("t", var))
        # variational particles: arbitrary data, including masses (a mass variation)
        for i in range(N, sim.N):
            p = sim.particles[i]
            p.m = rng.normal() * rng.choice([0.0, 0.1, 1.0])
            for k in COMPS6:
                setattr(p, k, rng.normal())
        return sim, N, cfgs

    def snapshot(sim):
        return [[p.m] + [getattr(p, k) for k in COMPS6] for p in sim.particles]

    nsim = 5000 if c.thorough else 250
    untouched_hel = 0
    mixed_iadd = {}
    hel_votes = {}
    hel_fd = 0
    hel_fd_bad = 0
    for case in range(nsim):
        try:
            r = rng.fork()
            nv = r.choice([0, 0, 1, 2, 3, 4])
            bigN = None
            if case == 1:
                bigN = 300
            if c.thorough and case in (2, 3):
                bigN = 1100 if case == 2 else 3000
            sim, N, cfgs = make_sim(r, nv if not bigN else (1 if bigN <= 300 else 0), bigN)
            if bigN:
                dim("scale: N >= 300 (frame ops)")
            for kd, _v in cfgs:
                dim({"1": "variational: 1st order non-zero (frame ops)", "2": "variational: 2nd order non-zero (frame ops)", "t": "variational: test-particle variation (frame ops)"}[kd])
            pre = snapshot(sim)
            ncfg = sim.N_var_config
            vc = [(sim.var_config[v].order, sim.var_config[v].index, sim.var_config[v].testparticle,
                   sim.var_config[v].index_1st_order_a, sim.var_config[v].index_1st_order_b) for v in range(ncfg)]
            comp = clib.reb_simulation_com(ctypes.byref(sim))
            M = comp.m
            hist["N=%d,cfgs=%d" % (min(N, 8), ncfg)] = hist.get("N=%d,cfgs=%d" % (min(N, 8), ncfg), 0) + 1
            # ---- exact oracle for the centre of mass and its derivatives
            ms = [Fr(pre[i][0]) for i in range(N)]
            Mx = sum(ms)
            # ---------------- move_to_com
            sim2 = sim.copy()
            clib.reb_simulation_move_to_com(ctypes.byref(sim2))
            post = snapshot(sim2)
            for ci, k in enumerate(COMPS6):
                col = 1 + ci
                add("com " + " ".join(hv(pre[i][0], pre[i][col]) for i in range(N)), [M, getattr(comp, k)], ("com", k, N))
                add("tocom " + " ".join(hv(pre[i][0], pre[i][col]) for i in range(N)), [post[i][col] for i in range(N)], ("move_to_com", k, N))
                for (order, index, tp, ia, ib) in vc:
                    if tp >= 0:
                        # test-particle variations are not shifted
                        if d2h(post[index][col]) != d2h(pre[index][col]):
                            fails.append(("com-testparticle-var", "move_to_com changed a test-particle variation", dict(pre=pre, post=post, index=index)))
                        continue
                    if order == 1:
                        toks = []
                        for i in range(N):
                            toks += [pre[i][0], pre[i][col], pre[i + index][0], pre[i + index][col]]
                        add("var1 " + hv(M, *toks), [post[i + index][col] for i in range(N)], ("move_to_com_var1", k, N))
                    else:
                        toks = []
                        for i in range(N):
                            toks += [pre[i][0], pre[i][col], pre[i + ia][0], pre[i + ia][col], pre[i + ib][0], pre[i + ib][col],
                                     pre[i + index][0], pre[i + index][col]]
                        add("var2 " + hv(M, *toks), [post[i + index][col] for i in range(N)], ("move_to_com_var2", k, N))
                # ---- search on the real code
                xs = [Fr(pre[i][col]) for i in range(N)]
                scale = max([abs(pre[i][col]) for i in range(sim.N)] + [1.0])
                if Mx > 0:
                    X = sum(m * x for m, x in zip(ms, xs)) / Mx
                    e = max(abs(float(Fr(post[i][col]) - (xs[i] - X))) for i in range(N)) / scale
                    note("move_to_com_vs_exact", e)
                    resid = abs(float(sum(m * Fr(post[i][col]) for i, m in enumerate(ms)) / Mx)) / scale
                    note("com_after_move", resid)
                    if not e <= 1e-13 or not resid <= 1e-13:
                        fails.append(("move-to-com", "after move_to_com the centre of mass is not at rest at the origin / particles not shifted by it",
                                      dict(component=k, m=[pre[i][0] for i in range(N)], x=[pre[i][col] for i in range(N)], got=[post[i][col] for i in range(N)], err=e, resid=resid)))
                    # variational particles: exact truncated-polynomial arithmetic
                    for (order, index, tp, ia, ib) in vc:
                        if tp >= 0:
                            continue
                        if order == 1:
                            mt = [T2(pre[i][0], pre[i + index][0]) for i in range(N)]
                            xt = [T2(pre[i][col], pre[i + index][col]) for i in range(N)]
                        else:
                            mt = [T2(pre[i][0], pre[i + ia][0], pre[i + ib][0], pre[i + index][0]) for i in range(N)]
                            xt = [T2(pre[i][col], pre[i + ia][col], pre[i + ib][col], pre[i + index][col]) for i in range(N)]
                        S = T2()
                        Mt = T2()
                        for a_, b_ in zip(mt, xt):
                            S = S + a_ * b_
                            Mt = Mt + a_
                        Xt = S / Mt
                        want = [(xt[i] - Xt) for i in range(N)]
                        wv = [float(w.ca if order == 1 else w.cab) for w in want]
                        # size of the terms that are added up (they may cancel exactly, e.g. for N = 1):
                        # coordinates x (1 + sum|dm_a|/M)(1 + sum|dm_b|/M) + sum|ddm|/M
                        Mf = float(Mx)
                        if order == 1:
                            amp = 1.0 + sum(abs(pre[i + index][0]) for i in range(N)) / Mf
                        else:
                            amp = (1.0 + sum(abs(pre[i + ia][0]) for i in range(N)) / Mf) * (1.0 + sum(abs(pre[i + ib][0]) for i in range(N)) / Mf) \
                                + sum(abs(pre[i + index][0]) for i in range(N)) / Mf
                        mag = max([abs(w) for w in wv] + [scale]) * amp * N
                        e = max(abs(post[i + index][col] - wv[i]) for i in range(N)) / mag
                        note("move_to_com_var%d_vs_exact_derivative" % order, e)
                        if not e <= 1e-13:
                            fails.append(("move-to-com-var%d" % order, "order-%d variational particles are not the derivative of the shifted coordinates" % order,
                                          dict(component=k, order=order, index=index, ia=ia, ib=ib, N=N, pre=pre, got=[post[i + index][col] for i in range(N)], want=wv)))
                else:
                    # total mass zero: com is (0,0), nothing moves
                    if any(d2h(post[i][col]) != d2h(pre[i][col] - 0.0) for i in range(N)):
                        fails.append(("move-to-com-massless", "move_to_com moved a system without mass", dict(pre=pre, post=post)))
                # pairwise differences unchanged to rounding
                if N >= 2:
                    dmax = 0.0
                    for i in range(1, N):
                        d0 = Fr(pre[i][col]) - Fr(pre[0][col])
                        d1 = Fr(post[i][col]) - Fr(post[0][col])
                        dmax = max(dmax, abs(float(d1 - d0)) / scale)
                    note("move_to_com_pair_differences", dmax)
                    if not dmax <= 1e-14:
                        fails.append(("move-to-com-diff", "move_to_com changes relative coordinates", dict(component=k, pre=[pre[i][col] for i in range(N)], post=[post[i][col] for i in range(N)])))
            if any(post[i][0] != pre[i][0] for i in range(sim.N)):
                fails.append(("move-to-com-mass", "move_to_com changed a mass", dict(pre=pre, post=post)))
            c.count(("move_to_com", N, tuple(o for o, *_ in vc), case % 4), nontrivial=N >= 2)
            # ---------------- move_to_hel
            sim3 = sim.copy()
            clib.reb_simulation_move_to_hel(ctypes.byref(sim3))
            posth = snapshot(sim3)
            for ci, k in enumerate(COMPS6):
                col = 1 + ci
                add("tohel " + " ".join(hv(pre[i][0], pre[i][col]) for i in range(N)), [posth[i][col] for i in range(N)], ("move_to_hel", k, N))
                if posth[0][col] != 0.0 or any(Fr(posth[i][col]) != Fr(pre[i][col] - pre[0][col]) for i in range(1, N)):
                    fails.append(("move-to-hel", "move_to_hel: particle 0 not at the origin / others not relative to it", dict(component=k, pre=[pre[i][col] for i in range(N)], post=[posth[i][col] for i in range(N)])))
            # variational particles under move_to_hel.  Tie: both model variants (as found: untouched; repaired:
            # variation of particle 0 subtracted); search: the variational particles of the moved simulation must
            # be the derivative of the moved coordinates — oracle 1: exact (dx_i - dx_0), oracle 2: finite
            # differences of two shadow simulations (base, base + h*variation) each moved to hel by the real code
            for (order, index, tp, ia, ib) in vc:
                if tp >= 0:
                    same = posth[index] == pre[index]
                    if tp != 0:
                        if not same:        # both variants leave the variation of a test particle other than 0 alone
                            hel_votes["x"] = hel_votes.get("x", 0) + 1
                    else:
                        zeroed = posth[index][1:] == [0.0] * 6 and posth[index][0] == pre[index][0]
                        if same and not zeroed:
                            hel_votes["0"] = hel_votes.get("0", 0) + 1
                        elif zeroed and not same:
                            hel_votes["1"] = hel_votes.get("1", 0) + 1
                        elif not same:
                            hel_votes["x"] = hel_votes.get("x", 0) + 1
                    continue
                for ci, k in enumerate(COMPS6):
                    col = 1 + ci
                    vin = [pre[index + i][col] for i in range(N)]
                    vout = [posth[index + i][col] for i in range(N)]
                    for vv in ("0", "1"):
                        lines.append("tohelvar" + vv + " " + hv(*vin)); expect.append(" ".join(d2h(x) for x in vout)); meta.append(("move_to_hel_var" + vv, k, N))
                    want = [0.0] + [float(Fr(vin[i]) - Fr(vin[0])) for i in range(1, N)]
                    sc_ = max([abs(x) for x in vin] + [1.0])
                    e = max(abs(a - b) for a, b in zip(vout, want)) / sc_
                    note("move_to_hel_var_vs_exact_derivative", e if e < 1e-3 else 0.0)
                    if not e <= 1e-14:
                        untouched = all(d2h(a) == d2h(b) for a, b in zip(vin, vout))
                        fails.append(("C20:move_to_hel-variations" if untouched else "move-to-hel-var-unexpected",
                                      "after move_to_hel the order-%d variational particles are not the derivative of the heliocentric coordinates (d x_i - d x_0)%s"
                                      % (order, ": they are left untouched" if untouched else ""),
                                      dict(component=k, order=order, N=N, x=[pre[i][col] for i in range(N)], variation_before=vin, variation_after=vout, derivative=want)))
                if order == 1 and hel_fd < (400 if c.thorough else 60):
                    # shadow simulations through the real code
                    hel_fd += 1
                    hstep = 2.0 ** -20
                    sA, sB = rebound.Simulation(), rebound.Simulation()
                    for i in range(N):
                        sA.add(m=pre[i][0], x=pre[i][1], y=pre[i][2], z=pre[i][3], vx=pre[i][4], vy=pre[i][5], vz=pre[i][6])
                        sB.add(m=pre[i][0] + hstep * pre[index + i][0], **{k: pre[i][1 + ci] + hstep * pre[index + i][1 + ci] for ci, k in enumerate(COMPS6)})
                    clib.reb_simulation_move_to_hel(ctypes.byref(sA)); clib.reb_simulation_move_to_hel(ctypes.byref(sB))
                    efd = 0.0
                    for i in range(N):
                        for ci, k in enumerate(COMPS6):
                            fd = (getattr(sB.particles[i], k) - getattr(sA.particles[i], k)) / hstep
                            efd = max(efd, abs(fd - posth[index + i][1 + ci]))
                    note("move_to_hel_var_vs_finite_differences", efd if efd < 1e-3 else 0.0)
                    if not efd <= 1e-7 * max([1.0] + [abs(x) for row in pre for x in row[1:]]):      # rounding of the difference quotient: ~ulp*scale/h
                        hel_fd_bad += 1
                        untouched = all(posth[index + i] == pre[index + i] for i in range(N))
                        fails.append(("C20:move_to_hel-variations" if untouched else "move-to-hel-var-unexpected",
                                      "variational particles after move_to_hel differ from the finite difference of two shadow simulations moved to hel (%.3g)%s"
                                      % (efd, ": they are left untouched" if untouched else ""),
                                      dict(N=N, index=index, pre=pre, h=hstep, err=efd)))
            c.cov["move_to_hel_shadow_simulation_cases"] = hel_fd
            c.cov["move_to_hel_shadow_simulation_disagreements"] = hel_fd_bad
            c.count(("move_to_hel", N, case % 4), nontrivial=N >= 2)
            # ---------------- imul / iadd / isub on all N particles (real + variational)
            other, _, _ = make_sim(r, 0) if r.chance(0.2) else (None, None, None)
            simb = sim.copy()
            for i in range(simb.N):
                for k in COMPS6:
                    setattr(simb.particles[i], k, r.normal())
            if other is not None and other.N != sim.N:
                simb = other
            preb = snapshot(simb)
            sa = sim.copy()
            rc = clib.reb_simulation_iadd(ctypes.byref(sa), ctypes.byref(simb))
            pa = snapshot(sa)
            ss = sim.copy()
            rc2 = clib.reb_simulation_isub(ctypes.byref(ss), ctypes.byref(simb))
            psub = snapshot(ss)
            for ci, k in enumerate(COMPS6):
                col = 1 + ci
                xs = [pre[i][col] for i in range(sim.N)]
                ys = [preb[i][col] for i in range(simb.N)]
                exp = ("ok " + " ".join(d2h(pa[i][col]) for i in range(sim.N))) if rc == 0 else "err -1"
                lines.append("iadd %d %s" % (sim.N, hv(*xs, *ys))); expect.append(exp); meta.append(("iadd", k, sim.N))
                exp = ("ok " + " ".join(d2h(psub[i][col]) for i in range(sim.N))) if rc2 == 0 else "err -1"
                lines.append("isub %d %s" % (sim.N, hv(*xs, *ys))); expect.append(exp); meta.append(("isub", k, sim.N))
            if sim.N != simb.N:
                dim("operators: different N rejected")
            if (rc == -1) != (sim.N != simb.N) or (rc2 == -1) != (sim.N != simb.N):
                fails.append(("iadd-size", "iadd/isub size check wrong", dict(N=sim.N, N2=simb.N, rc=rc, rc2=rc2)))
            if rc == -1 and pa != pre:
                fails.append(("iadd-size", "rejected iadd modified the simulation", dict(N=sim.N, N2=simb.N)))
            if rc == 0:
                for i in range(sim.N):
                    for ci in range(6):
                        if Fr(pa[i][1 + ci]) != Fr(pre[i][1 + ci] + preb[i][1 + ci]) or Fr(psub[i][1 + ci]) != Fr(pre[i][1 + ci] - preb[i][1 + ci]) \
                                or pa[i][0] != pre[i][0]:
                            fails.append(("iadd", "iadd/isub is not the component-wise sum/difference on particle %d" % i, dict(i=i, N=sim.N, N_var=sim.N_var)))
                            break
                # Python operators
                try:
                    sp = sim + simb
                    sm = sim - simb
                    if snapshot(sp) != pa or snapshot(sm) != psub or snapshot(sim) != pre:
                        fails.append(("py-add", "Simulation.__add__/__sub__ differ from iadd/isub or modify the operand", dict(N=sim.N)))
                except Exception as ex:
                    fails.append(("py-add", "Simulation + Simulation raised %r" % (ex,), dict(N=sim.N)))
            else:
                try:
                    sim + simb
                    fails.append(("py-add", "Simulation + Simulation of different N did not raise", dict(N=sim.N, N2=simb.N)))
                except RuntimeError:
                    pass
            if sim.N_var > 0 and case % 5 == 0:
                # variational particles on one side only: same N, the other simulation all real.  reb_simulation_iadd only
                # compares N, so real coordinates are silently added to variational ones (measured, not an error path)
                allreal = rebound.Simulation()
                for i in range(sim.N):
                    allreal.add(m=1.0, x=float(i), vx=1.0)
                sx = sim.copy()
                rcx = clib.reb_simulation_iadd(ctypes.byref(sx), ctypes.byref(allreal))
                dim("operators: variational particles on one side only")
                mixed_iadd["accepted" if rcx == 0 else "rejected"] = mixed_iadd.get("accepted" if rcx == 0 else "rejected", 0) + 1
                if rcx == 0 and any(sx.particles[i].x != pre[i][1] + float(i) for i in range(sim.N)):
                    fails.append(("iadd-mixed", "iadd of an all-real simulation onto one with variational particles is not the component-wise sum", dict(N=sim.N, N_var=sim.N_var)))
            s1, s2 = r.normal() * 3, r.normal() * 3
            sm_ = sim.copy()
            clib.reb_simulation_imul(ctypes.byref(sm_), ctypes.c_double(s1), ctypes.c_double(s2))
            pm = snapshot(sm_)
            for ci, k in enumerate(COMPS6):
                col = 1 + ci
                add("imul " + hv(s1 if ci < 3 else s2, *[pre[i][col] for i in range(sim.N)]), [pm[i][col] for i in range(sim.N)], ("imul", k, sim.N))
            for i in range(sim.N):
                if pm[i][0] != pre[i][0] or any(pm[i][1 + ci] != pre[i][1 + ci] * (s1 if ci < 3 else s2) for ci in range(6)):
                    fails.append(("imul", "imul is not the component-wise scaling on particle %d" % i, dict(i=i, N=sim.N, N_var=sim.N_var, s1=s1, s2=s2)))
                    break
            sq = sim * s1
            sd = sim / s1
            if snapshot(sq) != snapshot_scaled(pre, s1) or snapshot(sd) != snapshot_scaled(pre, 1. / s1):
                fails.append(("py-mul", "Simulation * scalar or / scalar is not the scaling of all coordinates", dict(s=s1, N=sim.N)))
            c.count(("imul/iadd/isub", sim.N, sim.N_var, case % 4))
            if case < 3:
                c.sample({"N_real": N, "var_configs": vc, "masses": [pre[i][0] for i in range(N)], "x": [pre[i][1] for i in range(N)]})
        except (ValueError, OverflowError, ZeroDivisionError) as ex:
            _lc = locals()
            fails.append(("nonfinite:frame", "the real code returned a non-finite value where the oracle expects a number (%r)" % (ex,),
                          {k_: repr(_lc[k_])[:400] for k_ in ['pre', 'vc', 'N'] if k_ in _lc}))

    c.log("frame: %d model lines through drv_c20" % len(lines))
    got = run_driver(exe, lines)
    nbit = ndis = 0
    first = None
    per = {}
    if len(got) != len(lines):
        c.corr_break("drv_c20 returned %d lines for %d frame ops" % (len(got), len(lines)))
        return
    hel_match = {"move_to_hel_var0": [0, 0], "move_to_hel_var1": [0, 0]}
    hel_bad = None
    for g, e, mt, l in zip(got, expect, meta, lines):
        per[mt[0]] = per.get(mt[0], 0) + 1
        if mt[0] in hel_match:
            hel_match[mt[0]][0] += 1
            if g.split() == e.split():
                hel_match[mt[0]][1] += 1
            elif hel_bad is None and mt[0] == "move_to_hel_var0":
                hel_bad = dict(op_line=l[:1000], model=g[:600], impl=e[:600])
            continue
        if g.split() == e.split():
            continue
        nbit += 1
        try:
            gt, et = g.split(), e.split()
            if gt[0] in ("ok", "err") or et[0] in ("ok", "err"):
                if gt[0] != et[0]:
                    raise ValueError
                gt, et = gt[1:], et[1:]
            gv, ev = [h2d(x) for x in gt], [h2d(x) for x in et]
            ins = [abs(h2d(x)) for x in l.split()[1:] if len(x) == 16]
            sc = max([abs(x) for x in ev + gv + ins if x == x and abs(x) != float("inf")] + [1e-300])
            bad = len(gv) != len(ev) or any(ulps(a, b, sc) > 64 * max(1, mt[2]) for a, b in zip(gv, ev))
        except Exception:
            bad = True
        if bad:
            ndis += 1
            if first is None:
                first = dict(routine=mt[0], component=mt[1], N=mt[2], op_line=l[:2000], model=g[:1000], impl=e[:1000])
    c.cov["frame_model_lines"] = len(lines)
    c.cov["iadd_with_variational_particles_on_one_side_only"] = mixed_iadd
    hv0, hv1 = hel_match["move_to_hel_var0"], hel_match["move_to_hel_var1"]
    tp_votes = {k: v for k, v in hel_votes.items() if v}
    if hv0[0] == hv0[1] and not tp_votes.get("1") and not tp_votes.get("x"):
        helvar = "as found (variational particles untouched, finding C20:move_to_hel-variations)"
    elif hv1[0] == hv1[1] and not tp_votes.get("0") and not tp_votes.get("x"):
        helvar = "repaired (fixes/C20-move-to-hel-variations.diff)"
    else:
        helvar = "neither"
        c.corr_break("reb_simulation_move_to_hel treats variational particles like neither model variant (as found %d/%d, repaired %d/%d, test-particle configs %r)"
                     % (hv0[1], hv0[0], hv1[1], hv1[0], tp_votes), hel_bad)
    c.cov["move_to_hel_variational_model_variant_matching_the_code"] = helvar
    c.cov["frame_lines_per_routine"] = per
    c.cov["frame_bitwise_mismatches_within_tolerance"] = nbit - ndis
    c.cov["frame_disagreements"] = ndis
    c.cov["frame_case_histogram"] = dict(sorted(hist.items()))
    c.cov["frame_worst_errors_measured"] = {k: float("%.3g" % v) for k, v in sorted(worst.items())}
    if ndis:
        c.corr_break("%d frame model/implementation lines differ; first: %s" % (ndis, first["routine"]), first)
    seen = set()
    for key, what, rep in fails:
        if key in seen:
            continue
        seen.add(key)
        c.violation(key, what, rep)


def snapshot_scaled(pre, s):
    return [[row[0]] + [v * s for v in row[1:]] for row in pre]



# ----------------------------------------------------------------------------- histories: a frame operation in the middle of a run
def histories(c, rebound):
    """rotation and the move to the centre-of-mass frame are symmetries of the dynamics: applying them in the middle of a run
    and continuing must give the same as continuing and applying them at the end — for every integrator, also with
    unsynchronised internal coordinates (safe_mode = 0) when the documented protocol is followed (synchronize, operate on the
    particles, ask the integrator to recalculate its internal coordinates), with dt < 0, and through a save / restore."""
    rng = c.rng.fork()
    fails = []
    worst = {}
    tmpd = tempfile.mkdtemp(prefix="c20h.", dir=os.environ.get("VERIF_TMP", "/tmp"))
    configs = [("ias15", None), ("whfast", 1), ("whfast", 0), ("leapfrog", None), ("mercurius", 1), ("mercurius", 0), ("trace", None),
               ("janus", None), ("saba", 1), ("saba", 0), ("eos", 1), ("eos", 0), ("bs", None)]
    label = {("ias15", None): "ias15", ("whfast", 1): "whfast safe_mode=1", ("whfast", 0): "whfast safe_mode=0 + recalculate flag",
             ("leapfrog", None): "leapfrog", ("mercurius", 1): "mercurius", ("mercurius", 0): "mercurius safe_mode=0", ("trace", None): "trace",
             ("janus", None): "janus + recalculate flag", ("saba", 1): "saba safe_mode=1", ("saba", 0): "saba safe_mode=0 + recalculate flag",
             ("eos", 1): "eos", ("eos", 0): "eos safe_mode=0", ("bs", None): "bs"}
    reps = 3 if c.thorough else 1

    def mk(integ, safe, dt, seedvals):
        sm = rebound.Simulation()
        e1, i1, f1, e2, f2, off, vof = seedvals
        sm.add(m=1.0)
        sm.add(m=1e-3, a=1.0, e=e1, inc=i1, Omega=1.0, omega=2.0, f=f1)
        sm.add(m=3e-4, a=2.1, e=e2, inc=0.1, f=f2)
        sm.add(m=0.0, a=3.3, e=0.1, f=f1 + 1)                # a test particle
        sm.N_active = 3
        for pp in sm.particles:                               # centre of mass away from the origin and moving
            pp.x += off; pp.vy += vof
        sm.integrator = integ
        sm.dt = dt
        if safe is not None:
            getattr(sm, "ri_" + integ).safe_mode = safe
        if integ == "janus":
            sm.ri_janus.scale_pos = 1e-12; sm.ri_janus.scale_vel = 1e-12
            sm.N_active = sm.N
        return sm

    def recalc(sm, integ):
        if integ in ("whfast", "saba"):
            sm.ri_whfast.recalculate_coordinates_this_timestep = 1
        if integ == "janus":
            sm.ri_janus.recalculate_integer_coordinates_this_timestep = 1

    def diff(a, b):
        e = 0.0
        for pa_, pb_ in zip(a.particles, b.particles):
            for f_ in COMPS6:
                e = max(e, abs(getattr(pa_, f_) - getattr(pb_, f_)))
        return e

    for rep in range(reps):
        for (integ, safe) in configs:
            for op in ("rotate", "com"):
                try:
                    sv = (rng.uniform(0, 0.3), rng.uniform(0, 0.5), rng.uniform(0, 6), rng.uniform(0, 0.2), rng.uniform(0, 6), rng.uniform(-3, 3), rng.uniform(-1, 1))
                    sign = -1.0 if (rep + len(integ) + (op == "com")) % 3 == 0 else 1.0
                    dt = sign * 0.01
                    qv = [rng.normal() for _ in range(4)]
                    nn = math.sqrt(sum(x * x for x in qv)); qv = [x / nn for x in qv]
                    q = rebound.Rotation(ix=qv[0], iy=qv[1], iz=qv[2], r=qv[3])
                    a, b = mk(integ, safe, dt, sv), mk(integ, safe, dt, sv)
                    eft = 1 if integ in ("ias15", "bs") else 0
                    a.integrate(sign * 0.5, exact_finish_time=eft); b.integrate(sign * 0.5, exact_finish_time=eft)
                    a.synchronize()
                    if op == "rotate":
                        a.rotate(q)
                    else:
                        a.move_to_com()
                    recalc(a, integ)
                    through_restore = (rep + len(integ)) % 2 == 0
                    if through_restore:
                        fn = os.path.join(tmpd, "h.bin")
                        a.save_to_file(fn, delete_file=True)
                        a = rebound.Simulation(fn)
                        dim("history: frame op, save/restore, continue")
                    a.integrate(sign * 1.0, exact_finish_time=eft); b.integrate(sign * 1.0, exact_finish_time=eft)
                    a.synchronize(); b.synchronize()
                    if op == "rotate":
                        b.rotate(q)
                    else:
                        b.move_to_com()
                    e = diff(a, b)
                    tol = 1e-8 if integ == "janus" else (1e-7 if integ in ("bs", "ias15") else 1e-10)     # adaptive schemes: their own error tolerance
                    worst["%s/%s" % (integ if safe is None else "%s safe_mode=%d" % (integ, safe), op)] = max(worst.get("%s/%s" % (integ if safe is None else "%s safe_mode=%d" % (integ, safe), op), 0.0), e)
                    dim("history: op then continue, integrator " + label[(integ, safe)])
                    if sign < 0:
                        dim("time: dt < 0 after a frame op")
                    c.count(("history", integ, safe, op, sign))
                    if not (e <= tol and a.t == b.t):
                        fails.append(("history:%s-%s" % (op, integ), "%s in the middle of a %s run (safe_mode=%r, dt=%g%s) then continuing differs from continuing and applying it at the end by %.3g"
                                      % ("Simulation.rotate" if op == "rotate" else "move_to_com", integ, safe, dt, ", through save/restore" if through_restore else "", e),
                                      dict(integrator=integ, safe_mode=safe, op=op, dt=dt, q=qv, system=sv, restore=through_restore, err=e)))
                    # for the record: what happens WITHOUT the documented recalculate request under safe_mode=0 (user responsibility)
                    if safe == 0 and integ in ("whfast", "saba") and rep == 0:
                        a2, b2 = mk(integ, safe, dt, sv), mk(integ, safe, dt, sv)
                        a2.integrate(sign * 0.5, exact_finish_time=0); b2.integrate(sign * 0.5, exact_finish_time=0)
                        a2.synchronize()
                        a2.rotate(q) if op == "rotate" else a2.move_to_com()
                        a2.integrate(sign * 1.0, exact_finish_time=0); b2.integrate(sign * 1.0, exact_finish_time=0)
                        a2.synchronize(); b2.synchronize()
                        b2.rotate(q) if op == "rotate" else b2.move_to_com()
                        c.cov.setdefault("safe_mode_0_without_recalculate_flag_error(documented_user_responsibility)", {})["%s/%s" % (integ, op)] = float("%.3g" % diff(a2, b2))
                except (ValueError, OverflowError, ZeroDivisionError) as ex:
                    fails.append(("nonfinite:history", "non-finite value in the history test (%r)" % (ex,), dict(integrator=integ, op=op)))
    shutil.rmtree(tmpd, ignore_errors=True)
    c.cov["history_worst_errors_measured"] = {k: float("%.3g" % v) for k, v in sorted(worst.items())}
    seen = set()
    for key, what, rep_ in fails:
        if key in seen:
            continue
        seen.add(key)
        c.violation(key, what, rep_)


# ----------------------------------------------------------------------------- units
def units(c, rebound, exe, parsed, ref):
    import rebound.units as U
    clib = rebound.clibrebound
    rng = c.rng.fork()
    T = parsed["tables"]
    fails = []
    worst = {}

    def note(k, v):
        worst[k] = max(worst.get(k, 0.0), v)

    # ---- tie 1: the translator's reading of units.py is what the imported module holds
    for tname, live in (("lengths_SI", U.lengths_SI), ("times_SI", U.times_SI), ("masses_SI", U.masses_SI)):
        rows = T[tname]
        if [k for k, *_ in rows] != list(live.keys()):
            c.corr_break("translator and imported module disagree on the keys of %s" % tname,
                         dict(translator=[k for k, *_ in rows], module=list(live.keys())))
            continue
        for k, ex, fv, txt in rows:
            if d2h(fv) != d2h(live[k]):
                c.corr_break("translator and imported module disagree on %s[%r]" % (tname, k), dict(translator=fv, module=live[k], text=txt))
            c.count(("table", tname, k))
    if parsed["G"][1] is None or d2h(parsed["G"][1]) != d2h(U.G_SI):
        c.corr_break("translator and imported module disagree on G_SI", dict(translator=parsed["G"][1], module=U.G_SI))
    Ls, Ts, Ms = dict(U.lengths_SI), dict(U.times_SI), dict(U.masses_SI)
    triples = [(l, t, m) for l in Ls for t in Ts for m in Ms]
    allnames = list(Ls) + list(Ts) + list(Ms)
    c.cov["unit_triples"] = len(triples)
    c.cov["unit_counts"] = {"lengths": len(Ls), "times": len(Ts), "masses": len(Ms)}

    # ---- tie 2: Float model of the conversion formulas vs rebound.units (CPython `**` is libm pow: ≤ 4 ulp)
    lines, expect, meta = [], [], []
    for (l, t, m) in triples:
        lines.append("cg " + hv(U.G_SI, Ls[l], Ts[t], Ms[m])); expect.append(d2h(U.convert_G((l, t, m)))); meta.append(("convert_G", (l, t, m)))
    npair = 10000 if c.thorough else 800
    for i in range(npair):
        a, b = rng.choice(triples), rng.choice(triples)
        x = rng.normal() * rng.loguniform(1e-6, 1e6)
        lines.append("cmass " + hv(x, Ms[a[2]], Ms[b[2]])); expect.append(d2h(U.convert_mass(x, a[2], b[2]))); meta.append(("convert_mass", (a, b)))
        lines.append("clen " + hv(x, Ls[a[0]], Ls[b[0]])); expect.append(d2h(U.convert_length(x, a[0], b[0]))); meta.append(("convert_length", (a, b)))
        lines.append("cvel " + hv(x, Ls[a[0]], Ts[a[1]], Ls[b[0]], Ts[b[1]])); expect.append(d2h(U.convert_vel(x, a[0], a[1], b[0], b[1]))); meta.append(("convert_vel", (a, b)))
        lines.append("cacc " + hv(x, Ls[a[0]], Ts[a[1]], Ls[b[0]], Ts[b[1]])); expect.append(d2h(U.convert_acc(x, a[0], a[1], b[0], b[1]))); meta.append(("convert_acc", (a, b)))
    got = run_driver(exe, lines)
    nbit = ndis = 0
    first = None
    for g, e, mt, l in zip(got, expect, meta, lines):
        if g.strip() == e:
            continue
        nbit += 1
        gv, ev = h2d(g.strip()), h2d(e)
        if not ulps(gv, ev, abs(ev)) <= 16:
            ndis += 1
            first = first or dict(function=mt[0], units=mt[1], op_line=l, model=g, impl=e)
    c.cov["units_model_lines"] = len(lines)
    c.cov["units_bitwise_mismatches_within_tolerance"] = nbit - ndis
    c.cov["units_disagreements"] = ndis
    if len(got) != len(lines) or ndis:
        c.corr_break("%d unit-conversion model/implementation lines differ; first: %s" % (ndis, first and first["function"]), first)

    # ---- tie 3: the unit state machine (Simulation.units setter/getter, update_units, convert_particle_units,
    #      manual sim.G, sim.add) on random operation sequences through the real Python API vs RV/Model/UnitsState.lean
    lnames, tnames, mnames = list(Ls), list(Ts), list(Ms)
    nseq = 1500 if c.thorough else 250
    slines, sexpect, smeta = [], [], []
    ophist = {}
    for case in range(nseq):
        r = rng.fork()
        sim = rebound.Simulation()
        toks = ["useq", d2h(U.G_SI), d2h(sim.G)]
        status = []
        desc = []
        for st_ in range(r.randint(3, 9)):
            kind = r.choice(["set", "set", "conv", "conv", "conv", "G", "add", "add"])
            if st_ == 0 and r.chance(0.75):
                kind = "set"        # most sequences start by choosing units (otherwise every convert is refused)
            if kind in ("set", "conv"):
                tr = r.choice(triples)
                bad = r.chance(0.12)
                if bad:
                    spell = r.choice([("au", "yr"), ("au", "yr", "furlong"), ("kg", "msun", "yr"), ("au", "pc", "s")])
                    toks.append("S!" if kind == "set" else "C!")
                else:
                    spell = list(tr)
                    r.shuffle(spell)
                    if r.chance(0.3):
                        spell = [x.upper() for x in spell]
                    dim("units: setter given a dict / upper case / any order")
                    if kind == "set" and r.chance(0.25):
                        spell = {"a": spell[0], "b": spell[1], "c": spell[2]}      # check_units takes the values of a dict
                    toks += ["S" if kind == "set" else "C", str(lnames.index(tr[0])), str(tnames.index(tr[1])), str(mnames.index(tr[2])),
                             d2h(Ls[tr[0]]), d2h(Ts[tr[1]]), d2h(Ms[tr[2]])]
                try:
                    if kind == "set":
                        sim.units = spell if isinstance(spell, dict) else tuple(spell)
                    else:
                        sim.convert_particle_units(*spell)
                    status.append("ok")
                except AttributeError as ex:
                    status.append("populated" if kind == "set" else "notset")
                except Exception as ex:
                    status.append("bad")
                desc.append((kind, tuple(spell.values()) if isinstance(spell, dict) else tuple(spell), status[-1]))
                if kind == "conv" and status[-1] == "ok" and any(d_[0] == "G" for d_ in desc):
                    dim("units: G assigned manually then convert")
            elif kind == "G":
                g = r.loguniform(1e-12, 1e3)
                sim.G = g
                toks += ["G", d2h(g)]
                status.append("ok")
                desc.append(("G", g, "ok"))
            else:
                vals = [r.normal() * r.loguniform(1e-3, 1e3) for _ in range(11)]
                vals[0] = abs(vals[0]); vals[4] = abs(vals[4])
                sim.add(m=vals[0], x=vals[1], y=vals[2], z=vals[3], r=vals[4], vx=vals[5], vy=vals[6], vz=vals[7])
                pl = sim.particles[sim.N - 1]
                pl.ax, pl.ay, pl.az = vals[8], vals[9], vals[10]
                toks += ["A"] + [d2h(v) for v in vals]
                status.append("ok")
                desc.append(("add", None, "ok"))
            ophist[kind + ":" + status[-1]] = ophist.get(kind + ":" + status[-1], 0) + 1
        un = sim.units
        if un["length"] is None and un["time"] is None and un["mass"] is None:
            us = "none"
        else:
            try:
                us = "%d,%d,%d" % (lnames.index(un["length"]), tnames.index(un["time"]), mnames.index(un["mass"]))
            except ValueError:
                us = "garbled:%r" % (un,)
        fin = " ".join(status) + " | " + us + " " + d2h(sim.G) + " " + str(sim.N) + " " + \
            " ".join(" ".join(d2h(getattr(pp, f)) for f in ["m", "x", "y", "z", "r", "vx", "vy", "vz", "ax", "ay", "az"]) for pp in sim.particles)
        slines.append(" ".join(toks)); sexpect.append(fin.strip()); smeta.append(desc)
        c.count(("useq", tuple(k for k, _, _ in desc)[:4], case % 8))
    sgot = run_driver(exe, slines)
    sdis = 0
    sfirst = None
    sbit = 0
    for g, e, mt, l in zip(sgot, sexpect, smeta, slines):
        if g.strip() == e:
            continue
        sbit += 1
        okk = False
        try:
            gh, gt = g.strip().split(" | "); eh, et = e.split(" | ")
            gtk, etk = gt.split(), et.split()
            if gh == eh and gtk[0] == etk[0] and gtk[2] == etk[2] and len(gtk) == len(etk):
                okk = all(ulps(h2d(a), h2d(b), abs(h2d(b))) <= 64 for a, b in zip([gtk[1]] + gtk[3:], [etk[1]] + etk[3:]))
        except Exception:
            okk = False
        if not okk:
            sdis += 1
            sfirst = sfirst or dict(ops=mt, op_line=l[:1500], model=g[:800], impl=e[:800])
    c.cov["units_state_machine_sequences"] = len(slines)
    c.cov["units_state_machine_op_histogram"] = dict(sorted(ophist.items()))
    c.cov["units_state_machine_bitwise_mismatches_within_tolerance"] = sbit - sdis
    c.cov["units_state_machine_disagreements"] = sdis
    if len(sgot) != len(slines) or sdis:
        c.corr_break("%d unit state-machine sequences differ between rebound.Simulation and the model; first ops: %s" % (sdis, sfirst and sfirst["ops"]), sfirst)

    # ---- search 1: hash_to_unit(hash(u)) = u for every name; unknown / incomplete triples rejected
    clib.reb_hash.restype = ctypes.c_uint32
    for u in allnames:
        h = clib.reb_hash(ctypes.c_char_p(u.encode("ascii")))
        back = U.hash_to_unit(h)
        c.count(("hash", u))
        if back != u or h == 0:
            fails.append(("hash-to-unit", "hash_to_unit(reb_hash(%r)) = %r" % (u, back), dict(unit=u, hash=h, back=back)))
    for bad in (("au", "yr"), ("au", "yr", "furlong"), ("au", "au", "yr"), ("kg", "msun", "yr")):
        try:
            U.check_units(bad)
            fails.append(("check-units", "check_units accepted %r" % (bad,), dict(units=bad)))
        except Exception:
            pass

    # ---- search 2: exhaustive over all triples — setter -> G, read-back, convert there and back, period
    exactL = {k: Fr(v) for k, v in Ls.items()}
    exactT = {k: Fr(v) for k, v in Ts.items()}
    exactM = {k: Fr(v) for k, v in Ms.items()}
    Gq = Fr(U.G_SI)
    # reference (independent) values for a physical plausibility check of G in every triple
    refL = {k: v for k, v in ref["lengths"].items()}
    refT = {k: v for k, v in ref["times"].items()}

    eg = abs(float((Gq - ref["G"][0]) / ref["G"][0]))
    note("G_SI_vs_CODATA/tolerance", eg / float(ref["G"][1]))
    if not eg <= float(ref["G"][1]):
        fails.append(("units-value:G_SI", "G_SI = %r disagrees with CODATA (%.3g relative)" % (U.G_SI, eg), dict(G_SI=U.G_SI, rel=eg)))
    for g in ref["alias_groups"]:
        vals = {u: (Ls.get(u) or Ts.get(u) or Ms.get(u)) for u in g}
        if len(set(vals.values())) != 1:
            fails.append(("units-alias:" + g[0], "aliases %r have different values %r" % (g, vals), dict(values=vals)))
    if len(set(allnames)) != len(allnames):
        fails.append(("units-names", "a unit name occurs in two tables", dict(names=allnames)))
    # SI description of a two-body system (independent of any unit table)
    m1_SI, m2_SI, a_SI = Fr("1.7e30"), Fr("3.1e27"), Fr("2.3e11")
    Pw = 2 * math.pi * math.sqrt(float(a_SI) ** 3 / (float(Gq) * float(m1_SI + m2_SI)))
    order = list(range(len(triples)))
    perm = list(order)
    rng.shuffle(perm)
    fields = ["m", "x", "y", "z", "r", "vx", "vy", "vz", "ax", "ay", "az"]
    dims = {"m": (0, 0, 1), "x": (1, 0, 0), "y": (1, 0, 0), "z": (1, 0, 0), "r": (1, 0, 0),
            "vx": (1, -1, 0), "vy": (1, -1, 0), "vz": (1, -1, 0), "ax": (1, -2, 0), "ay": (1, -2, 0), "az": (1, -2, 0)}
    ntarget = 5 if c.thorough else 1
    for idx, (l, t, m) in enumerate(triples):
        try:
            sim = rebound.Simulation()
            spell = [l, t, m]
            rng.shuffle(spell)
            if idx % 3 == 0:
                spell = [s_.upper() if rng.chance(0.5) else s_.capitalize() for s_ in spell]
            try:
                sim.units = tuple(spell)
            except Exception as ex:
                fails.append(("units-setter", "sim.units = %r raised %r" % (spell, ex), dict(units=spell)))
                continue
            c.count(("triple", l, t, m))
            Gx = Gq * exactM[m] * exactT[t] ** 2 / exactL[l] ** 3
            e = abs(float((Fr(sim.G) - Gx) / Gx))
            note("G_vs_exact_formula", e)
            if not e <= 1e-15 * 4:
                fails.append(("units-G", "sim.G for units %r is not G_SI*M*T^2/L^3" % ((l, t, m),), dict(units=(l, t, m), G=sim.G, want=float(Gx))))
            # physical value from the independent reference.  G/G_SI = M T^2/L^3 involves only the unit
            # values (for the GM-defined masses M = GM/G_SI with the module's own G_SI), so the tolerance is
            # that of the units alone and a wrong constant for one unit shows up in every triple that uses it
            if l in refL and t in refT and (m in ref["masses"] or m in ref["GM"]):
                if m in ref["masses"]:
                    rm, rmt = ref["masses"][m]
                else:
                    rm, rmt = ref["GM"][m][0] / Gq, ref["GM"][m][1]
                Kr = rm * refT[t][0] ** 2 / refL[l][0] ** 3
                tol = float(rmt + 2 * refT[t][1] + 3 * refL[l][1]) + 1e-14
                e = abs(float((Fr(sim.G) / Gq - Kr) / Kr))
                note("G_over_GSI_vs_reference/tolerance", e / tol)
                if not e <= tol:
                    culprit = [u for u, tab, rf in ((l, Ls, refL), (t, Ts, refT)) if abs(float((Fr(tab[u]) - rf[u][0]) / rf[u][0])) > float(rf[u][1]) + 1e-15]
                    fails.append(("units-value:" + (culprit[0] if culprit else m),
                                  "sim.G for units %r disagrees with the reference constants by %.3g (tolerance %.3g): wrong value for %s" % ((l, t, m), e, tol, culprit or [m]),
                                  dict(units=(l, t, m), G=sim.G, G_over_GSI_reference=float(Kr), rel=e, tol=tol)))
            back = sim.units
            if back != {"length": l, "time": t, "mass": m}:
                fails.append(("units-readback", "sim.units reads back %r after setting %r" % (back, (l, t, m)), dict(set=(l, t, m), got=back)))
            # a two-body system given in SI, expressed in these units with exact rationals
            def to_units(L, Tt, Mm):
                return dict(m1=float(m1_SI / Mm), m2=float(m2_SI / Mm), a=float(a_SI / L))
            q0 = to_units(exactL[l], exactT[t], exactM[m])
            v_SI = math.sqrt(float(Gq) * float(m1_SI + m2_SI) / float(a_SI))
            sim.add(m=q0["m1"], r=float(Fr("7e8") / exactL[l]), hash="primary")
            if idx % 2 == 1:
                # the companion given by orbital elements: a in the length unit, uses sim.G of this unit system
                sim.add(m=q0["m2"], a=q0["a"], e=0.3, inc=0.4, Omega=1.0, omega=2.0, f=0.7, r=float(Fr("7e7") / exactL[l]), hash="companion")
                dim("units: particles added by orbital elements")
            else:
                sim.add(m=q0["m2"], x=q0["a"], vy=float(Fr(v_SI) * exactT[t] / exactL[l]), r=float(Fr("7e7") / exactL[l]), hash="companion")
            hashes0 = [pp.hash.value for pp in sim.particles]
            if idx % 3 == 0:
                sim.N_active = 1
            sim.t = 5.0; sim.dt = 0.25
            sim.particles[1].ax = float(Fr("-5.9e-3") * exactT[t] ** 2 / exactL[l])   # some acceleration to convert
            P1 = sim.particles[1].orbit(primary=sim.particles[0]).P * Ts[t]
            e = abs(P1 - Pw) / Pw
            note("period_SI_invariance", e)
            if not e <= 1e-12:
                fails.append(("units-period", "orbital period in seconds depends on the unit system %r: %.17g vs %.17g" % ((l, t, m), P1, Pw), dict(units=(l, t, m), P=P1, want=Pw)))
            if idx % 60 == 7:
                # units are persisted (python_unit_* hashes, cf. finding F12 on their field order) through every restore path,
                # and a restored simulation converts exactly like the original
                tmpf = os.path.join(os.environ.get("VERIF_TMP", "/tmp"), "c20u.%d.bin" % os.getpid())
                sim.save_to_file(tmpf, delete_file=True)
                import pickle
                for nm_, s_r in (("archive", rebound.Simulation(tmpf)), ("copy", sim.copy()), ("pickle", pickle.loads(pickle.dumps(sim)))):
                    l2_, t2_, m2_ = triples[perm[(idx + 13) % len(triples)]]
                    s_o = sim.copy() if nm_ != "copy" else None
                    okr = s_r.units == {"length": l, "time": t, "mass": m} and d2h(s_r.G) == d2h(sim.G)
                    s_r.convert_particle_units(l2_, t2_, m2_)
                    ref_ = sim.copy(); ref_.convert_particle_units(l2_, t2_, m2_)
                    okr = okr and all(d2h(getattr(pa_, f_)) == d2h(getattr(pb_, f_)) for pa_, pb_ in zip(s_r.particles, ref_.particles) for f_ in fields) \
                        and d2h(s_r.G) == d2h(ref_.G) and s_r.units == ref_.units
                    dim("units: persisted through archive / copy / pickle")
                    if not okr:
                        fails.append(("units-restore:" + nm_, "units %r are not restored by %s (or the restored simulation converts differently)" % ((l, t, m), nm_), dict(units=(l, t, m), path=nm_, got=s_r.units)))
                try:
                    os.remove(tmpf)
                except OSError:
                    pass
            if idx % 4 == 0:
                # variational particles are converted like the real ones (convert_particle_units loops over all N):
                # a variation of a position / velocity / mass scales like a position / velocity / mass
                sim.add_variation()
                for k_ in range(2, sim.N):
                    pv = sim.particles[k_]
                    pv.m = rng.normal() * 1e-3
                    for f_ in ("x", "y", "z", "vx", "vy", "vz", "ax", "ay", "az"):
                        setattr(pv, f_, rng.normal())
                c.count(("convert-with-variations", idx % 40))
                dim("variational: convert_particle_units")
            before = [[getattr(p, f) for f in fields] for p in sim.particles]
            for kk in range(ntarget):
                l2, t2, m2 = triples[perm[(idx + kk * 577) % len(triples)]]
                try:
                    sim.convert_particle_units(l2, t2, m2)
                except Exception as ex:
                    fails.append(("units-convert", "convert_particle_units(%r) raised %r" % ((l2, t2, m2), ex), dict(frm=(l, t, m), to=(l2, t2, m2))))
                    break
                c.count(("convert", l2, t2, m2))
                mid = [[getattr(p, f) for f in fields] for p in sim.particles]
                if kk == 0:
                    dim("units: hash / N_active / t / dt untouched by conversion")
                    if [pp.hash.value for pp in sim.particles][:2] != hashes0[:2] or sim.N_active != (1 if idx % 3 == 0 else -1):
                        fails.append(("units-convert-identity", "convert_particle_units changed particle hashes or N_active", dict(frm=(l, t, m), to=(l2, t2, m2))))
                    # t and dt are NOT converted although the time unit changes (only particles and G are, as the docstring says): recorded
                    c.cov["convert_particle_units_leaves_t_and_dt_unconverted"] = bool(sim.t == 5.0 and sim.dt == 0.25)
                G2 = Gq * exactM[m2] * exactT[t2] ** 2 / exactL[l2] ** 3
                if not abs(float((Fr(sim.G) - G2) / G2)) <= 4e-15 or sim.units != {"length": l2, "time": t2, "mass": m2}:
                    fails.append(("units-convert-G", "after convert_particle_units(%r) G / units are not those of the new system" % ((l2, t2, m2),), dict(frm=(l, t, m), to=(l2, t2, m2), G=sim.G, units=sim.units)))
                worst_e = 0.0
                for pi in range(sim.N):
                    for fi, f in enumerate(fields):
                        dl, dt_, dm = dims[f]
                        fac = (exactL[l] / exactL[l2]) ** dl * (exactT[t] / exactT[t2]) ** dt_ * (exactM[m] / exactM[m2]) ** dm
                        want = Fr(before[pi][fi]) * fac
                        if want != 0:
                            worst_e = max(worst_e, abs(float((Fr(mid[pi][fi]) - want) / want)))
                        elif mid[pi][fi] != 0:
                            worst_e = float("inf")
                note("convert_vs_exact", worst_e)
                if not worst_e <= 2e-15:
                    fails.append(("units-convert-values", "convert_particle_units %r -> %r differs from the exact conversion by %.3g" % ((l, t, m), (l2, t2, m2), worst_e),
                                  dict(frm=(l, t, m), to=(l2, t2, m2), before=before, after=mid)))
                P2 = sim.particles[1].orbit(primary=sim.particles[0]).P * Ts[t2]
                e = abs(P2 - Pw) / Pw
                note("period_SI_invariance", e)
                if not e <= 1e-12:
                    fails.append(("units-period", "orbital period in seconds changes under convert_particle_units %r -> %r" % ((l, t, m), (l2, t2, m2)), dict(frm=(l, t, m), to=(l2, t2, m2), P=P2, want=Pw)))
                # a third system, reached directly and through the second: transitivity
                if kk == 0:
                    l3, t3, m3 = triples[perm[(idx + 991) % len(triples)]]
                    s_dir = rebound.Simulation()
                    s_dir.units = (l, t, m)
                    for row in before:
                        s_dir.add(m=row[0], x=row[1], y=row[2], z=row[3], r=row[4], vx=row[5], vy=row[6], vz=row[7])
                        s_dir.particles[-1].ax, s_dir.particles[-1].ay, s_dir.particles[-1].az = row[8], row[9], row[10]
                    s_dir.convert_particle_units(l3, t3, m3)
                    s_via = sim.copy()
                    s_via.convert_particle_units(l3, t3, m3)
                    et = 0.0
                    for pa_, pb_ in zip(s_dir.particles, s_via.particles):
                        for f in fields:
                            x1, x2 = getattr(pa_, f), getattr(pb_, f)
                            if x1 != x2:
                                et = max(et, abs(x1 - x2) / max(abs(x1), abs(x2)))
                    note("convert_transitive", et)
                    if not et <= 4e-15 or abs(s_dir.G - s_via.G) > 4e-15 * abs(s_dir.G):
                        fails.append(("units-transitive", "conversion %r -> %r -> %r differs from the direct conversion by %.3g" % ((l, t, m), (l2, t2, m2), (l3, t3, m3), et),
                                      dict(a=(l, t, m), b=(l2, t2, m2), c=(l3, t3, m3))))
                sim.convert_particle_units(l, t, m)
                after = [[getattr(p, f) for f in fields] for p in sim.particles]
                er = 0.0
                for ra, rb in zip(before, after):
                    for x1, x2 in zip(ra, rb):
                        if x1 != x2:
                            er = max(er, abs(x1 - x2) / max(abs(x1), abs(x2)))
                note("convert_there_and_back", er)
                if not er <= 4e-15 or d2h(sim.G) != d2h(U.convert_G((l, t, m))):
                    fails.append(("units-roundtrip", "conversion %r -> %r and back does not return the particle data (%.3g)" % ((l, t, m), (l2, t2, m2), er),
                                  dict(frm=(l, t, m), via=(l2, t2, m2), before=before, after=after)))
            if idx < 2:
                c.sample({"units": (l, t, m), "G": sim.G, "period_s": P1})
        except (ValueError, OverflowError, ZeroDivisionError) as ex:
            _lc = locals()
            fails.append(("nonfinite:units", "the real code returned a non-finite value where the oracle expects a number (%r)" % (ex,),
                          {k_: repr(_lc[k_])[:400] for k_ in ['l', 't', 'm'] if k_ in _lc}))
    # the setter must refuse to change units once particles exist
    sim = rebound.Simulation(); sim.units = ("au", "yr", "msun"); sim.add(m=1)
    try:
        sim.units = ("m", "s", "kg")
        fails.append(("units-setter-populated", "sim.units could be reassigned with particles present (no conversion is done)", {}))
    except AttributeError:
        pass
    c.cov["units_worst_errors_measured"] = {k: float("%.3g" % v) for k, v in sorted(worst.items())}
    seen = set()
    for key, what, rep in fails:
        k2 = key
        if k2 in seen:
            continue
        seen.add(k2)
        c.violation(key, what, rep)
    c.cov["units_search_failures"] = len(fails)


def run(c):
    d = build()
    rebound = use_scratch_rebound(d)
    # ---- translator: rebound/units.py -> lean/RV/Gen/C20Units.lean (every run)
    try:
        txt, parsed, ref = extract_c20.generate(REPO)
    except Exception as ex:
        raise Infra("extract_c20 failed: %r" % (ex,))
    changed = write_if_changed(os.path.join(LEAN, "RV", "Gen", "C20Units.lean"), txt)
    try:
        ftxt, ferrs, fdone = extract_c20.translate_functions(os.path.join(REPO, "rebound", "units.py"))
    except Exception as ex:
        raise Infra("extract_c20.translate_functions failed: %r" % (ex,))
    changed = write_if_changed(os.path.join(LEAN, "RV", "Gen", "C20UnitsFns.lean"), ftxt) or changed
    c.cov["translator_functions"] = {"translated": fdone, "errors": ferrs}
    c.cov["translator"] = {"regenerated": bool(changed), "parse_errors": parsed["errors"],
                           "entries": {k: len(v) for k, v in parsed["tables"].items()}}
    c.cov["rule"] = (
        "units: exhaustive over all length x time x mass triples of the imported tables (setter in random order/case -> G vs exact rational, "
        "read-back, an SI-specified two-body system expressed in the triple: period in seconds, convert_particle_units to another triple "
        "(every triple is also a target), exact rational comparison of all 11 fields, transitivity through a third triple, and back); "
        "rotations: random and special vectors / quaternions through every exported reb_vec3d_* / reb_rotation_* routine, from_to cases drawn "
        "from 7 geometry classes (exactly antiparallel generic and axis-aligned, antiparallel to 1 ulp, nearly antiparallel, parallel, "
        "orthogonal special pairs, obtuse, acute, random), angle-axis / orbit / to_new_axes / slerp incl. degenerate angles and axes; "
        "frame: random simulations N=1..13 in 4 mass families incl. zero and leading zero masses, 0..4 variational configurations of order 1, 2 "
        "(same or different first-order parents) and test-particle type with arbitrary variational data incl. mass variations; "
        "a case is non-trivial when it exercises a distinct (routine, geometry class / N / configuration / unit) combination")
    c.cov["trusted_base"] = ["Lean 4.33 kernel; Mathlib ring/field_simp/linear_combination/decide (kernel-checked)",
                             "correspondence drv_c20 vs compiled rotations.c / tools.c and vs rebound.units on generated inputs (differential test)",
                             "rv/extract_c20.py (Python ast) reads units.py as CPython does: checked bitwise against the imported module every run",
                             "ref/C20_units_reference.json (committed, written from published constants)",
                             "Lean Float.sqrt/sin/cos/acos = the libm the C code links (bitwise on this platform)",
                             "ctypes Particle / Rotation / Vec3d layout (checked by C18)"]
    c.assumptions += ["theorems are exact-arithmetic; IEEE rounding is measured by the search only (errors reported in *_worst_errors_measured)",
                      "sqrt/sin/cos enter the theorems only through SqrtSpec (non-negative square root on non-negative arguments) and TrigSpec (sin^2+cos^2=1); both proved for the real functions",
                      "isnormal(x) is modelled as x != 0 in exact arithmetic (0*(1/0)=0 in a field, NaN in IEEE: both 'not normal')",
                      "COM theorems assume non-negative masses (the m>0 guard of reb_particle_com_of_pair is modelled and proved under that hypothesis)",
                      "reb_rotation_to_orbital (documented by the authors as quadrant-unreliable) and the float display matrices are outside the statement",
                      "move_to_hel leaves variational particles untouched (source comment): they remain derivatives of the unshifted coordinates; only move_to_com is proved to transform them as derivatives"]
    ok = c.prove(["RV.Props.C20"])
    exe = lean_exe("drv_c20")
    rotations(c, rebound, exe)
    frame(c, rebound, exe)
    units(c, rebound, exe, parsed, ref)
    histories(c, rebound)
    c.cov["dimensions"] = dict(sorted(DIMS.items()))
    for name in REQUIRED_DIMS:
        if DIMS.get(name, 0) == 0:
            c.broken.append("dimension not covered: " + name)
    if c.broken and not c.violations:
        c.log("proof/correspondence broken: extra search budget")
        c.rng = SplitMix(c.seed * 7919 + 20)
        extra = Check.__new__(Check)
        rotations(c, rebound, exe)
        frame(c, rebound, exe)


def replay(c, path):
    """./check C20 --replay replays/C20-….json : re-execute the recorded failing input on the current tree"""
    data = json.load(open(path))
    key, rep = data.get("key", ""), data.get("replay", {})
    d = build()
    rebound = use_scratch_rebound(d)
    c.cov["rule"] = "replay of " + path
    c.count(("replay", key))
    if "fromv" in rep and "tov" in rep:
        f, t = [float(x) for x in rep["fromv"]], [float(x) for x in rep["tov"]]
        r = rebound.Rotation(fromv=f, tov=t)
        n2 = float(sum(Fr(x) ** 2 for x in (r.ix, r.iy, r.iz, r.r))) if r.r == r.r else float("nan")
        img = r * f
        lf, lt_ = math.sqrt(sum(x * x for x in f)), math.sqrt(sum(x * x for x in t))
        e = max(abs(a / lf - b / lt_) for a, b in zip([img.x, img.y, img.z], t))
        c.log("Rotation(fromv=%r, tov=%r): |q|^2 = %r, image of from/|from| - to/|to| = %.3g" % (f, t, n2, e))
        if not (abs(n2 - 1) <= 1e-13 and e <= 1e-7):
            c.violation(key, "from_to: not unit / does not map from to to (|q|^2 = %r, error %.3g)" % (n2, e), rep)
    elif "newz" in rep and "newx" in rep:
        nz, nx = [float(x) for x in rep["newz"]], [float(x) for x in rep["newx"]]
        r = rebound.Rotation.to_new_axes(newz=nz, newx=nx)
        lz = math.sqrt(sum(x * x for x in nz))
        img = r * [x / lz for x in nz]
        e = max(abs(a - b) for a, b in zip([img.x, img.y, img.z], [0, 0, 1]))
        c.log("to_new_axes(newz=%r, newx=%r) * newz/|newz| = %r" % (nz, nx, [img.x, img.y, img.z]))
        if not e <= 1e-12:
            c.violation(key, "to_new_axes does not take newz to the z axis (error %.3g)" % e, rep)
    elif "units" in rep and len(rep["units"]) == 3:
        import rebound.units as U
        l, t, m = rep["units"]
        sim = rebound.Simulation()
        sim.units = (l, t, m)
        Gx = Fr(U.G_SI) * Fr(U.masses_SI[m]) * Fr(U.times_SI[t]) ** 2 / Fr(U.lengths_SI[l]) ** 3
        ref = extract_c20.load_ref()
        ok = abs(float((Fr(sim.G) - Gx) / Gx)) <= 4e-15 and sim.units == {"length": l, "time": t, "mass": m}
        if l in ref["lengths"] and t in ref["times"] and (m in ref["masses"] or m in ref["GM"]):
            rm, rmt = ref["masses"][m] if m in ref["masses"] else (ref["GM"][m][0] / Fr(U.G_SI), ref["GM"][m][1])
            Kr = rm * ref["times"][t][0] ** 2 / ref["lengths"][l][0] ** 3
            tol = float(rmt + 2 * ref["times"][t][1] + 3 * ref["lengths"][l][1]) + 1e-14
            e = abs(float((Fr(sim.G) / Fr(U.G_SI) - Kr) / Kr))
            c.log("units %r: G = %r, G/G_SI vs reference: %.3g (tolerance %.3g)" % ((l, t, m), sim.G, e, tol))
            ok = ok and e <= tol
        if not ok:
            c.violation(key, "units %r: G / read-back inconsistent with SI or with the reference constants" % ((l, t, m),), rep)
    else:
        c.log("no dedicated replay for key %r: re-running the whole check with the recorded seed %r" % (key, data.get("seed")))
        c.seed = int(data.get("seed", c.seed))
        c.rng = SplitMix(c.seed * 1000003 + 20)
        run(c)


if __name__ == "__main__":
    if "--replay" in sys.argv:
        _p = sys.argv[sys.argv.index("--replay") + 1]
        # a replay must not clobber the evidence of the last full run: its evidence goes to C20.replay.json
        _ev = os.path.join(ROOT, "evidence", "C20.json")
        _keep = open(_ev).read() if os.path.exists(_ev) else None
        _orig_finish = Check.finish

        def _finish(self):
            rc = _orig_finish(self)
            try:
                os.replace(_ev, os.path.join(ROOT, "evidence", "C20.replay.json"))
                if _keep is not None:
                    with open(_ev, "w") as fh:
                        fh.write(_keep)
            except OSError:
                pass
            return rc
        Check.finish = _finish
        main("C20", lambda c: replay(c, _p))
    else:
        main("C20", run)
