"""C20 — changes of units and of reference frame are exact symmetries.

proof:   lean/RV/Props/C20.lean — unit algebra over any field + the regenerated unit tables
         against a committed independent reference; quaternion algebra, constructors
         (from-to incl. the antiparallel branch: full statement for the repaired variant,
         negation for the variant as found = finding F7), frame shifts ∀ N incl.
         first/second order variational shifts as formal derivatives
tie:     lean/RV/Model/{Rotation,Frame,Units}.lean run on IEEE doubles (drv_c20) vs every
         exported reb_vec3d_* / reb_rotation_* / reb_simulation_move_to_* / imul / iadd /
         isub routine (bitwise) and vs rebound.units (≤ 4 ulp, CPython `**` is libm pow)
search:  the property statement on the real code with exact-rational oracles: all unit
         triples (G, read-back, there-and-back, period), rotation invariants and
         constructor contracts incl. degenerate geometry, frame shifts with variational
         particles against exact truncated-polynomial (dual number) arithmetic
"""
import ctypes, itertools, json, math, os, shutil, sys, tempfile
from fractions import Fraction as Fr
sys.path.insert(0, os.path.dirname(os.path.abspath(__file__)))
from common import *
import extract_c20

ULP = 2.0 ** -52


# ----------------------------------------------------------------------------- helpers
def ulps(a, b, scale):
    if a != a or b != b:
        return 0.0 if (a != a and b != b) else float("inf")
    if a == b:
        return 0.0
    return abs(a - b) / (ULP * max(scale, 1e-300))


DIMS = {}


def dim(name, n=1):
    """coverage.dimensions: number of evaluated cases per crossed configuration dimension"""
    DIMS[name] = DIMS.get(name, 0) + n


REQUIRED_DIMS = [
    "roles: N_active < N / test particles (frame ops)", "roles: zero-mass and leading massless bodies (frame ops)",
    "variational: 1st order non-zero (frame ops)", "variational: 2nd order non-zero (frame ops)", "variational: test-particle variation (frame ops)",
    "variational: rotate 1st/2nd order/megno", "variational: convert_particle_units",
    "scale: N >= 300 (frame ops)", "geometry: centre of mass far from the origin and moving",
    "rotation: non-unit quaternion (exact law)", "rotation: zero / NaN / inf constructor arguments",
    "rotation: exactly antiparallel from_to", "rotation: non-unit newz with non-perpendicular newx",
    "history: op then continue, integrator ias15", "history: op then continue, integrator whfast safe_mode=1",
    "history: op then continue, integrator whfast safe_mode=0 + recalculate flag", "history: op then continue, integrator mercurius",
    "history: op then continue, integrator trace", "history: op then continue, integrator janus + recalculate flag",
    "history: op then continue, integrator saba safe_mode=0 + recalculate flag", "history: op then continue, integrator leapfrog",
    "history: op then continue, integrator eos", "history: op then continue, integrator bs",
    "time: dt < 0 after a frame op", "history: frame op, save/restore, continue",
    "units: particles added by orbital elements", "units: persisted through archive / copy / pickle",
    "units: G assigned manually then convert", "units: hash / N_active / t / dt untouched by conversion",
    "units: setter given a dict / upper case / any order", "operators: different N rejected", "operators: variational particles on one side only",
]


class Tie:
    """collects (op line, expected tokens, meta) and compares with the Lean driver"""

    def __init__(self, c, exe):
        self.c, self.exe = c, exe
        self.lines, self.expect, self.meta = [], [], []

    def add(self, line, expected, meta, tol=64.0, scale=None, soft=False):
        self.lines.append(line)
        self.expect.append(expected)
        self.meta.append((meta, tol, scale, soft))

    def run(self):
        got = run_driver(self.exe, self.lines) if self.lines else []
        return got


def hv(*xs):
    return " ".join(d2h(float(x)) for x in xs)


# ----------------------------------------------------------------------------- generators
def rvec(rng, scale=None):
    s = scale if scale is not None else rng.loguniform(1e-3, 1e3)
    return [rng.normal() * s for _ in range(3)]


def special_vectors():
    out = []
    for v in itertools.product([-1.0, 0.0, 1.0], repeat=3):
        if any(v):
            out.append(list(v))
    out += [[2.0, 3.0, -5.0], [1e-3, 1.0, 1.0], [1.0, 1e-8, 0.0], [3.0, 4.0, 0.0], [1e150, 1.0, 1.0][:3],
            [1e-160, 1e-160, 0.0]]
    return out


def gen_from_to(rng, i):
    """(from, to, class) covering the four branches of reb_rotation_init_from_to"""
    sp = special_vectors()
    # the witnesses of the theorems first (model-level counter-examples replayed on the real code)
    fixed = {0: ([1.0, 1.0, 1.0], [-1.0, -1.0, -1.0]), 1: ([1.0, 0.0, 0.0], [-1.0, 0.0, 0.0]), 2: ([0.0, 0.0, 1.0], [0.0, 0.0, -1.0]),
             3: ([0.0, 1.0, 0.0], [0.0, -2.0, 0.0]), 4: ([1.0, 2.0, 3.0], [-1.0, -2.0, -3.0]), 5: ([3.0, 0.0, 4.0], [-3.0, 0.0, -4.0])}
    if i in fixed:
        return fixed[i][0], fixed[i][1], "antiparallel-exact"
    # antiparallel up to rounding, rounding residue collinear with the vectors (finding C20:from_to-antiparallel-collinear-residue)
    near = {6: ([1.0, 1.0, 1.0], [-3.0, -3.0, -3.0]), 7: ([1.0, 1.0, 0.0], [-3.0, -3.0, 0.0]), 8: ([-1.0, -1.0, -1.0], [75000.0, 75000.0, 75000.0]),
            9: ([1.0, -1.0, 1.0], [-0.1, 0.1, -0.1])}
    if i in near:
        return near[i][0], near[i][1], "antiparallel-near"
    k = i % 10
    if k == 0:      # exactly antiparallel, generic direction (F7 class)
        f = rvec(rng)
        s = rng.choice([1.0, 2.0, 0.5, 4.0, 1024.0])
        return f, [-s * x for x in f], "antiparallel-exact"
    if k == 1:      # exactly antiparallel, special direction
        f = rng.choice(sp)
        s = rng.choice([1.0, 2.0, 0.25])
        return f, [-s * x for x in f], "antiparallel-exact"
    if k == 2:      # nearly antiparallel
        f = rvec(rng)
        e = 10 ** -rng.uniform(3, 17)
        return f, [-x * rng.uniform(0.5, 2) + e * rng.normal() * abs(x + 1e-300) for x in f][:3], "antiparallel-near"
    if k == 3:      # parallel exactly / nearly
        f = rvec(rng)
        s = rng.choice([1.0, 2.0, 3.0, 0.1])
        e = rng.choice([0.0, 1e-15, 1e-8])
        return f, [s * x * (1 + e * rng.normal()) for x in f], "parallel"
    if k == 4:      # orthogonal (dot == 0 boundary of the first branch)
        f = rng.choice(sp)
        t = rng.choice(sp)
        return f, t, "special-pair"
    if k == 5:      # obtuse
        f = rvec(rng, 1.0)
        t = rvec(rng, 1.0)
        d = sum(a * b for a, b in zip(f, t))
        if d > 0:
            t = [-x for x in t]
        return f, t, "obtuse"
    if k == 6:
        f = rvec(rng, 1.0)
        t = rvec(rng, 1.0)
        d = sum(a * b for a, b in zip(f, t))
        if d < 0:
            t = [-x for x in t]
        return f, t, "acute"
    if k == 7:      # antiparallel up to one ulp in one component
        f = rvec(rng)
        t = [-x for x in f]
        j = rng.randint(0, 2)
        t[j] = math.nextafter(t[j], rng.choice([-1e308, 1e308]))
        return f, t, "antiparallel-near"
    return rvec(rng), rvec(rng), "random"


# ----------------------------------------------------------------------------- exact oracle (rationals)
def fr3(v):
    return [Fr(x) for x in v]


def fdot(a, b):
    return sum(x * y for x, y in zip(a, b))


def fcross(a, b):
    return [a[1] * b[2] - a[2] * b[1], a[2] * b[0] - a[0] * b[2], a[0] * b[1] - a[1] * b[0]]


def frot_matrix(q):
    """exact rotation matrix of a (not necessarily unit) quaternion, the *specification*
    v -> q v q^-1 (independent of REBOUND's t = 2 u×v formulation)"""
    ix, iy, iz, r = [Fr(x) for x in q]
    n = ix * ix + iy * iy + iz * iz + r * r
    if n == 0:
        return None
    m = [[r * r + ix * ix - iy * iy - iz * iz, 2 * (ix * iy - r * iz), 2 * (ix * iz + r * iy)],
         [2 * (ix * iy + r * iz), r * r - ix * ix + iy * iy - iz * iz, 2 * (iy * iz - r * ix)],
         [2 * (ix * iz - r * iy), 2 * (iy * iz + r * ix), r * r - ix * ix - iy * iy + iz * iz]]
    return [[e / n for e in row] for row in m]


def fapply(m, v):
    return [sum(m[i][j] * v[j] for j in range(3)) for i in range(3)]


# ----------------------------------------------------------------------------- rotations
def rotations(c, rebound, exe):
    clib = rebound.clibrebound
    from rebound.vectors import Vec3dBasic as V
    from rebound.rotation import Rotation as Q
    D = ctypes.c_double
    sig = {"reb_vec3d_mul": (V, [V, D]), "reb_vec3d_add": (V, [V, V]), "reb_vec3d_cross": (V, [V, V]),
           "reb_vec3d_dot": (D, [V, V]), "reb_vec3d_length_squared": (D, [V]), "reb_vec3d_normalize": (V, [V]),
           "reb_vec3d_rotate": (V, [V, Q]), "reb_rotation_mul": (Q, [Q, Q]), "reb_rotation_inverse": (Q, [Q]),
           "reb_rotation_conjugate": (Q, [Q]), "reb_rotation_normalize": (Q, [Q]), "reb_rotation_identity": (Q, []),
           "reb_rotation_init_angle_axis": (Q, [D, V]), "reb_rotation_init_from_to": (Q, [V, V]),
           "reb_rotation_init_orbit": (Q, [D, D, D]), "reb_rotation_init_to_new_axes": (Q, [V, V]),
           "reb_rotation_slerp": (Q, [Q, Q, D])}
    F = {}
    for n, (rt, at) in sig.items():
        f = getattr(clib, n)
        f.restype, f.argtypes = rt, at
        F[n[4:]] = f
    clib.reb_vec3d_irotate.restype = None
    clib.reb_vec3d_irotate.argtypes = [ctypes.POINTER(V), Q]
    clib.reb_rotation_length_squared.restype = D
    clib.reb_rotation_length_squared.argtypes = [Q]

    def vl(v):
        return [v.x, v.y, v.z]

    def ql(q):
        return [q.ix, q.iy, q.iz, q.r]

    def mkq(l):
        return Q(ix=l[0], iy=l[1], iz=l[2], r=l[3])

    lines, expect, meta = [], [], []
    tolf = {}           # line index -> tolerance factor (condition number of the construction)
    slerp_short = {}

    def add(line, exp, tag, soft=False):
        lines.append(line)
        expect.append(" ".join(d2h(x) for x in exp))
        meta.append((tag, soft))

    n = 20000 if c.thorough else 800
    rng = c.rng.fork()
    worst = {}
    hist = {}
    fails = []          # (key, what, replay)

    def note(k, v):
        if v == v:
            worst[k] = max(worst.get(k, 0.0), v)

    def runit(rng):
        """random unit-ish quaternion (exactly representable inputs, norm within rounding of 1)"""
        kind = rng.randint(0, 3)
        if kind == 0:
            q = [rng.normal() for _ in range(4)]
        elif kind == 1:
            q = [0.0, 0.0, 0.0, 0.0]
            q[rng.randint(0, 3)] = rng.choice([1.0, -1.0])
            return q
        elif kind == 2:   # small angle
            q = [1e-6 * rng.normal(), 1e-6 * rng.normal(), 1e-6 * rng.normal(), 1.0]
        else:             # near pi
            q = [rng.normal(), rng.normal(), rng.normal(), 1e-9 * rng.normal()]
        nrm = math.sqrt(math.fsum(x * x for x in q))
        return [x / nrm for x in q]

    # ---------------- primitives + algebraic laws on the real code
    for i in range(n):
        try:
            v, w = rvec(rng), rvec(rng)
            if i % 7 == 0:
                v = rng.choice(special_vectors())
            s = rng.normal() * rng.loguniform(1e-3, 1e3)
            p, q = runit(rng), runit(rng)
            if i % 11 == 0:      # arbitrary (non-unit) quaternions for the group operations
                p = [rng.normal() * 3 for _ in range(4)]
            V_, W_, P_, Q_ = V(*v), V(*w), mkq(p), mkq(q)
            add("vmul " + hv(*v, s), vl(F["vec3d_mul"](V_, s)), "vec3d_mul")
            add("vadd " + hv(*v, *w), vl(F["vec3d_add"](V_, W_)), "vec3d_add")
            add("cross " + hv(*v, *w), vl(F["vec3d_cross"](V_, W_)), "vec3d_cross")
            add("dot " + hv(*v, *w), [F["vec3d_dot"](V_, W_)], "vec3d_dot")
            add("len2 " + hv(*v), [F["vec3d_length_squared"](V_)], "vec3d_length_squared")
            add("normalize " + hv(*v), vl(F["vec3d_normalize"](V_)), "vec3d_normalize")
            pq = F["rotation_mul"](P_, Q_)
            add("qmul " + hv(*p, *q), ql(pq), "rotation_mul")
            add("qlen2 " + hv(*p), [clib.reb_rotation_length_squared(P_)], "rotation_length_squared")
            add("conj " + hv(*p), ql(F["rotation_conjugate"](P_)), "rotation_conjugate")
            add("qnormalize " + hv(*p), ql(F["rotation_normalize"](P_)), "rotation_normalize")
            pinv = F["rotation_inverse"](P_)
            add("inverse " + hv(*p), ql(pinv), "rotation_inverse")
            rv_ = F["vec3d_rotate"](V_, Q_)
            add("rotate " + hv(*v, *q), vl(rv_), "vec3d_rotate")
            tmp = V(*v)
            clib.reb_vec3d_irotate(ctypes.byref(tmp), Q_)
            if [d2h(x) for x in vl(tmp)] != [d2h(x) for x in vl(rv_)]:
                c.corr_break("reb_vec3d_irotate and reb_vec3d_rotate disagree", dict(v=v, q=q))
            c.count(("prim", i % 50))
            # ---- search: the laws, oracle = exact rational arithmetic on the same doubles
            sc = max(abs(x) for x in v) or 1.0
            scw = max(abs(x) for x in w) or 1.0
            nq = float(sum(Fr(x) ** 2 for x in q))
            if abs(nq - 1) < 1e-12:
                M = frot_matrix(q)
                ev = fapply(M, fr3(v))
                e = max(abs(float(Fr(a) - b)) for a, b in zip(vl(rv_), ev)) / sc
                note("rotate_vs_exact_qvq*", e)
                if not e <= 1e-13:
                    fails.append(("rotate-spec", "reb_vec3d_rotate differs from q v q^-1", dict(v=v, q=q, got=vl(rv_), err=e)))
                rw = F["vec3d_rotate"](W_, Q_)
                d0 = float(fdot(fr3(v), fr3(w)))
                d1 = float(fdot(fr3(vl(rv_)), fr3(vl(rw))))
                e = abs(d1 - d0) / (sc * scw)
                note("dot_preserved", e)
                if not e <= 1e-13:
                    fails.append(("rotate-dot", "rotation does not preserve the dot product", dict(v=v, w=w, q=q, before=d0, after=d1)))
                # cross product covariance (orientation preserved: angular momentum rotates as a vector)
                cr = F["vec3d_rotate"](V(*[float(x) for x in fcross(fr3(v), fr3(w))]), Q_)
                c2 = fcross(fr3(vl(rv_)), fr3(vl(rw)))
                e = max(abs(float(Fr(a) - b)) for a, b in zip(vl(cr), c2)) / (sc * scw)
                note("cross_covariant", e)
                if not e <= 1e-12:
                    fails.append(("rotate-cross", "rotation does not commute with the cross product", dict(v=v, w=w, q=q)))
                # inverse undoes
                back = F["vec3d_rotate"](rv_, F["rotation_inverse"](Q_))
                e = max(abs(a - b) for a, b in zip(vl(back), v)) / sc
                note("inverse_undoes", e)
                if not e <= 1e-13:
                    fails.append(("rotate-inverse", "rotating with the inverse does not undo the rotation", dict(v=v, q=q, back=vl(back))))
            npf = float(sum(Fr(x) ** 2 for x in p))
            if abs(npf - 1) > 1e-3:
                # a user-supplied non-unit quaternion: what reb_vec3d_rotate does is given exactly by c20_rotate_dot_general,
                # R v . R w = v.w + 4(|p|^2 - 1)(u x v).(u x w)
                rvp, rwp = vl(F["vec3d_rotate"](V_, P_)), vl(F["vec3d_rotate"](W_, P_))
                u_ = fr3(p[:3])
                pred = fdot(fr3(v), fr3(w)) + 4 * (sum(Fr(x) ** 2 for x in p) - 1) * fdot(fcross(u_, fr3(v)), fcross(u_, fr3(w)))
                gotd = fdot(fr3(rvp), fr3(rwp))
                e = abs(float(gotd - pred)) / (sc * scw * max(1.0, npf) ** 2)
                note("non_unit_rotate_dot_law", e)
                dim("rotation: non-unit quaternion (exact law)")
                if not e <= 1e-12:
                    fails.append(("rotate-nonunit-law", "reb_vec3d_rotate with a non-unit quaternion does not follow R v.R w = v.w + 4(|q|^2-1)(u x v).(u x w)", dict(v=v, w=w, q=p)))
            if abs(nq - 1) < 1e-12 and abs(npf - 1) < 1e-12:
                a = F["vec3d_rotate"](V_, pq)
                b = F["vec3d_rotate"](rv_, P_)
                e = max(abs(x - y) for x, y in zip(vl(a), vl(b))) / sc
                note("compose", e)
                if not e <= 1e-13:
                    fails.append(("rotate-compose", "rotate(p*q) v != rotate p (rotate q v)", dict(v=v, p=p, q=q, a=vl(a), b=vl(b))))
            # norm multiplicative, q * q^-1 = 1 (any non-zero quaternion)
            e = abs(float(sum(Fr(x) ** 2 for x in ql(pq))) - npf * nq) / max(npf * nq, 1e-300)
            note("norm_multiplicative", e)
            if not e <= 1e-13:
                fails.append(("norm-mul", "|p q|^2 != |p|^2 |q|^2", dict(p=p, q=q)))
            one = ql(F["rotation_mul"](P_, pinv))
            e = max(abs(a - b) for a, b in zip(one, [0, 0, 0, 1]))
            note("q_times_inverse", e)
            if not e <= 1e-13:
                fails.append(("mul-inverse", "p * inverse(p) != identity", dict(p=p, got=one)))
        except (ValueError, OverflowError, ZeroDivisionError) as ex:
            _lc = locals()
            fails.append(("nonfinite:rotation-laws", "the real code returned a non-finite value where the oracle expects a number (%r)" % (ex,),
                          {k_: repr(_lc[k_])[:400] for k_ in ['v', 'w', 'p', 'q', 's'] if k_ in _lc}))
    add("identity", ql(F["rotation_identity"]()), "rotation_identity")

    # ---------------- from_to (all branches)
    nft = 30000 if c.thorough else 1000
    variant_votes = {"asfound": 0, "fixed": 0, "both": 0, "neither": 0}
    ft_cases = []
    FTG = pair_group("from_to", dict(kclass=list(range(10)), fscale=["1", "2^-20", "2^20", "3e5"], tscale=["1", "2^-20", "2^20", "3e5"],
                                     entry=["C", "Rotation(fromv,tov)", "Rotation.from_to"]), lambda f, a, g, b: None)
    ftarray = FTG.array(rng)
    SC = {"1": 1.0, "2^-20": 2.0 ** -20, "2^20": 2.0 ** 20, "3e5": 3e5}
    for i in range(nft + len(ftarray)):
        try:
            if i < nft:
                f, t, cls = gen_from_to(rng, i)
            else:
                fsp = ftarray[i - nft]
                f, t, cls = gen_from_to(rng, 10 * (i + 1) + fsp["kclass"])
                f = [x * SC[fsp["fscale"]] for x in f]; t = [x * SC[fsp["tscale"]] for x in t]
                if "3e5" in (fsp["fscale"], fsp["tscale"]) and cls == "antiparallel-exact":
                    cls = "antiparallel-near"      # a non-power-of-two scale may break the exact antiparallelism of the normalised vectors
                FTG.register(fsp)
                if fsp["entry"] != "C":
                    rpy = rebound.Rotation(fromv=f, tov=t) if fsp["entry"] == "Rotation(fromv,tov)" else rebound.Rotation.from_to(f, t)
                    qc_ = F["rotation_init_from_to"](V(*f), V(*t))
                    ep("Rotation.__init__(fromv,tov)", "Rotation.from_to")
                    if [d2h(x) for x in ql(rpy)] != [d2h(x) for x in ql(qc_)]:
                        fails.append(("py-from_to", "rebound.%s differs from reb_rotation_init_from_to" % fsp["entry"], dict(fromv=f, tov=t)))
            if not all(1e-150 < math.sqrt(sum(x * x for x in v_)) < 1e150 for v_ in (f, t)):
                cls = "extreme-scale"    # |v|^2 under/overflows: the normalisation itself is inaccurate, results are ill-conditioned
            q = F["rotation_init_from_to"](V(*f), V(*t))
            qv = ql(q)
            lines.append("fromto " + hv(*f, *t)); expect.append(" ".join(d2h(x) for x in qv)); meta.append(("fromto", cls))
            lines.append("fromtofixed " + hv(*f, *t)); expect.append(" ".join(d2h(x) for x in qv)); meta.append(("fromtofixed", cls))
            lines.append("fromtotau " + d2h(1e-30) + " " + hv(*f, *t)); expect.append(" ".join(d2h(x) for x in qv)); meta.append(("fromtotau", cls))
            _ff, _tt = fr3(f), fr3(t)
            _anti = fdot(_ff, _tt) < 0 and sum(x * x for x in fcross(_ff, _tt)) <= Fr(1, 10 ** 24) * fdot(_ff, _ff) * fdot(_tt, _tt)
            ft_cases.append((f, t, cls if not _anti else "antiparallel-near", qv))
            if cls == "antiparallel-exact":
                dim("rotation: exactly antiparallel from_to")
            # conditioning of the construction: the bisector from+to cancels when the vectors are nearly opposite
            try:
                _lf, _lt = math.sqrt(float(fdot(_ff, _ff))) or 1.0, math.sqrt(float(fdot(_tt, _tt))) or 1.0
                _hs = math.sqrt(sum((a / _lf + b / _lt) ** 2 for a, b in zip(f, t)))
            except OverflowError:
                _hs = 2.0
            tolf[len(lines) - 1] = tolf[len(lines) - 2] = tolf[len(lines) - 3] = max(1.0, 2.0 / _hs) if _hs > 1e-9 else 1.0   # exactly opposite: own branch, well conditioned
            hist[cls] = hist.get(cls, 0) + 1
            c.count(("from_to", cls, i % 40))
            # ---- search: unit and maps from -> to (oracle: exact rational q v q^-1 on the returned doubles,
            #      directions normalised with math.fsum / sqrt independent of the C normalisation)
            if cls == "extreme-scale":
                continue
            lf = math.sqrt(float(sum(Fr(x) ** 2 for x in f)))
            lt_ = math.sqrt(float(sum(Fr(x) ** 2 for x in t)))
            if not (lf > 1e-150 and lt_ > 1e-150 and lf < 1e150 and lt_ < 1e150):
                continue
            nq = float(sum(Fr(x) ** 2 for x in qv)) if all(x == x for x in qv) else float("nan")
            # input class of F7: directions antiparallel to within a few ulp (measured exactly)
            ff, tt = fr3(f), fr3(t)
            cr2 = sum(x * x for x in fcross(ff, tt))
            antip = fdot(ff, tt) < 0 and cr2 <= Fr(1, 10 ** 30) * fdot(ff, ff) * fdot(tt, tt)
            key = "from_to:" + cls
            if antip:
                # the known defect has a definite signature (theorem c20_from_to_antiparallel_as_found):
                # r = 0 and |q|^2 = 1 - m^2, m the smallest |component| of the direction.  Anything else
                # on the same inputs is a different failure and is reported under its own key.
                m2 = min((x / lf) ** 2 for x in f)
                sig_ok = all(x == x for x in qv) and qv[3] == 0.0 and abs(nq - (1 - m2)) <= 1e-12
                key = "F7:from_to-antiparallel" if sig_ok else "from_to:antiparallel-unexpected"
                # second known defect on this input class: the normalised vectors are opposite only up to rounding and the
                # rounding residue from+to is collinear with them (e.g. (1,1,1) -> (-3,-3,-3)): the test for the antiparallel branch
                # (half exactly zero) misses it and the two-stage construction degenerates to +-identity or NaN
                fnn = [x * (1.0 / math.sqrt(sum(y * y for y in f))) for x in f]
                tnn = [x * (1.0 / math.sqrt(sum(y * y for y in t))) for x in t]
                resid = [a + b for a, b in zip(fnn, tnn)]
                crs = [fnn[1] * resid[2] - fnn[2] * resid[1], fnn[2] * resid[0] - fnn[0] * resid[2], fnn[0] * resid[1] - fnn[1] * resid[0]]
                collinear = any(resid) and max(abs(x) for x in crs) <= 1e-17 * max(abs(x) for x in resid)
                degenerate_result = (not all(x == x for x in qv)) or (max(abs(x) for x in qv[:3]) <= 1e-7 and abs(abs(qv[3]) - 1) <= 1e-7)
                if not sig_ok and collinear and degenerate_result:
                    key = "C20:from_to-antiparallel-collinear-residue"
            bad = None
            if not abs(nq - 1) <= 1e-13:
                bad = "from_to rotation is not unit: |q|^2 = %r" % nq
            else:
                fn = [x / lf for x in f]
                tn = [x / lt_ for x in t]
                # apply through the real code (reb_vec3d_rotate) and through the exact specification
                got = vl(F["vec3d_rotate"](V(*fn), q))
                e = max(abs(a - b) for a, b in zip(got, tn))
                M = frot_matrix(qv)
                e2 = max(abs(float(a) - b) for a, b in zip(fapply(M, fr3(fn)), tn))
                note("from_to_maps[" + cls + "]", max(e, e2))
                tolmap = 1e-13 if cls != "antiparallel-near" else 1e-7
                if not (e <= tolmap and e2 <= tolmap):
                    bad = "from_to rotation does not map from to to (error %.3g)" % max(e, e2)
            if cls != "antiparallel-near":
                note("from_to_norm[" + cls + "]", abs(nq - 1))
            if bad:
                fails.append((key, bad, dict(fromv=f, tov=t, q=qv, norm2=nq, cls=cls)))
        except (ValueError, OverflowError, ZeroDivisionError) as ex:
            _lc = locals()
            fails.append(("nonfinite:from_to", "the real code returned a non-finite value where the oracle expects a number (%r)" % (ex,),
                          {k_: repr(_lc[k_])[:400] for k_ in ['f', 't', 'cls'] if k_ in _lc}))

    NAG = pair_group("to_new_axes", dict(nz=["+z", "-z", "x-axis", "generic-unit", "generic-nonunit"], nx=["perp", "generic", "minus-x", "tiny-perp"]), lambda f, a, g, b: None)
    # ---------------- angle-axis, orbit, new axes, slerp
    nc = 10000 if c.thorough else 500
    for i in range(nc):
        try:
            ang = rng.choice([0.0, math.pi, -math.pi, math.pi / 2, 2 * math.pi, 1e-9, rng.uniform(-10, 10), rng.uniform(-1e3, 1e3)])
            ax = rvec(rng) if i % 5 else rng.choice(special_vectors())
            q = F["rotation_init_angle_axis"](ang, V(*ax))
            add("angleaxis " + hv(ang, *ax), ql(q), "rotation_init_angle_axis")
            c.count(("angle_axis", i % 40))
            la = math.sqrt(float(sum(Fr(x) ** 2 for x in ax)))
            if 1e-150 < la < 1e150:
                nq = float(sum(Fr(x) ** 2 for x in ql(q)))
                note("angle_axis_norm", abs(nq - 1))
                # oracle: Rodrigues formula with math.cos/math.sin of the full angle
                an = [x / la for x in ax]
                v = rvec(rng, 1.0)
                got = vl(F["vec3d_rotate"](V(*v), q))
                cr = [an[1] * v[2] - an[2] * v[1], an[2] * v[0] - an[0] * v[2], an[0] * v[1] - an[1] * v[0]]
                dt = sum(a * b for a, b in zip(an, v))
                want = [v[k] * math.cos(ang) + cr[k] * math.sin(ang) + an[k] * dt * (1 - math.cos(ang)) for k in range(3)]
                e = max(abs(a - b) for a, b in zip(got, want))
                note("angle_axis_rodrigues", e / max(1.0, abs(ang)))
                if not abs(nq - 1) <= 1e-13 or not e <= 1e-12 * max(1.0, abs(ang)):
                    fails.append(("angle-axis", "angle-axis rotation is not the Rodrigues rotation / not unit", dict(angle=ang, axis=ax, q=ql(q), v=v, got=got, want=want)))
            Om, inc, om = [rng.choice([0.0, math.pi, math.pi / 2, rng.uniform(-7, 7)]) for _ in range(3)]
            q = F["rotation_init_orbit"](Om, inc, om)
            add("orbit " + hv(Om, inc, om), ql(q), "rotation_init_orbit")
            c.count(("orbit", i % 40))
            nq = float(sum(Fr(x) ** 2 for x in ql(q)))
            note("orbit_norm", abs(nq - 1))
            # oracle: Murray & Dermott eq. 2.119-2.121 with full-angle sines and cosines
            cO, sO, ci, si, co, so = math.cos(Om), math.sin(Om), math.cos(inc), math.sin(inc), math.cos(om), math.sin(om)
            P = [[cO * co - sO * so * ci, -cO * so - sO * co * ci, sO * si],
                 [sO * co + cO * so * ci, -sO * so + cO * co * ci, -cO * si],
                 [so * si, co * si, ci]]
            v = rvec(rng, 1.0)
            got = vl(F["vec3d_rotate"](V(*v), q))
            want = [sum(P[a][b] * v[b] for b in range(3)) for a in range(3)]
            e = max(abs(a - b) for a, b in zip(got, want))
            note("orbit_MD2.121", e)
            if not abs(nq - 1) <= 1e-13 or not e <= 1e-13:
                fails.append(("orbit", "Rotation.orbit is not Murray-Dermott 2.121 / not unit", dict(Omega=Om, inc=inc, omega=om, q=ql(q), v=v, got=got, want=want)))
            # to_new_axes
            kind = i % 6
            if kind == 0:
                nz = rng.choice([[0.0, 0.0, -1.0], [0.0, 0.0, 1.0], [0.0, 0.0, -3.0], [1.0, 0.0, 0.0], [0.0, -2.0, 0.0]])
            else:
                nz = rvec(rng)
            nx = rvec(rng)
            if kind == 1:   # newx such that the rotated newx is antiparallel to x
                nx = [-1.0, 0.0, 0.0] if nz[0] == 0 else nx
            if kind == 2:
                nz = [0.0, 0.0, -1.0]; nx = [-1.0, 0.0, 0.0]
            if i == 0:
                nz = [0.0, 0.0, 2.0]; nx = [1.0, 0.0, 1.0]     # witness of c20_to_new_axes_F18_negation
            if 1 <= i <= 20:
                # full factorial newz kind x newx kind
                zk = ["+z", "-z", "x-axis", "generic-unit", "generic-nonunit"][(i - 1) // 4]
                xk = ["perp", "generic", "minus-x", "tiny-perp"][(i - 1) % 4]
                g_ = rvec(rng, 1.0); lg_ = math.sqrt(sum(x * x for x in g_))
                nz = {"+z": [0.0, 0.0, 1.0], "-z": [0.0, 0.0, -1.0], "x-axis": [1.0, 0.0, 0.0], "generic-unit": [x / lg_ for x in g_],
                      "generic-nonunit": [x * 7.3 for x in g_]}[zk]
                h_ = rvec(rng, 1.0)
                dz_ = sum(a * b for a, b in zip(h_, nz)) / sum(x * x for x in nz)
                pp_ = [a - dz_ * b for a, b in zip(h_, nz)]
                nx = {"perp": pp_, "generic": h_, "minus-x": [-1.0, 0.0, 0.0], "tiny-perp": [b + 1e-6 * a for a, b in zip(pp_, nz)]}[xk]
                NAG.register(dict(nz=zk, nx=xk))
            q = F["rotation_init_to_new_axes"](V(*nz), V(*nx))
            # conditioning of the orthogonalisation newx - (newx.z)z: rounding differences are amplified by |newx|/|newx_perp|
            _lz = math.sqrt(sum(x * x for x in nz)) or 1.0
            _dp = sum(a * b for a, b in zip(nz, nx)) / _lz
            _perp = math.sqrt(max(sum((a - _dp * b / _lz) ** 2 for a, b in zip(nx, nz)), 1e-300))
            _cond = max(1.0, math.sqrt(sum(x * x for x in nx)) / _perp, math.sqrt(sum(x * x for x in nx)) * max(_lz, 1.0) / _perp)
            try:
                _zn = [x / _lz for x in nz]
                _c1 = 2.0 / max(math.sqrt(sum((a + b) ** 2 for a, b in zip(_zn, [0, 0, 1]))), 1e-300)
                _q1 = F["rotation_init_from_to"](V(*_zn), V(0, 0, 1))
                _x2 = vl(F["vec3d_rotate"](V(*[a - _dp * b for a, b in zip(nx, _zn)]), _q1))
                _l2 = math.sqrt(sum(x * x for x in _x2)) or 1.0
                _c2 = 2.0 / max(math.sqrt(sum((a / _l2 + b) ** 2 for a, b in zip(_x2, [1, 0, 0]))), 1e-300)
                # exactly opposite vectors take the dedicated (well conditioned) branch
                _c1 = _c1 if _c1 < 1e9 else 1.0
                _c2 = _c2 if _c2 < 1e9 else 1.0
                _cond = max(_cond, _c1, _c2, _cond * _c2)
            except Exception:
                pass
            if not _cond == _cond:
                _cond = 1.0
            for vv in ("00", "10", "01", "11"):
                tolf[len(lines)] = _cond
                lines.append("newaxes" + vv + " " + hv(*nz, *nx)); expect.append(" ".join(d2h(x) for x in ql(q))); meta.append(("newaxes" + vv, "newaxes"))
            tolf[len(lines)] = _cond
            lines.append("newaxestau " + d2h(1e-30) + " " + hv(*nz, *nx)); expect.append(" ".join(d2h(x) for x in ql(q))); meta.append(("newaxes21", "newaxes"))
            c.count(("new_axes", i % 40))
            lz = math.sqrt(sum(x * x for x in nz))
            zn = [x / lz for x in nz]
            dp = sum(a * b for a, b in zip(zn, nx))
            if abs(lz - 1) > 1e-3 and abs(dp) > 1e-3 * math.sqrt(sum(x * x for x in nx)):
                dim("rotation: non-unit newz with non-perpendicular newx")
            xo = [a - dp * b for a, b in zip(nx, zn)]
            lx = math.sqrt(sum(x * x for x in xo))
            if lx > 1e-6 * math.sqrt(sum(x * x for x in nx)) and all(x == x for x in ql(q)):
                xn = [x / lx for x in xo]
                nq = float(sum(Fr(x) ** 2 for x in ql(q)))
                gz = vl(F["vec3d_rotate"](V(*zn), q))
                gx = vl(F["vec3d_rotate"](V(*xn), q))
                e = max(max(abs(a - b) for a, b in zip(gz, [0, 0, 1])), max(abs(a - b) for a, b in zip(gx, [1, 0, 0])))
                cond = max(math.sqrt(sum(x * x for x in nx)) / lx, _cond)     # incl. the conditioning of the two from_to stages
                note("new_axes_maps", e / cond)
                note("new_axes_norm", abs(nq - 1))
                if not abs(nq - 1) <= 1e-13 or not e <= 1e-13 * cond:
                    nonunit = abs(lz - 1) > 1e-12 and abs(dp) > 1e-12 * math.sqrt(sum(x * x for x in nx))
                    if nonunit:
                        # signature of the known defect (theorem c20_to_new_axes_F18_negation): a unit quaternion
                        # that takes the *wrongly* orthogonalised newx - (newz.newx) zhat to the x axis
                        d0 = sum(a * b for a, b in zip(nz, nx))
                        xw = [a - d0 * b for a, b in zip(nx, zn)]
                        lw = math.sqrt(sum(x * x for x in xw))
                        gw = vl(F["vec3d_rotate"](V(*[x / lw for x in xw]), q)) if lw > 0 else [float("nan")] * 3
                        sig_ok = abs(nq - 1) <= 1e-13 and max(abs(a - b) for a, b in zip(gw, [1, 0, 0])) <= 1e-12 * max(1.0, math.sqrt(sum(x * x for x in nx)) / lw)
                        nonunit = sig_ok
                    fails.append(("F18:to_new_axes-nonunit-newz" if nonunit else "new-axes",
                                  "to_new_axes does not map newz->z, newx->x / not unit (|newz| = %.3g, newx not perpendicular: %s)" % (lz, nonunit),
                                  dict(newz=nz, newx=nx, q=ql(q), gz=gz, gx=gx)))
            # slerp
            q1, q2 = runit(rng), runit(rng)
            if i % 4 == 0:
                q2 = list(q1)
            if i % 4 == 1:
                q2 = [-x for x in q1]
                if i % 8 == 5:      # nearly antipodal: the short-cut branch returns a nearly zero quaternion
                    eps_ = 10 ** -rng.uniform(5, 9)
                    q2 = [-x + eps_ * rng.normal() for x in q1]
                    n_ = math.sqrt(math.fsum(x * x for x in q2)); q2 = [x / n_ for x in q2]
            if i % 4 == 2:
                eps = 10 ** -rng.uniform(3, 9)
                q2 = [x + eps * rng.normal() for x in q1]
            t = rng.choice([0.0, 1.0, 0.5, rng.uniform(0, 1)])
            qsl = F["rotation_slerp"](mkq(q1), mkq(q2), t)
            add("slerp " + hv(1e-4, 0.5, *q1, *q2, t), ql(qsl), "rotation_slerp")
            c.count(("slerp", i % 40))
            cs = math.fsum(a * b for a, b in zip(q1, q2))
            if abs(cs) < 1 - 1e-6 and abs(math.fsum(a * a for a in q1) - 1) < 1e-12 and abs(math.fsum(a * a for a in q2) - 1) < 1e-12:
                # interpolation contract: unit, at angle t*theta from q1 and (1-t)*theta from q2 on the great circle
                th = math.acos(cs)
                res = ql(qsl)
                sn = math.sin(th)
                e = max(abs(math.fsum(a * a for a in res) - 1),
                        abs(math.fsum(a * b for a, b in zip(q1, res)) - math.cos(t * th)),
                        abs(math.fsum(a * b for a, b in zip(q2, res)) - math.cos((1 - t) * th))) * sn
                note("slerp_great_circle", e)
                if not e <= 1e-12:
                    fails.append(("slerp", "slerp result is not on the great circle at parameter t", dict(q1=q1, q2=q2, t=t, got=res)))
            elif abs(cs) < 1 - 1e-13 and abs(math.fsum(a * a for a in q1) - 1) < 1e-12 and abs(math.fsum(a * a for a in q2) - 1) < 1e-12 \
                    and math.sqrt(1 - cs * cs) < 0.5e-4:
                # short-cut branch |sin theta| < QUATERNION_EPS: the mean (q1+q2)/2, |.|^2 = (1 + q1.q2)/2 (theorem c20_slerp_shortcuts)
                res = ql(qsl)
                e = abs(math.fsum(a * a for a in res) - (1 + cs) / 2)
                note("slerp_shortcut_norm2_is_(1+c)/2", e)
                slerp_short["cases"] = slerp_short.get("cases", 0) + 1
                slerp_short["min_norm2"] = min(slerp_short.get("min_norm2", 1.0), math.fsum(a * a for a in res))
                if not e <= 1e-12:
                    fails.append(("slerp-shortcut", "slerp short-cut branch is not the mean of its arguments", dict(q1=q1, q2=q2, t=t, got=res)))
        except (ValueError, OverflowError, ZeroDivisionError) as ex:
            _lc = locals()
            fails.append(("nonfinite:rotation-constructors", "the real code returned a non-finite value where the oracle expects a number (%r)" % (ex,),
                          {k_: repr(_lc[k_])[:400] for k_ in ['ang', 'ax', 'Om', 'inc', 'om', 'nz', 'nx', 'q1', 'q2', 't'] if k_ in _lc}))

    # ---------------- zero / NaN / inf arguments: the constructors return NaN silently (no error path); model and code must agree
    nanv, infv = float("nan"), float("inf")
    degs = [[0.0, 0.0, 0.0], [nanv, 0.0, 1.0], [infv, 0.0, 0.0], [0.0, -0.0, 0.0], [1e-200, 0.0, 0.0], [1e200, 1e200, 0.0]]
    okv = [[1.0, 0.0, 0.0], [0.3, -2.0, 1.5]]
    for dv in degs:
        for ov in okv:
            for f_, t_ in ((dv, ov), (ov, dv)):
                q = F["rotation_init_from_to"](V(*f_), V(*t_))
                for opn in ("fromto", "fromtofixed", "fromtotau " + d2h(1e-30)):
                    lines.append(opn + " " + hv(*f_, *t_)); expect.append(" ".join(d2h(x) for x in ql(q))); meta.append((opn.split()[0], "degenerate-input"))
                q = F["rotation_init_to_new_axes"](V(*f_), V(*t_))
                for vv in ("00", "10", "01", "11"):
                    lines.append("newaxes" + vv + " " + hv(*f_, *t_)); expect.append(" ".join(d2h(x) for x in ql(q))); meta.append(("newaxes" + vv, "degenerate-input"))
                lines.append("newaxestau " + d2h(1e-30) + " " + hv(*f_, *t_)); expect.append(" ".join(d2h(x) for x in ql(q))); meta.append(("newaxes21", "degenerate-input"))
                dim("rotation: zero / NaN / inf constructor arguments", 2)
        for ang in (1.0, nanv, infv, 0.0):
            add("angleaxis " + hv(ang, *dv), ql(F["rotation_init_angle_axis"](ang, V(*dv))), "rotation_init_angle_axis")
            dim("rotation: zero / NaN / inf constructor arguments")
        add("normalize " + hv(*dv), vl(F["vec3d_normalize"](V(*dv))), "vec3d_normalize")
    for ang3 in ((nanv, 0.1, 0.2), (0.1, infv, 0.2), (0.0, 0.0, 0.0)):
        add("orbit " + hv(*ang3), ql(F["rotation_init_orbit"](*ang3)), "rotation_init_orbit")
    # ---------------- run the model
    c.log("rotations: %d model lines through drv_c20" % len(lines))
    got = run_driver(exe, lines)
    nbit = ndis = 0
    first = None
    per = {}
    VAR = ["fromto", "fromtofixed", "fromtotau", "newaxes00", "newaxes10", "newaxes01", "newaxes11", "newaxes21"]
    strict = {k: 0 for k in VAR}
    vbit = {}
    ft_match = {k: [0, 0] for k in VAR}
    ft_bad = {k: None for k in VAR}
    if len(got) != len(lines):
        c.corr_break("drv_c20 returned %d lines for %d ops" % (len(got), len(lines)))
        return
    for idx_, (g, e, (tag, cls), l) in enumerate(zip(got, expect, meta, lines)):
        per[tag] = per.get(tag, 0) + 1
        same = g.split() == e.split()
        okk = same
        if not same:
            try:
                gv, ev = [h2d(x) for x in g.split()], [h2d(x) for x in e.split()]
                sc = max([abs(x) for x in ev + gv if x == x and abs(x) != float("inf")] + [1e-300])
                okk = len(gv) == len(ev) and all(ulps(a, b, sc) <= 64 * tolf.get(idx_, 1.0) for a, b in zip(gv, ev))
            except Exception:
                okk = False
        if tag in ft_match:
            # the model variants differ only in the exactly-antiparallel branch / the orthogonalisation
            ft_match[tag][0] += 1
            strict[tag] += 1 if same else 0
            if okk or cls in ("antiparallel-near", "extreme-scale"):
                ft_match[tag][1] += 1
            elif ft_bad[tag] is None:
                ft_bad[tag] = dict(op_line=l, model=g, impl=e, cls=cls)
            if not same:
                vbit[tag] = vbit.get(tag, 0) + 1
            continue
        if not same:
            nbit += 1
            if not okk:
                ndis += 1
                if first is None:
                    first = dict(routine=tag, op_line=l, model=g, impl=e)
    # which variant of the antiparallel branch / of the orthogonalisation does the compiled code implement?
    full = lambda k: ft_match[k][0] == ft_match[k][1]
    # among the variants that agree on every well-conditioned line, the one with most bitwise agreements (the variants
    # differ on nearly antiparallel inputs, where only an exact match is meaningful)
    cand7 = [(strict[k], -i, v) for i, (k, v) in enumerate((("fromto", "0"), ("fromtofixed", "1"), ("fromtotau", "2"))) if full(k)]
    f7 = max(cand7)[2] if cand7 else None
    f18 = None
    if f7 == "2":
        f18 = "1" if full("newaxes21") else None
    elif f7 is not None:
        f18 = "0" if full("newaxes" + f7 + "0") else ("1" if full("newaxes" + f7 + "1") else None)
    c.cov["from_to_model_variant_matching_the_code"] = {"0": "as found (antiparallel axis not normalised, F7)", "1": "repaired (fixes/F7.diff)",
                                                        "2": "repaired (fixes/F7.diff + fixes/C20-from-to-nearly-antiparallel.diff)", None: "neither"}[f7]
    c.cov["to_new_axes_model_variant_matching_the_code"] = {"0": "as found (dot product with the un-normalised newz, F18)", "1": "repaired (fixes/C20-to-new-axes-orthogonalise.diff)", None: "neither"}[f18]
    if f7 is not None:
        nbit += vbit.get({"0": "fromto", "1": "fromtofixed", "2": "fromtotau"}[f7], 0)
        if f18 is not None:
            nbit += vbit.get("newaxes" + f7 + f18, 0)
    if f7 is None:
        c.corr_break("reb_rotation_init_from_to agrees with neither model variant (as found: %d/%d, repaired: %d/%d)"
                     % (ft_match["fromto"][1], ft_match["fromto"][0], ft_match["fromtofixed"][1], ft_match["fromtofixed"][0]), ft_bad["fromto"])
    elif f18 is None:
        f7n = f7 if f7 != "2" else "1"
        c.corr_break("reb_rotation_init_to_new_axes agrees with neither model variant (as found: %d/%d, repaired: %d/%d)"
                     % (ft_match["newaxes" + f7n + "0"][1], ft_match["newaxes" + f7n + "0"][0], ft_match["newaxes" + f7 + "1"][1], ft_match["newaxes" + f7 + "1"][0]),
                     ft_bad["newaxes" + f7 + "1"])
    c.cov["rotation_model_lines"] = len(lines)
    c.cov["rotation_lines_per_routine"] = per
    c.cov["rotation_bitwise_mismatches_within_tolerance"] = nbit - ndis
    c.cov["rotation_disagreements"] = ndis
    c.cov["from_to_branch_histogram"] = hist
    c.cov["rotation_worst_errors_measured"] = {k: float("%.3g" % v) for k, v in sorted(worst.items())}
    if ndis:
        c.corr_break("%d rotation model/implementation lines differ; first: %s" % (ndis, first["routine"]), first)
    # ---------------- Python Rotation class = the C functions (thin wrapper): same answers through the class
    npy = 0
    pybroken = False
    for f, t, cls, qv in ft_cases[:200]:
        r = rebound.Rotation(fromv=f, tov=t)
        if [d2h(x) for x in [r.ix, r.iy, r.iz, r.r]] != [d2h(x) for x in qv] and not pybroken:
            c.corr_break("rebound.Rotation(fromv, tov) differs from reb_rotation_init_from_to", dict(f=f, t=t))
            pybroken = True
        lf = math.sqrt(sum(x * x for x in f)); lt_ = math.sqrt(sum(x * x for x in t))
        if cls not in ("antiparallel-exact", "antiparallel-near") and 1e-100 < lf < 1e100 and 1e-100 < lt_ < 1e100:
            img = r * f
            e = max(abs(a / lf - b / lt_) for a, b in zip([img.x, img.y, img.z], t))
            if not e <= 1e-12:
                fails.append(("py-from_to", "rebound.Rotation(fromv=f, tov=t) * f is not along t", dict(fromv=f, tov=t, image=[img.x, img.y, img.z])))
        r2 = rebound.Rotation.from_to(f, t)
        v = r2 * [1.0, 2.0, 3.0]
        w = vl(F["vec3d_rotate"](V(1.0, 2.0, 3.0), mkq(qv)))
        if [d2h(x) for x in [v.x, v.y, v.z]] != [d2h(x) for x in w] and not pybroken:
            c.corr_break("Rotation.__mul__(vector) differs from reb_vec3d_rotate (through Rotation.from_to)", dict(f=f, t=t))
            pybroken = True
        npy += 1
    for i in range(100):
        ang = rng.uniform(-7, 7); ax = rvec(rng)
        r = rebound.Rotation(angle=ang, axis=ax)
        q = F["rotation_init_angle_axis"](ang, V(*ax))
        ri = r.inverse(); qi = F["rotation_inverse"](q)
        ro = rebound.Rotation.orbit(Omega=ang, inc=ax[0], omega=ax[1]); qo = F["rotation_init_orbit"](ang, ax[0], ax[1])
        rm = r * ro; qm = F["rotation_mul"](q, qo)
        rn = rebound.Rotation.to_new_axes(newz=ax, newx=[ax[1], -ax[0], 0.3]); qn = F["rotation_init_to_new_axes"](V(*ax), V(ax[1], -ax[0], 0.3))
        for a, b, nm in ((r, q, "angle/axis"), (ri, qi, "inverse"), (ro, qo, "orbit"), (rm, qm, "__mul__"), (rn, qn, "to_new_axes")):
            if [d2h(x) for x in ql(a)] != [d2h(x) for x in ql(b)] and not pybroken:
                c.corr_break("rebound.Rotation %s differs from the C routine" % nm, dict(angle=ang, axis=ax))
                pybroken = True
        # default x axis of to_new_axes: z cross newz
        rn2 = rebound.Rotation.to_new_axes(newz=ax)
        gz = rn2 * [x for x in ax]
        lz = math.sqrt(sum(x * x for x in ax))
        e = max(abs(a - b) for a, b in zip([gz.x / lz, gz.y / lz, gz.z / lz], [0, 0, 1]))
        if not e <= 1e-13:
            fails.append(("new-axes-default", "to_new_axes(newz) does not map newz to z", dict(newz=ax, got=[gz.x, gz.y, gz.z])))
        npy += 1
        c.count(("pyrotation", i % 20))
    c.cov["python_rotation_class_cases"] = npy
    c.cov["slerp_shortcut_branch"] = slerp_short
    # simulation / particle rotation = the vector rotation on every particle (positions and velocities),
    # energy and |L| preserved (oracle: exact rational kinetic energy and pair distances)
    RG = pair_group("sim.rotate", dict(vmode=[0, 1, 2, 3], roles=["all", "tp0", "tp1"], qkind=["generic", "axis", "small", "nearpi", "identity"],
                                       N=[2, 3, 6], entry=["Simulation.rotate", "Rotation*Simulation", "Particle.rotate each"]), lambda f, a, g, b: None)
    rarray = RG.array(rng)
    nsim = len(rarray) * (4 if c.thorough else 1)
    sim_rot_var_cases = {}
    for i in range(nsim):
        rspec = rarray[i % len(rarray)]
        sim = rebound.Simulation()
        N = rspec["N"]
        for k in range(N):
            sim.add(m=rng.loguniform(1e-3, 1), x=rng.normal(), y=rng.normal(), z=rng.normal(), vx=rng.normal(), vy=rng.normal(), vz=rng.normal())
        # variational particles with NON-ZERO data: reb_simulation_irotate must rotate all N particles, a variation
        # being the derivative of a vector transforms with the same (linear) rotation (theorem c20_rotate_variations)
        vmode = rspec["vmode"]
        if rspec["roles"] != "all":
            sim.N_active = rng.randint(1, N - 1)      # test particles are rotated like everything else
            sim.testparticle_type = 0 if rspec["roles"] == "tp0" else 1
            if rng.chance(0.5):
                sim.particles[N - 1].m = 0.0
            dim("roles: N_active < N / test particles (frame ops)")
        v1 = None
        if vmode in (1, 2):
            v1 = sim.add_variation()
        if vmode == 2:
            sim.add_variation(order=2, first_order=v1)
            sim.add_variation(testparticle=rng.randint(0, N - 1))
        if vmode == 3:
            sim.init_megno(seed=rng.randint(1, 10 ** 6))
        if vmode in (1, 2):
            for k in range(N, sim.N):
                pv = sim.particles[k]
                pv.m = rng.normal() * 0.1
                pv.x, pv.y, pv.z, pv.vx, pv.vy, pv.vz = [rng.normal() for _ in range(6)]
        pre = [(p.m, [p.x, p.y, p.z], [p.vx, p.vy, p.vz]) for p in sim.particles]
        E0 = sim.energy(); L0 = sim.angular_momentum()
        o0 = sim.particles[1].orbit(primary=sim.particles[0])
        o0v = (o0.a, o0.e, vl(o0.hvec), vl(o0.evec))
        qv = runit(rng)
        if rspec["qkind"] == "axis":
            qv = [0.0, 0.0, 0.0, 0.0]; qv[rng.randint(0, 2)] = rng.choice([1.0, -1.0])
        elif rspec["qkind"] == "identity":
            qv = [0.0, 0.0, 0.0, rng.choice([1.0, -1.0])]
        elif rspec["qkind"] in ("small", "nearpi"):
            qv = [1e-6 * rng.normal(), 1e-6 * rng.normal(), 1e-6 * rng.normal(), 1.0] if rspec["qkind"] == "small" else [rng.normal(), rng.normal(), rng.normal(), 1e-9 * rng.normal()]
            nn_ = math.sqrt(math.fsum(x * x for x in qv)); qv = [x / nn_ for x in qv]
        r = mkq(qv)
        if rspec["entry"] == "Simulation.rotate":
            sim.rotate(r); ep("Simulation.rotate", "reb_simulation_irotate")
        elif rspec["entry"] == "Rotation*Simulation":
            s_new = r * sim                                  # Rotation.__mul__(Simulation): copy, rotate
            if [[pp.x, pp.vx] for pp in sim.particles] != [[row[1][0], row[2][0]] for row in pre]:
                fails.append(("py-rot-mul-sim", "Rotation * Simulation modified its operand", dict(q=qv)))
            sim = s_new; ep("Rotation.__mul__(Simulation)", "reb_simulation_irotate")
        else:
            for pp in sim.particles:                         # Particle.rotate -> reb_particle_irotate, on real and variational particles
                pp.rotate(r)
            ep("Particle.rotate", "reb_particle_irotate")
        RG.register(rspec)
        E1 = sim.energy(); L1 = sim.angular_momentum()
        # orbital elements of the rotated system (reb_orbit_from_particle on the real code): h and the eccentricity
        # vector rotate as vectors (theorem c20_rotate_orbit_vectors); e and the inclination from the rotated z axis are unchanged
        o1 = sim.particles[1].orbit(primary=sim.particles[0])
        hs_ = math.sqrt(sum(x * x for x in o0v[2])) or 1.0
        eh = max(abs(a - b) for a, b in zip(vl(o1.hvec), vl(F["vec3d_rotate"](V(*o0v[2]), r)))) / hs_
        ee = max(abs(a - b) for a, b in zip(vl(o1.evec), vl(F["vec3d_rotate"](V(*o0v[3]), r)))) / max(1.0, o0v[1])
        zr = vl(F["vec3d_rotate"](V(0.0, 0.0, 1.0), r))
        ci0 = o0v[2][2] / hs_
        ci1 = sum(a * b for a, b in zip(vl(o1.hvec), zr)) / hs_
        note("orbit_hvec_rotates", eh); note("orbit_evec_rotates", ee); note("orbit_e_invariant", abs(o1.e - o0v[1]) / max(1.0, o0v[1]))
        note("orbit_cos_inc_wrt_rotated_z", abs(ci1 - ci0))
        if not (eh <= 1e-13 and ee <= 1e-12 and abs(o1.e - o0v[1]) <= 1e-12 * max(1.0, o0v[1]) and abs(ci1 - ci0) <= 1e-13):
            fails.append(("orbit-rotate", "orbital elements of the rotated system are not the rotated elements (h, e vector, e, inclination)",
                          dict(q=qv, pre=pre[:2], h0=o0v[2], h1=vl(o1.hvec), e0=o0v[3], e1=vl(o1.evec))))
        for k, p in enumerate(sim.particles):
            wantx = vl(F["vec3d_rotate"](V(*pre[k][1]), r)); wantv = vl(F["vec3d_rotate"](V(*pre[k][2]), r))
            if [d2h(x) for x in [p.x, p.y, p.z, p.vx, p.vy, p.vz]] != [d2h(x) for x in wantx + wantv]:
                c.corr_break("reb_simulation_irotate differs from reb_vec3d_rotate on particle %d of %d (N_var=%d)" % (k, sim.N, sim.N_var), dict(q=qv, pre=pre[k]))
        # search: variational particles after Simulation.rotate = exact q v q^-1 of the variational particles before,
        # and = the finite difference of two rotated shadow simulations (first-order configuration)
        Mq = frot_matrix(qv)
        ev = 0.0
        for k in range(N, sim.N):
            pk = sim.particles[k]
            wx = fapply(Mq, fr3(pre[k][1])); wv = fapply(Mq, fr3(pre[k][2]))
            sck = max([abs(x) for x in pre[k][1] + pre[k][2]] + [1e-300])
            ev = max(ev, max(abs(float(Fr(a) - b)) for a, b in zip([pk.x, pk.y, pk.z, pk.vx, pk.vy, pk.vz], wx + wv)) / sck)
        if sim.N > N:
            note("sim_rotate_variations_vs_exact", ev)
            dim("variational: rotate 1st/2nd order/megno")
            sim_rot_var_cases[vmode] = sim_rot_var_cases.get(vmode, 0) + 1
            if not ev <= 1e-13:
                fails.append(("sim-rotate-variations", "Simulation.rotate does not rotate the variational particles (N=%d, N_var=%d, mode %d): they are no longer the derivative of the rotated coordinates" % (sim.N, sim.N_var, vmode),
                              dict(q=qv, N_real=N, N_var=sim.N_var, pre=pre, post=[[p.x, p.y, p.z, p.vx, p.vy, p.vz] for p in sim.particles], err=ev)))
        if vmode in (1, 2):
            hstep = 2.0 ** -20
            sA, sB = rebound.Simulation(), rebound.Simulation()
            for k in range(N):
                sA.add(m=pre[k][0], x=pre[k][1][0], y=pre[k][1][1], z=pre[k][1][2], vx=pre[k][2][0], vy=pre[k][2][1], vz=pre[k][2][2])
                dk = pre[N + k]
                sB.add(m=pre[k][0], x=pre[k][1][0] + hstep * dk[1][0], y=pre[k][1][1] + hstep * dk[1][1], z=pre[k][1][2] + hstep * dk[1][2],
                       vx=pre[k][2][0] + hstep * dk[2][0], vy=pre[k][2][1] + hstep * dk[2][1], vz=pre[k][2][2] + hstep * dk[2][2])
            sA.rotate(r); sB.rotate(r)
            efd = 0.0
            for k in range(N):
                pa_, pb_, pk = sA.particles[k], sB.particles[k], sim.particles[N + k]
                for f_ in COMPS6:
                    efd = max(efd, abs((getattr(pb_, f_) - getattr(pa_, f_)) / hstep - getattr(pk, f_)))
            note("sim_rotate_variations_vs_finite_differences", efd if efd < 1e-3 else 0.0)
            if not efd <= 1e-7 * max(1.0, max(abs(x) for row in pre for x in row[1] + row[2])):
                fails.append(("sim-rotate-variations", "variational particles after Simulation.rotate differ from the finite difference of two rotated shadow simulations (%.3g)" % efd,
                              dict(q=qv, N_real=N, pre=pre, err=efd)))
        l0 = math.sqrt(sum(x * x for x in L0)); l1 = math.sqrt(sum(x * x for x in L1))
        note("sim_rotate_energy", abs(E1 - E0) / abs(E0))
        note("sim_rotate_|L|", abs(l1 - l0) / l0)
        Lr = vl(F["vec3d_rotate"](V(*L0), r))
        eL = max(abs(a - b) for a, b in zip(Lr, L1)) / l0
        note("sim_rotate_L_vector", eL)
        # pairwise distances, exact
        dmax = 0.0
        for a in range(N):
            for b in range(a):
                d0 = sum((Fr(x) - Fr(y)) ** 2 for x, y in zip(pre[a][1], pre[b][1]))
                pa, pb = sim.particles[a], sim.particles[b]
                d1 = sum((Fr(x) - Fr(y)) ** 2 for x, y in zip([pa.x, pa.y, pa.z], [pb.x, pb.y, pb.z]))
                dmax = max(dmax, abs(float(d1 - d0)) / float(d0))
        note("sim_rotate_pair_distance2", dmax)
        if not (abs(E1 - E0) <= 1e-12 * abs(E0) + 1e-13 and abs(l1 - l0) <= 1e-12 * l0 and dmax <= 1e-13 and eL <= 1e-12):
            fails.append(("sim-rotate", "Simulation.rotate changes energy / |L| / pair distances", dict(q=qv, pre=pre, dE=E1 - E0, dL=l1 - l0, dd=dmax)))
        c.count(("simrotate", N, i % 3))
    # ---------------- remaining public entry points (smoke + oracle): to_orbital, to_mat4df, Rotation.normalize/__eq__/__repr__,
    #                  Vec3d.rotate / Vec3d.normalize, reb_particle_com_of_pair, reb_simulation_com_range
    for n_ in sig:
        ep(n_)
    ep("reb_vec3d_irotate", "Rotation.__init__", "Rotation.from_to", "Rotation.orbit", "Rotation.to_new_axes", "Rotation.inverse", "Rotation.__mul__")
    clib.reb_rotation_to_orbital.restype = None
    clib.reb_rotation_to_orbital.argtypes = [Q, ctypes.POINTER(D), ctypes.POINTER(D), ctypes.POINTER(D)]

    class Mat4(ctypes.Structure):
        _fields_ = [("m", ctypes.c_float * 16)]
    clib.reb_rotation_to_mat4df.restype = Mat4
    clib.reb_rotation_to_mat4df.argtypes = [Q]
    TOG = pair_group("to_orbital", dict(inc=["0", "pi", "-pi", "2pi", "near0", "nearpi", "generic", "pi/2"], Omega=["0", "generic", "negative", ">2pi"],
                                        omega=["0", "generic", "negative", ">2pi"]), lambda f, a, g, b: None)

    def angle(kind):
        return {"0": 0.0, "pi": math.pi, "-pi": -math.pi, "2pi": 2 * math.pi, "near0": 10 ** -rng.uniform(4, 10), "nearpi": math.pi - 10 ** -rng.uniform(4, 10),
                "pi/2": math.pi / 2, "generic": rng.uniform(0.1, 3.0), "negative": -rng.uniform(0.1, 3.0), ">2pi": rng.uniform(6.4, 12.0)}[kind]

    def rotdist(a_, b_):
        return min(max(abs(x - y) for x, y in zip(a_, b_)), max(abs(x + y) for x, y in zip(a_, b_)))
    to_orb = {"cases": 0, "degenerate_failures": 0, "nan": 0}
    for tspec in TOG.array(rng) * (5 if c.thorough else 1):
        Om, inc, om = angle(tspec["Omega"]), angle(tspec["inc"]), angle(tspec["omega"])
        q = F["rotation_init_orbit"](Om, inc, om)
        o1, o2, o3 = D(), D(), D()
        clib.reb_rotation_to_orbital(q, ctypes.byref(o1), ctypes.byref(o2), ctypes.byref(o3))
        pyq = rebound.Rotation(ix=q.ix, iy=q.iy, iz=q.iz, r=q.r)
        back = pyq.orbital()
        ep("reb_rotation_to_orbital", "Rotation.orbital")
        TOG.register(tspec)
        to_orb["cases"] += 1
        if [d2h(x) for x in back] != [d2h(o1.value), d2h(o2.value), d2h(o3.value)]:
            c.corr_break("Rotation.orbital() differs from reb_rotation_to_orbital", dict(Omega=Om, inc=inc, omega=om))
        vals = [o1.value, o2.value, o3.value]
        # the angles returned must reproduce the rotation (as a rotation: q and -q are the same)
        if any(x != x for x in vals):
            e = float("inf"); to_orb["nan"] += 1
        else:
            e = rotdist(ql(q), ql(F["rotation_init_orbit"](*vals)))
        degenerate = abs(math.sin(inc)) < 1e-3
        if not degenerate:
            note("to_orbital_roundtrip_generic", e)
        if not e <= (1e-9 if not degenerate else 1e-6):
            if degenerate:
                to_orb["degenerate_failures"] += 1
            fails.append(("C20:to_orbital-degenerate-inclination" if degenerate else "to-orbital",
                          "Rotation.orbit(*Rotation.orbital()) is a different rotation (distance %.3g%s) for Omega=%.17g inc=%.17g omega=%.17g" % (e, ", NaN angles" if e == float("inf") else "", Om, inc, om),
                          dict(Omega=Om, inc=inc, omega=om, q=ql(q), angles=vals)))
        # float display matrix = the rotation matrix of q
        mm = clib.reb_rotation_to_mat4df(q)
        ep("reb_rotation_to_mat4df")
        Mq = frot_matrix(ql(q))
        em = max(abs(mm.m[4 * a_ + b_] - float(Mq[a_][b_])) for a_ in range(3) for b_ in range(3))
        note("to_mat4df_vs_rotation_matrix", em)
        if not em <= 1e-6 or mm.m[15] != 1.0 or any(mm.m[k_] != 0.0 for k_ in (3, 7, 11, 12, 13, 14)):
            fails.append(("to-mat4df", "reb_rotation_to_mat4df is not the rotation matrix of the quaternion", dict(q=ql(q), m=list(mm.m))))
    c.cov["to_orbital"] = to_orb
    # Rotation.normalize / __eq__ / __repr__
    for _k in range(20):
        qq = [rng.normal() * 3 for _ in range(4)]
        rq = mkq(qq)
        rn = rq.normalize()
        ep("Rotation.normalize", "Rotation.__eq__", "Rotation.__repr__")
        if [d2h(x) for x in ql(rn)] != [d2h(x) for x in ql(F["rotation_normalize"](rq))] or not (rn == F["rotation_normalize"](rq)) or (rn == rq) \
                or abs(float(sum(Fr(x) ** 2 for x in ql(rn))) - 1) > 1e-14 or "ix=" not in repr(rn):
            fails.append(("py-rotation-misc", "Rotation.normalize / __eq__ / __repr__ misbehave", dict(q=qq)))
    # Vec3d.rotate / Vec3d.normalize: public methods that reach reb_vec3d_irotate / reb_vec3d_normalize
    for _k in range(5):
        v0 = rvec(rng, 1.0)
        qv_ = runit(rng)
        for meth in ("rotate", "normalize"):
            ep("Vec3d." + meth)
            try:
                vv = rebound.Vec3d(v0)
                res_ = vv.rotate(mkq(qv_)) if meth == "rotate" else vv.normalize()
                want_ = vl(F["vec3d_rotate"](V(*v0), mkq(qv_))) if meth == "rotate" else vl(F["vec3d_normalize"](V(*v0)))
                if [d2h(x) for x in [res_.x, res_.y, res_.z]] != [d2h(x) for x in want_]:
                    fails.append(("py-vec3d-" + meth, "Vec3d.%s differs from the C routine" % meth, dict(v=v0, q=qv_)))
            except (NameError, AttributeError) as ex:
                fails.append(("C20:Vec3d-rotate-normalize", "rebound.Vec3d.%s raises %s: %s" % (meth, type(ex).__name__, ex), dict(v=v0, q=qv_, method=meth)))
    # reb_particle_com_of_pair / reb_simulation_com_range
    clib.reb_particle_com_of_pair.restype = rebound.Particle
    clib.reb_simulation_com_range.restype = rebound.Particle
    for _k in range(30):
        p1 = rebound.Particle(m=rng.choice([0.0, rng.loguniform(1e-3, 10)]), x=rng.normal(), y=rng.normal(), z=rng.normal(), vx=rng.normal(), vy=rng.normal(), vz=rng.normal())
        p2 = rebound.Particle(m=rng.choice([0.0, rng.loguniform(1e-3, 10)]), x=rng.normal(), y=rng.normal(), z=rng.normal(), vx=rng.normal(), vy=rng.normal(), vz=rng.normal())
        cp = clib.reb_particle_com_of_pair(p1, p2)
        ep("reb_particle_com_of_pair")
        mt_ = Fr(p1.m) + Fr(p2.m)
        for f_ in COMPS6:
            want_ = (Fr(getattr(p1, f_)) * Fr(p1.m) + Fr(getattr(p2, f_)) * Fr(p2.m)) / mt_ if mt_ > 0 else Fr(0)
            if abs(float(Fr(getattr(cp, f_)) - want_)) > 1e-15 * max(1.0, abs(float(want_))) * 4 or cp.m != p1.m + p2.m:
                fails.append(("com-of-pair", "reb_particle_com_of_pair is not the mass-weighted mean", dict(m=[p1.m, p2.m], f=f_)))
                break
    simr = rebound.Simulation()
    for _k in range(5):
        simr.add(m=rng.uniform(0.1, 1), x=rng.normal(), vy=rng.normal())
    simr.add_variation()
    cr_ = clib.reb_simulation_com_range(ctypes.byref(simr), ctypes.c_int(0), ctypes.c_int(5))
    clib.reb_simulation_com.restype = rebound.Particle
    cc_ = clib.reb_simulation_com(ctypes.byref(simr))
    ep("reb_simulation_com_range", "reb_simulation_com")
    if [d2h(getattr(cr_, f_)) for f_ in ["m"] + COMPS6] != [d2h(getattr(cc_, f_)) for f_ in ["m"] + COMPS6]:
        fails.append(("com-range", "reb_simulation_com_range(0, N_real) differs from reb_simulation_com", {}))
    c.cov["sim_rotate_cases_with_variational_particles_by_mode"] = {"first order": sim_rot_var_cases.get(1, 0), "first+second order+test particle": sim_rot_var_cases.get(2, 0), "megno": sim_rot_var_cases.get(3, 0)}
    # rotation commutes with the evolution, also for the variational particles (and MEGNO is orientation independent):
    # rotate-then-integrate = integrate-then-rotate
    ncomm = 12 if c.thorough else 3
    for i in range(ncomm):
        base = rebound.Simulation()
        base.add(m=1.0)
        base.add(m=rng.loguniform(1e-5, 1e-3), a=1.0, e=rng.uniform(0, 0.3), inc=rng.uniform(0, 0.5), Omega=rng.uniform(0, 6), omega=rng.uniform(0, 6), f=rng.uniform(0, 6))
        base.add(m=rng.loguniform(1e-5, 1e-3), a=rng.uniform(1.8, 2.5), e=rng.uniform(0, 0.2), inc=rng.uniform(0, 0.5), Omega=rng.uniform(0, 6), f=rng.uniform(0, 6))
        megno = (i % 3 == 2)
        if megno:
            base.init_megno(seed=rng.randint(1, 10 ** 6))
        else:
            va = base.add_variation()
            vb = base.add_variation(order=2, first_order=va)
            for k in range(3, base.N):
                pv = base.particles[k]
                pv.x, pv.y, pv.z, pv.vx, pv.vy, pv.vz = [rng.normal() for _ in range(6)]
        qv = runit(rng)
        r = mkq(qv)
        T = rng.uniform(0.5, 2.0)
        s1 = base.copy(); s1.rotate(r); s1.integrate(T)
        s2 = base.copy(); s2.integrate(T); s2.rotate(r)
        ec = 0.0
        for k in range(base.N):
            a_, b_ = s1.particles[k], s2.particles[k]
            sck = max([abs(getattr(b_, f_)) for f_ in COMPS6] + [1e-300])
            ec = max(ec, max(abs(getattr(a_, f_) - getattr(b_, f_)) for f_ in COMPS6) / sck)
        if megno:
            ec = max(ec, abs(s1.megno() - s2.megno()) / max(1.0, abs(s2.megno())))
        note("rotate_commutes_with_evolution_incl_variations", ec)
        c.count(("rotate-commute", i % 3))
        if not ec <= 1e-9:
            fails.append(("sim-rotate-commute", "rotate-then-integrate differs from integrate-then-rotate (real or variational particles%s) by %.3g" % (", MEGNO" if megno else "", ec),
                          dict(q=qv, T=T, megno=megno, N=base.N, N_var=base.N_var)))
    c.cov["rotation_worst_errors_measured"] = {k: float("%.3g" % v) for k, v in sorted(worst.items())}
    seen = set()
    for key, what, rep in fails:
        if key in seen:
            continue
        seen.add(key)
        c.violation(key, what, rep)
    c.cov["rotation_search_failures_by_key"] = {k: sum(1 for f in fails if f[0] == k) for k in seen}



# ----------------------------------------------------------------------------- frame shifts
class T2:
    """exact arithmetic in Q[ea, eb]/(ea^2, eb^2): coefficient `ca` of f(x + ea dx) is the
    derivative along dx, `cab` of f(x + ea xa + eb xb + ea eb xab) the mixed second derivative.
    Independent of REBOUND's hand-derived variational formulas."""
    __slots__ = ("c0", "ca", "cb", "cab")

    def __init__(self, c0=0, ca=0, cb=0, cab=0):
        self.c0, self.ca, self.cb, self.cab = Fr(c0), Fr(ca), Fr(cb), Fr(cab)

    def __add__(self, o):
        return T2(self.c0 + o.c0, self.ca + o.ca, self.cb + o.cb, self.cab + o.cab)

    def __sub__(self, o):
        return T2(self.c0 - o.c0, self.ca - o.ca, self.cb - o.cb, self.cab - o.cab)

    def __mul__(self, o):
        return T2(self.c0 * o.c0, self.c0 * o.ca + self.ca * o.c0, self.c0 * o.cb + self.cb * o.c0,
                  self.c0 * o.cab + self.ca * o.cb + self.cb * o.ca + self.cab * o.c0)

    def inv(self):
        # solved from (self * y = 1) coefficient by coefficient
        y0 = 1 / self.c0
        ya = -self.ca * y0 * y0
        yb = -self.cb * y0 * y0
        yab = -(self.cab * y0 + self.ca * yb + self.cb * ya) * y0
        return T2(y0, ya, yb, yab)

    def __truediv__(self, o):
        return self * o.inv()


COMPS6 = ["x", "y", "z", "vx", "vy", "vz"]


def frame(c, rebound, exe):
    clib = rebound.clibrebound
    P = rebound.Particle
    clib.reb_simulation_com.restype = P
    clib.reb_simulation_iadd.restype = ctypes.c_int
    clib.reb_simulation_isub.restype = ctypes.c_int
    rng = c.rng.fork()
    lines, expect, meta = [], [], []
    fails = []
    worst = {}
    hist = {}

    def note(k, v):
        worst[k] = max(worst.get(k, 0.0), v)

    def add(line, exp, tag):
        lines.append(line); expect.append(" ".join(d2h(x) for x in exp)); meta.append(tag)

    F_FACTORS = dict(N=[1, 2, 3, 5, 13, 300], masses=["loguniform", "some-zero", "equalish", "discrete", "leading-massless", "all-massless"],
                     offset=["0", "1", "100"], roles=["all", "tp0", "tp1"],
                     var=["none", "1", "1+1", "1+2same", "1+1+2diff", "tp", "1+tp+2"], other=["sameN", "diffN", "mixedvar"],
                     scal=["generic", "zero", "negative", "one"])

    def f_excluded(f, a, g, b):
        if f == "N" and a == 1 and g == "roles" and b != "all":
            return "N_active < N needs N >= 2"
        if f == "var" and a == "none" and g == "other" and b == "mixedvar":
            return "variational particles on one side only needs variational particles"
        return None
    FG = pair_group("frame", F_FACTORS, f_excluded)

    def mass(rng, fam):
        if fam == "loguniform":
            return rng.loguniform(1e-6, 1e3)
        if fam == "some-zero":
            return 0.0 if rng.chance(0.4) else rng.uniform(0.1, 2)
        if fam == "all-massless":
            return 0.0
        if fam == "discrete":
            return rng.choice([1e-12, 1e-3, 1.0, 10.0])
        return rng.uniform(0.5, 1.5)

    def make_sim(rng, spec):
        sim = rebound.Simulation()
        N = spec["N"]
        off = rng.normal() * float(spec["offset"]) if spec["offset"] != "100" else rng.choice([-1.0, 1.0]) * rng.uniform(50, 150)
        for i in range(N):
            m = mass(rng, spec["masses"])
            if i == 0 and spec["masses"] == "leading-massless":
                m = 0.0           # leading massless particle: exercises the `m > 0` guard
            sim.add(m=m, x=off + rng.normal(), y=rng.normal(), z=off * 0.5 + rng.normal(),
                    vx=rng.normal(), vy=off + rng.normal(), vz=rng.normal())
        # particle roles: the frame routines sum over all N_real particles whatever N_active / testparticle_type say
        if spec["roles"] != "all" and N >= 2:
            sim.N_active = rng.randint(1, N - 1)
            sim.testparticle_type = 0 if spec["roles"] == "tp0" else 1
            dim("roles: N_active < N / test particles (frame ops)")
        if any(p.m == 0 for p in sim.particles):
            dim("roles: zero-mass and leading massless bodies (frame ops)")
        if abs(off) >= 50:
            dim("geometry: centre of mass far from the origin and moving")
        cfgs = []
        firsts = []
        for tok in ([] if spec["var"] == "none" else spec["var"].split("+")):
            if tok == "1":
                var = sim.add_variation()
                firsts.append(var)
                cfgs.append(("1", var))
            elif tok in ("2", "2same", "2diff"):
                a = firsts[0]
                b = firsts[-1] if tok == "2diff" else None
                var = sim.add_variation(order=2, first_order=a, first_order_2=b)
                cfgs.append(("2", var))
            else:
                var = sim.add_variation(testparticle=rng.randint(0, N - 1))
                cfgs.append(("t", var))
        # variational particles: arbitrary data, including masses (a mass variation)
        for i in range(N, sim.N):
            p = sim.particles[i]
            p.m = rng.normal() * rng.choice([0.0, 0.1, 1.0])
            for k in COMPS6:
                setattr(p, k, rng.normal())
        return sim, N, cfgs

    def snapshot(sim):
        return [[p.m] + [getattr(p, k) for k in COMPS6] for p in sim.particles]

    nsim = 5000 if c.thorough else 250
    untouched_hel = 0
    mixed_iadd = {}
    hel_votes = {}
    hel_fd = 0
    hel_fd_bad = 0
    farray = FG.array(rng)
    c.cov["frame_covering_array_cases"] = len(farray)
    for case in range(nsim + len(farray)):
        try:
            r = rng.fork()
            if case < len(farray):
                spec = dict(farray[case])
            else:
                # random cases over the same factors (volume), small N preferred
                for _t in range(50):
                    spec = {k: r.choice(v) for k, v in F_FACTORS.items()}
                    spec["N"] = r.choice([1, 2, 2, 3, 3, 5, 5, 13])
                    if r.chance(0.5):
                        spec["var"] = "none"
                    if FG.valid(spec):
                        break
            if c.thorough and case in (len(farray) + 2, len(farray) + 3):
                spec.update(N=1100 if case == len(farray) + 2 else 3000, var="none", other="sameN")
            sim, N, cfgs = make_sim(r, spec)
            bigN = N >= 300
            if bigN:
                dim("scale: N >= 300 (frame ops)")
            for kd, _v in cfgs:
                dim({"1": "variational: 1st order non-zero (frame ops)", "2": "variational: 2nd order non-zero (frame ops)", "t": "variational: test-particle variation (frame ops)"}[kd])
            pre = snapshot(sim)
            ncfg = sim.N_var_config
            vc = [(sim.var_config[v].order, sim.var_config[v].index, sim.var_config[v].testparticle,
                   sim.var_config[v].index_1st_order_a, sim.var_config[v].index_1st_order_b) for v in range(ncfg)]
            comp = clib.reb_simulation_com(ctypes.byref(sim))
            M = comp.m
            hist["N=%d,cfgs=%d" % (min(N, 8), ncfg)] = hist.get("N=%d,cfgs=%d" % (min(N, 8), ncfg), 0) + 1
            # ---- exact oracle for the centre of mass and its derivatives
            ms = [Fr(pre[i][0]) for i in range(N)]
            Mx = sum(ms)
            # ---------------- move_to_com
            sim2 = sim.copy()
            clib.reb_simulation_move_to_com(ctypes.byref(sim2))
            post = snapshot(sim2)
            for ci, k in enumerate(COMPS6):
                col = 1 + ci
                add("com " + " ".join(hv(pre[i][0], pre[i][col]) for i in range(N)), [M, getattr(comp, k)], ("com", k, N))
                add("tocom " + " ".join(hv(pre[i][0], pre[i][col]) for i in range(N)), [post[i][col] for i in range(N)], ("move_to_com", k, N))
                for (order, index, tp, ia, ib) in vc:
                    if tp >= 0:
                        # test-particle variations are not shifted
                        if d2h(post[index][col]) != d2h(pre[index][col]):
                            fails.append(("com-testparticle-var", "move_to_com changed a test-particle variation", dict(pre=pre, post=post, index=index)))
                        continue
                    if order == 1:
                        toks = []
                        for i in range(N):
                            toks += [pre[i][0], pre[i][col], pre[i + index][0], pre[i + index][col]]
                        add("var1 " + hv(M, *toks), [post[i + index][col] for i in range(N)], ("move_to_com_var1", k, N))
                    else:
                        toks = []
                        for i in range(N):
                            toks += [pre[i][0], pre[i][col], pre[i + ia][0], pre[i + ia][col], pre[i + ib][0], pre[i + ib][col],
                                     pre[i + index][0], pre[i + index][col]]
                        add("var2 " + hv(M, *toks), [post[i + index][col] for i in range(N)], ("move_to_com_var2", k, N))
                # ---- search on the real code
                xs = [Fr(pre[i][col]) for i in range(N)]
                scale = max([abs(pre[i][col]) for i in range(sim.N)] + [1.0])
                if Mx > 0:
                    X = sum(m * x for m, x in zip(ms, xs)) / Mx
                    e = max(abs(float(Fr(post[i][col]) - (xs[i] - X))) for i in range(N)) / scale
                    note("move_to_com_vs_exact", e)
                    resid = abs(float(sum(m * Fr(post[i][col]) for i, m in enumerate(ms)) / Mx)) / scale
                    note("com_after_move", resid)
                    if not e <= 1e-13 or not resid <= 1e-13:
                        fails.append(("move-to-com", "after move_to_com the centre of mass is not at rest at the origin / particles not shifted by it",
                                      dict(component=k, m=[pre[i][0] for i in range(N)], x=[pre[i][col] for i in range(N)], got=[post[i][col] for i in range(N)], err=e, resid=resid)))
                    # variational particles: exact truncated-polynomial arithmetic
                    for (order, index, tp, ia, ib) in vc:
                        if tp >= 0:
                            continue
                        if order == 1:
                            mt = [T2(pre[i][0], pre[i + index][0]) for i in range(N)]
                            xt = [T2(pre[i][col], pre[i + index][col]) for i in range(N)]
                        else:
                            mt = [T2(pre[i][0], pre[i + ia][0], pre[i + ib][0], pre[i + index][0]) for i in range(N)]
                            xt = [T2(pre[i][col], pre[i + ia][col], pre[i + ib][col], pre[i + index][col]) for i in range(N)]
                        S = T2()
                        Mt = T2()
                        for a_, b_ in zip(mt, xt):
                            S = S + a_ * b_
                            Mt = Mt + a_
                        Xt = S / Mt
                        want = [(xt[i] - Xt) for i in range(N)]
                        wv = [float(w.ca if order == 1 else w.cab) for w in want]
                        # size of the terms that are added up (they may cancel exactly, e.g. for N = 1):
                        # coordinates x (1 + sum|dm_a|/M)(1 + sum|dm_b|/M) + sum|ddm|/M
                        Mf = float(Mx)
                        if order == 1:
                            amp = 1.0 + sum(abs(pre[i + index][0]) for i in range(N)) / Mf
                        else:
                            amp = (1.0 + sum(abs(pre[i + ia][0]) for i in range(N)) / Mf) * (1.0 + sum(abs(pre[i + ib][0]) for i in range(N)) / Mf) \
                                + sum(abs(pre[i + index][0]) for i in range(N)) / Mf
                        mag = max([abs(w) for w in wv] + [scale]) * amp * N
                        e = max(abs(post[i + index][col] - wv[i]) for i in range(N)) / mag
                        note("move_to_com_var%d_vs_exact_derivative" % order, e)
                        if not e <= 1e-13:
                            fails.append(("move-to-com-var%d" % order, "order-%d variational particles are not the derivative of the shifted coordinates" % order,
                                          dict(component=k, order=order, index=index, ia=ia, ib=ib, N=N, pre=pre, got=[post[i + index][col] for i in range(N)], want=wv)))
                else:
                    # total mass zero: com is (0,0), nothing moves
                    if any(d2h(post[i][col]) != d2h(pre[i][col] - 0.0) for i in range(N)):
                        fails.append(("move-to-com-massless", "move_to_com moved a system without mass", dict(pre=pre, post=post)))
                # pairwise differences unchanged to rounding
                if N >= 2:
                    dmax = 0.0
                    for i in range(1, N):
                        d0 = Fr(pre[i][col]) - Fr(pre[0][col])
                        d1 = Fr(post[i][col]) - Fr(post[0][col])
                        dmax = max(dmax, abs(float(d1 - d0)) / scale)
                    note("move_to_com_pair_differences", dmax)
                    if not dmax <= 1e-14:
                        fails.append(("move-to-com-diff", "move_to_com changes relative coordinates", dict(component=k, pre=[pre[i][col] for i in range(N)], post=[post[i][col] for i in range(N)])))
            if any(post[i][0] != pre[i][0] for i in range(sim.N)):
                fails.append(("move-to-com-mass", "move_to_com changed a mass", dict(pre=pre, post=post)))
            c.count(("move_to_com", N, tuple(o for o, *_ in vc), case % 4), nontrivial=N >= 2)
            # ---------------- move_to_hel
            sim3 = sim.copy()
            if case % 2:
                clib.reb_simulation_move_to_hel(ctypes.byref(sim3))
            else:
                sim3.move_to_hel()
            ep("reb_simulation_move_to_hel", "Simulation.move_to_hel", "reb_simulation_move_to_com", "reb_simulation_com")
            posth = snapshot(sim3)
            for ci, k in enumerate(COMPS6):
                col = 1 + ci
                add("tohel " + " ".join(hv(pre[i][0], pre[i][col]) for i in range(N)), [posth[i][col] for i in range(N)], ("move_to_hel", k, N))
                if posth[0][col] != 0.0 or any(Fr(posth[i][col]) != Fr(pre[i][col] - pre[0][col]) for i in range(1, N)):
                    fails.append(("move-to-hel", "move_to_hel: particle 0 not at the origin / others not relative to it", dict(component=k, pre=[pre[i][col] for i in range(N)], post=[posth[i][col] for i in range(N)])))
            # variational particles under move_to_hel.  Tie: both model variants (as found: untouched; repaired:
            # variation of particle 0 subtracted); search: the variational particles of the moved simulation must
            # be the derivative of the moved coordinates — oracle 1: exact (dx_i - dx_0), oracle 2: finite
            # differences of two shadow simulations (base, base + h*variation) each moved to hel by the real code
            for (order, index, tp, ia, ib) in vc:
                if tp >= 0:
                    same = posth[index] == pre[index]
                    if tp != 0:
                        if not same:        # both variants leave the variation of a test particle other than 0 alone
                            hel_votes["x"] = hel_votes.get("x", 0) + 1
                    else:
                        zeroed = posth[index][1:] == [0.0] * 6 and posth[index][0] == pre[index][0]
                        if same and not zeroed:
                            hel_votes["0"] = hel_votes.get("0", 0) + 1
                        elif zeroed and not same:
                            hel_votes["1"] = hel_votes.get("1", 0) + 1
                        elif not same:
                            hel_votes["x"] = hel_votes.get("x", 0) + 1
                    continue
                for ci, k in enumerate(COMPS6):
                    col = 1 + ci
                    vin = [pre[index + i][col] for i in range(N)]
                    vout = [posth[index + i][col] for i in range(N)]
                    for vv in ("0", "1"):
                        lines.append("tohelvar" + vv + " " + hv(*vin)); expect.append(" ".join(d2h(x) for x in vout)); meta.append(("move_to_hel_var" + vv, k, N))
                    want = [0.0] + [float(Fr(vin[i]) - Fr(vin[0])) for i in range(1, N)]
                    sc_ = max([abs(x) for x in vin] + [1.0])
                    e = max(abs(a - b) for a, b in zip(vout, want)) / sc_
                    note("move_to_hel_var_vs_exact_derivative", e if e < 1e-3 else 0.0)
                    if not e <= 1e-14:
                        untouched = all(d2h(a) == d2h(b) for a, b in zip(vin, vout))
                        fails.append(("C20:move_to_hel-variations" if untouched else "move-to-hel-var-unexpected",
                                      "after move_to_hel the order-%d variational particles are not the derivative of the heliocentric coordinates (d x_i - d x_0)%s"
                                      % (order, ": they are left untouched" if untouched else ""),
                                      dict(component=k, order=order, N=N, x=[pre[i][col] for i in range(N)], variation_before=vin, variation_after=vout, derivative=want)))
                if order == 1 and hel_fd < (400 if c.thorough else 60):
                    # shadow simulations through the real code
                    hel_fd += 1
                    hstep = 2.0 ** -20
                    sA, sB = rebound.Simulation(), rebound.Simulation()
                    for i in range(N):
                        sA.add(m=pre[i][0], x=pre[i][1], y=pre[i][2], z=pre[i][3], vx=pre[i][4], vy=pre[i][5], vz=pre[i][6])
                        sB.add(m=pre[i][0] + hstep * pre[index + i][0], **{k: pre[i][1 + ci] + hstep * pre[index + i][1 + ci] for ci, k in enumerate(COMPS6)})
                    clib.reb_simulation_move_to_hel(ctypes.byref(sA)); clib.reb_simulation_move_to_hel(ctypes.byref(sB))
                    efd = 0.0
                    for i in range(N):
                        for ci, k in enumerate(COMPS6):
                            fd = (getattr(sB.particles[i], k) - getattr(sA.particles[i], k)) / hstep
                            efd = max(efd, abs(fd - posth[index + i][1 + ci]))
                    note("move_to_hel_var_vs_finite_differences", efd if efd < 1e-3 else 0.0)
                    if not efd <= 1e-7 * max([1.0] + [abs(x) for row in pre for x in row[1:]]):      # rounding of the difference quotient: ~ulp*scale/h
                        hel_fd_bad += 1
                        untouched = all(posth[index + i] == pre[index + i] for i in range(N))
                        fails.append(("C20:move_to_hel-variations" if untouched else "move-to-hel-var-unexpected",
                                      "variational particles after move_to_hel differ from the finite difference of two shadow simulations moved to hel (%.3g)%s"
                                      % (efd, ": they are left untouched" if untouched else ""),
                                      dict(N=N, index=index, pre=pre, h=hstep, err=efd)))
            c.cov["move_to_hel_shadow_simulation_cases"] = hel_fd
            c.cov["move_to_hel_shadow_simulation_disagreements"] = hel_fd_bad
            c.count(("move_to_hel", N, case % 4), nontrivial=N >= 2)
            # ---------------- imul / iadd / isub on all N particles (real + variational)
            simb = sim.copy()
            for i in range(simb.N):
                for k in COMPS6:
                    setattr(simb.particles[i], k, r.normal())
            if spec["other"] == "diffN":
                simb = rebound.Simulation()
                for i in range(sim.N + r.choice([-1, 1, 2]) if sim.N > 1 else sim.N + 1):
                    simb.add(m=1.0, x=r.normal(), vy=r.normal())
            preb = snapshot(simb)
            sa = sim.copy()
            rc = clib.reb_simulation_iadd(ctypes.byref(sa), ctypes.byref(simb))
            pa = snapshot(sa)
            ss = sim.copy()
            rc2 = clib.reb_simulation_isub(ctypes.byref(ss), ctypes.byref(simb))
            psub = snapshot(ss)
            for ci, k in enumerate(COMPS6):
                col = 1 + ci
                xs = [pre[i][col] for i in range(sim.N)]
                ys = [preb[i][col] for i in range(simb.N)]
                exp = ("ok " + " ".join(d2h(pa[i][col]) for i in range(sim.N))) if rc == 0 else "err -1"
                lines.append("iadd %d %s" % (sim.N, hv(*xs, *ys))); expect.append(exp); meta.append(("iadd", k, sim.N))
                exp = ("ok " + " ".join(d2h(psub[i][col]) for i in range(sim.N))) if rc2 == 0 else "err -1"
                lines.append("isub %d %s" % (sim.N, hv(*xs, *ys))); expect.append(exp); meta.append(("isub", k, sim.N))
            if sim.N != simb.N:
                dim("operators: different N rejected")
            if (rc == -1) != (sim.N != simb.N) or (rc2 == -1) != (sim.N != simb.N):
                fails.append(("iadd-size", "iadd/isub size check wrong", dict(N=sim.N, N2=simb.N, rc=rc, rc2=rc2)))
            if rc == -1 and pa != pre:
                fails.append(("iadd-size", "rejected iadd modified the simulation", dict(N=sim.N, N2=simb.N)))
            if rc == 0:
                for i in range(sim.N):
                    for ci in range(6):
                        if Fr(pa[i][1 + ci]) != Fr(pre[i][1 + ci] + preb[i][1 + ci]) or Fr(psub[i][1 + ci]) != Fr(pre[i][1 + ci] - preb[i][1 + ci]) \
                                or pa[i][0] != pre[i][0]:
                            fails.append(("iadd", "iadd/isub is not the component-wise sum/difference on particle %d" % i, dict(i=i, N=sim.N, N_var=sim.N_var)))
                            break
                # Python operators
                try:
                    sp = sim + simb
                    sm = sim - simb
                    spi = sim.copy(); spi += simb
                    smi = sim.copy(); smi -= simb
                    ep("Simulation.__add__", "Simulation.__sub__", "Simulation.__iadd__", "Simulation.__isub__", "reb_simulation_iadd", "reb_simulation_isub")
                    if snapshot(spi) != pa or snapshot(smi) != psub:
                        fails.append(("py-add", "Simulation += / -= differ from iadd/isub", dict(N=sim.N)))
                    if snapshot(sp) != pa or snapshot(sm) != psub or snapshot(sim) != pre:
                        fails.append(("py-add", "Simulation.__add__/__sub__ differ from iadd/isub or modify the operand", dict(N=sim.N)))
                except Exception as ex:
                    fails.append(("py-add", "Simulation + Simulation raised %r" % (ex,), dict(N=sim.N)))
            else:
                try:
                    sim + simb
                    fails.append(("py-add", "Simulation + Simulation of different N did not raise", dict(N=sim.N, N2=simb.N)))
                except RuntimeError:
                    pass
            if sim.N_var > 0 and spec["other"] == "mixedvar":
                # variational particles on one side only: same N, the other simulation all real.  reb_simulation_iadd only
                # compares N, so real coordinates are silently added to variational ones (measured, not an error path)
                allreal = rebound.Simulation()
                for i in range(sim.N):
                    allreal.add(m=1.0, x=float(i), vx=1.0)
                sx = sim.copy()
                rcx = clib.reb_simulation_iadd(ctypes.byref(sx), ctypes.byref(allreal))
                dim("operators: variational particles on one side only")
                mixed_iadd["accepted" if rcx == 0 else "rejected"] = mixed_iadd.get("accepted" if rcx == 0 else "rejected", 0) + 1
                if rcx == 0 and any(sx.particles[i].x != pre[i][1] + float(i) for i in range(sim.N)):
                    fails.append(("iadd-mixed", "iadd of an all-real simulation onto one with variational particles is not the component-wise sum", dict(N=sim.N, N_var=sim.N_var)))
            s1, s2 = r.normal() * 3, r.normal() * 3
            if spec["scal"] == "zero":
                s1, s2 = 0.0, r.normal()
            elif spec["scal"] == "negative":
                s1, s2 = -abs(s1) - 0.1, -abs(s2) - 0.1
            elif spec["scal"] == "one":
                s1, s2 = 1.0, 1.0
            FG.register(spec)
            sm_ = sim.copy()
            clib.reb_simulation_imul(ctypes.byref(sm_), ctypes.c_double(s1), ctypes.c_double(s2))
            pm = snapshot(sm_)
            for ci, k in enumerate(COMPS6):
                col = 1 + ci
                add("imul " + hv(s1 if ci < 3 else s2, *[pre[i][col] for i in range(sim.N)]), [pm[i][col] for i in range(sim.N)], ("imul", k, sim.N))
            for i in range(sim.N):
                if pm[i][0] != pre[i][0] or any(pm[i][1 + ci] != pre[i][1 + ci] * (s1 if ci < 3 else s2) for ci in range(6)):
                    fails.append(("imul", "imul is not the component-wise scaling on particle %d" % i, dict(i=i, N=sim.N, N_var=sim.N_var, s1=s1, s2=s2)))
                    break
            sq = sim * s1
            sr_ = s1 * sim
            si_ = sim.copy(); si_ *= s1
            sm2 = sim.copy(); sm2.multiply(s1, s2)
            ep("Simulation.__mul__", "Simulation.__rmul__", "Simulation.__imul__", "Simulation.multiply", "reb_simulation_imul")
            if not (snapshot(sq) == snapshot(sr_) == snapshot(si_) == snapshot_scaled(pre, s1)) or snapshot(sm2) != pm:
                fails.append(("py-mul", "Simulation * scalar / scalar * Simulation / *= / multiply() is not the scaling of all coordinates", dict(s=s1, N=sim.N)))
            if s1 == 0.0:
                for nm_, fn_ in (("/", lambda: sim / s1), ("/=", lambda: sim.copy().__itruediv__(s1)), ("__div__", lambda: sim.__div__(s1)), ("__idiv__", lambda: sim.copy().__idiv__(s1))):
                    try:
                        fn_()
                        fails.append(("py-div-zero", "Simulation %s 0 did not raise ZeroDivisionError" % nm_, dict(N=sim.N)))
                    except ZeroDivisionError:
                        pass
            else:
                sd = sim / s1
                sd2 = sim.copy(); sd2 /= s1
                sd3 = sim.__div__(s1)
                sd4 = sim.copy().__idiv__(s1)
                if not (snapshot(sd) == snapshot(sd2) == snapshot(sd3) == snapshot(sd4) == snapshot_scaled(pre, 1. / s1)):
                    fails.append(("py-mul", "Simulation / scalar (/, /=, __div__, __idiv__) is not the scaling of all coordinates by 1/scalar", dict(s=s1, N=sim.N)))
            ep("Simulation.__truediv__", "Simulation.__itruediv__", "Simulation.__div__", "Simulation.__idiv__")
            c.count(("imul/iadd/isub", sim.N, sim.N_var, case % 4))
            if case < 3:
                c.sample({"N_real": N, "var_configs": vc, "masses": [pre[i][0] for i in range(N)], "x": [pre[i][1] for i in range(N)]})
        except (ValueError, OverflowError, ZeroDivisionError) as ex:
            _lc = locals()
            fails.append(("nonfinite:frame", "the real code returned a non-finite value where the oracle expects a number (%r)" % (ex,),
                          {k_: repr(_lc[k_])[:400] for k_ in ['pre', 'vc', 'N'] if k_ in _lc}))

    c.log("frame: %d model lines through drv_c20" % len(lines))
    got = run_driver(exe, lines)
    nbit = ndis = 0
    first = None
    per = {}
    if len(got) != len(lines):
        c.corr_break("drv_c20 returned %d lines for %d frame ops" % (len(got), len(lines)))
        return
    hel_match = {"move_to_hel_var0": [0, 0], "move_to_hel_var1": [0, 0]}
    hel_bad = None
    for g, e, mt, l in zip(got, expect, meta, lines):
        per[mt[0]] = per.get(mt[0], 0) + 1
        if mt[0] in hel_match:
            hel_match[mt[0]][0] += 1
            if g.split() == e.split():
                hel_match[mt[0]][1] += 1
            elif hel_bad is None and mt[0] == "move_to_hel_var0":
                hel_bad = dict(op_line=l[:1000], model=g[:600], impl=e[:600])
            continue
        if g.split() == e.split():
            continue
        nbit += 1
        try:
            gt, et = g.split(), e.split()
            if gt[0] in ("ok", "err") or et[0] in ("ok", "err"):
                if gt[0] != et[0]:
                    raise ValueError
                gt, et = gt[1:], et[1:]
            gv, ev = [h2d(x) for x in gt], [h2d(x) for x in et]
            ins = [abs(h2d(x)) for x in l.split()[1:] if len(x) == 16]
            sc = max([abs(x) for x in ev + gv + ins if x == x and abs(x) != float("inf")] + [1e-300])
            bad = len(gv) != len(ev) or any(ulps(a, b, sc) > 64 * max(1, mt[2]) for a, b in zip(gv, ev))
        except Exception:
            bad = True
        if bad:
            ndis += 1
            if first is None:
                first = dict(routine=mt[0], component=mt[1], N=mt[2], op_line=l[:2000], model=g[:1000], impl=e[:1000])
    c.cov["frame_model_lines"] = len(lines)
    c.cov["iadd_with_variational_particles_on_one_side_only"] = mixed_iadd
    hv0, hv1 = hel_match["move_to_hel_var0"], hel_match["move_to_hel_var1"]
    tp_votes = {k: v for k, v in hel_votes.items() if v}
    if hv0[0] == hv0[1] and not tp_votes.get("1") and not tp_votes.get("x"):
        helvar = "as found (variational particles untouched, finding C20:move_to_hel-variations)"
    elif hv1[0] == hv1[1] and not tp_votes.get("0") and not tp_votes.get("x"):
        helvar = "repaired (fixes/C20-move-to-hel-variations.diff)"
    else:
        helvar = "neither"
        c.corr_break("reb_simulation_move_to_hel treats variational particles like neither model variant (as found %d/%d, repaired %d/%d, test-particle configs %r)"
                     % (hv0[1], hv0[0], hv1[1], hv1[0], tp_votes), hel_bad)
    c.cov["move_to_hel_variational_model_variant_matching_the_code"] = helvar
    c.cov["frame_lines_per_routine"] = per
    c.cov["frame_bitwise_mismatches_within_tolerance"] = nbit - ndis
    c.cov["frame_disagreements"] = ndis
    c.cov["frame_case_histogram"] = dict(sorted(hist.items()))
    c.cov["frame_worst_errors_measured"] = {k: float("%.3g" % v) for k, v in sorted(worst.items())}
    if ndis:
        c.corr_break("%d frame model/implementation lines differ; first: %s" % (ndis, first["routine"]), first)
    seen = set()
    for key, what, rep in fails:
        if key in seen:
            continue
        seen.add(key)
        c.violation(key, what, rep)


def snapshot_scaled(pre, s):
    return [[row[0]] + [v * s for v in row[1:]] for row in pre]



# ----------------------------------------------------------------------------- pairwise covering arrays
class PairGroup:
    """explicit factors with finite value sets; cases come from a greedy all-pairs covering array; every executed case is
    registered, and coverage is accounted per pair of values of two different factors.  `excluded(f, a, g, b)` returns the
    reason why the code rejects / cannot run that combination (listed in the evidence), else None."""

    def __init__(self, name, factors, excluded):
        self.name, self.factors, self.excl = name, factors, excluded
        self.seen = set()
        self.ncases = 0

    def pair_ok(self, f, a, g, b):
        return self.excl(f, a, g, b) is None and self.excl(g, b, f, a) is None

    def valid(self, case):
        ks = list(case)
        return all(self.pair_ok(ks[i], case[ks[i]], ks[j], case[ks[j]]) for i in range(len(ks)) for j in range(i + 1, len(ks)))

    def all_pairs(self):
        ks = list(self.factors)
        out, exc = [], []
        for i in range(len(ks)):
            for j in range(i + 1, len(ks)):
                for a_ in self.factors[ks[i]]:
                    for b_ in self.factors[ks[j]]:
                        (out if self.pair_ok(ks[i], a_, ks[j], b_) else exc).append((ks[i], a_, ks[j], b_))
        return out, exc

    def array(self, rng, ncand=120):
        """greedy: repeatedly pick, among random valid candidates, the case covering most uncovered pairs"""
        need, _ = self.all_pairs()
        need = set(need)
        ks = list(self.factors)
        cases = []
        guard = 0
        while need and guard < 2000:
            guard += 1
            best, bestc = None, -1
            # seed half of the candidates with an uncovered pair so that progress is guaranteed
            seeds = list(need)
            for t_ in range(ncand):
                cand = {k: rng.choice(self.factors[k]) for k in ks}
                if t_ % 2 == 0:
                    f_, a_, g_, b_ = seeds[rng.randint(0, len(seeds) - 1)]
                    cand[f_], cand[g_] = a_, b_
                if not self.valid(cand):
                    continue
                cnt = sum(1 for i in range(len(ks)) for j in range(i + 1, len(ks)) if (ks[i], cand[ks[i]], ks[j], cand[ks[j]]) in need)
                if cnt > bestc:
                    best, bestc = cand, cnt
            if best is None or bestc <= 0:
                continue
            cases.append(best)
            for i in range(len(ks)):
                for j in range(i + 1, len(ks)):
                    need.discard((ks[i], best[ks[i]], ks[j], best[ks[j]]))
        return cases

    def register(self, case):
        ks = list(self.factors)
        self.ncases += 1
        for i in range(len(ks)):
            for j in range(i + 1, len(ks)):
                if ks[i] in case and ks[j] in case:
                    self.seen.add((ks[i], case[ks[i]], ks[j], case[ks[j]]))

    def summary(self):
        need, exc = self.all_pairs()
        missing = [p_ for p_ in need if p_ not in self.seen]
        reasons = {}
        for f_, a_, g_, b_ in exc:
            r_ = self.excl(f_, a_, g_, b_) or self.excl(g_, b_, f_, a_)
            reasons[r_] = reasons.get(r_, 0) + 1
        return dict(covered=len(need) - len(missing), total=len(need), excluded=len(exc), cases=self.ncases,
                    factors={k: len(v) for k, v in self.factors.items()}, excluded_because=reasons, missing=[list(m_) for m_ in missing[:12]])


PAIR_GROUPS = {}


def pair_group(name, factors, excluded):
    if name not in PAIR_GROUPS:
        PAIR_GROUPS[name] = PairGroup(name, factors, excluded)
    return PAIR_GROUPS[name]


ENTRY = set()        # public entry points exercised in this run


def ep(*names):
    for n_ in names:
        ENTRY.add(n_)


# ----------------------------------------------------------------------------- histories: a frame operation in the middle of a run
H_INTEG = ["ias15", "whfast/1", "whfast/0", "leapfrog", "mercurius/1", "mercurius/0", "trace", "janus", "saba/1", "saba/0", "eos/1", "eos/0", "bs"]
H_VAR_OK = {"ias15": ("1", "1+2", "megno"), "whfast/1": ("1", "megno"), "whfast/0": ("1", "megno"), "leapfrog": ("1", "1+2"),
            "janus": ("1", "1+2"), "eos/1": ("1", "1+2", "megno"), "eos/0": ("1", "1+2", "megno"), "bs": ("1", "1+2")}


def h_excluded(f, a, g, b):
    if f == "integ" and g == "var" and b != "none" and b not in H_VAR_OK.get(a, ()):
        return "the integrator rejects (or aborts on, or silently ignores) this kind of variational particles"
    if f == "integ" and g == "roles" and a == "janus" and b == "testparticle":
        return "JANUS has no notion of test particles (N_active is not supported)"
    return None


def histories(c, rebound):
    """rotation and the move to the centre-of-mass frame are symmetries of the dynamics: applying them in the middle of a run
    and continuing must give the same as continuing and applying them at the end — for every integrator, also with
    unsynchronised internal coordinates (safe_mode = 0) when the documented protocol is followed (synchronize, operate on the
    particles, ask the integrator to recalculate its internal coordinates).  Cases: pairwise covering array over
    integrator x operation (incl. two operations in a row) x dt sign x restore path x variational kind x roles x
    centre of mass x timing of the operation (before the first step / after plain steps / right after a shortened last step)."""
    rng = c.rng.fork()
    fails = []
    worst = {}
    tmpd = tempfile.mkdtemp(prefix="c20h.", dir=os.environ.get("VERIF_TMP", "/tmp"))
    G = pair_group("history", dict(integ=H_INTEG, op=["rotate", "com", "rotate+com", "com+rotate"], sign=[1, -1],
                                   restore=["none", "archive", "copy", "pickle"], var=["none", "1", "1+2", "megno"],
                                   roles=["massive", "testparticle"], com=["origin", "far-moving"],
                                   timing=["t0", "after-steps", "after-exact-finish"]), h_excluded)
    cases = G.array(rng)
    if c.thorough:
        # 3-way for the factors closest to the mechanism: integrator x operation x timing, the rest random
        for ig in H_INTEG:
            for op in G.factors["op"]:
                for tm in G.factors["timing"]:
                    for _try in range(20):
                        cand = {k: rng.choice(v) for k, v in G.factors.items()}
                        cand.update(integ=ig, op=op, timing=tm)
                        if G.valid(cand):
                            cases.append(cand)
                            break
    else:
        # quick: a seed-rotated slice (every pair is covered within 3 seeds), never less than a third of the array
        k3 = c.seed % 3
        full_ = cases
        cases = [cs for i, cs in enumerate(full_) if i % 3 == k3 or i % 3 == (k3 + 1) % 3]
        for ig in H_INTEG:                      # every integrator configuration in every run
            if not any(cs["integ"] == ig for cs in cases):
                cases.append(next(cs for cs in full_ if cs["integ"] == ig))
    import pickle

    def mk(cs, sv):
        integ = cs["integ"].split("/")[0]
        safe = int(cs["integ"].split("/")[1]) if "/" in cs["integ"] else None
        sm = rebound.Simulation()
        e1, i1, f1, e2, f2, off, vof = sv
        sm.add(m=1.0)
        sm.add(m=1e-3, a=1.0, e=e1, inc=i1, Omega=1.0, omega=2.0, f=f1)
        sm.add(m=3e-4, a=2.1, e=e2, inc=0.1, f=f2)
        if cs["roles"] == "testparticle":
            sm.add(m=0.0, a=3.3, e=0.1, f=f1 + 1)
            sm.N_active = 3
        if cs["com"] == "far-moving":
            for pp in sm.particles:
                pp.x += off; pp.vy += vof
        sm.integrator = integ
        sm.dt = cs["sign"] * 0.01
        if safe is not None:
            getattr(sm, "ri_" + integ).safe_mode = safe
        if integ == "janus":
            sm.ri_janus.scale_pos = 1e-12; sm.ri_janus.scale_vel = 1e-12
        nreal = sm.N
        vr = SplitMix(int(abs(f1) * 1e6) + 17)
        if cs["var"] in ("1", "1+2"):
            va = sm.add_variation()
            if cs["var"] == "1+2":
                sm.add_variation(order=2, first_order=va)
            for k in range(nreal, sm.N):
                pv = sm.particles[k]
                for f_ in COMPS6:
                    setattr(pv, f_, vr.normal())
        if cs["var"] == "megno":
            sm.init_megno(seed=1 + int(abs(f2) * 1e6))
        return sm

    def recalc(sm, integ):
        if integ in ("whfast", "saba"):
            sm.ri_whfast.recalculate_coordinates_this_timestep = 1
        if integ == "janus":
            sm.ri_janus.recalculate_integer_coordinates_this_timestep = 1
        if integ == "mercurius":
            sm.ri_mercurius.recalculate_coordinates_this_timestep = 1

    def apply(sm, op, q):
        for o_ in op.split("+"):
            if o_ == "rotate":
                sm.rotate(q); ep("Simulation.rotate", "reb_simulation_irotate")
            else:
                sm.move_to_com(); ep("Simulation.move_to_com", "reb_simulation_move_to_com")

    def diff(a, b):
        e = 0.0
        for pa_, pb_ in zip(a.particles, b.particles):
            for f_ in COMPS6:
                e = max(e, abs(getattr(pa_, f_) - getattr(pb_, f_)))
        return e

    for cs in cases:
        try:
            integ = cs["integ"].split("/")[0]
            safe = int(cs["integ"].split("/")[1]) if "/" in cs["integ"] else None
            sv = (rng.uniform(0, 0.3), rng.uniform(0, 0.5), rng.uniform(0, 6), rng.uniform(0, 0.2), rng.uniform(0, 6), rng.uniform(-3, 3), rng.uniform(-1, 1))
            sign = cs["sign"]
            qv = [rng.normal() for _ in range(4)]
            nn = math.sqrt(sum(x * x for x in qv)); qv = [x / nn for x in qv]
            q = rebound.Rotation(ix=qv[0], iy=qv[1], iz=qv[2], r=qv[3])
            a, b = mk(cs, sv), mk(cs, sv)
            adaptive = integ in ("ias15", "bs")
            # first leg
            if cs["timing"] == "after-steps":
                a.integrate(sign * 0.5, exact_finish_time=1 if adaptive else 0); b.integrate(sign * 0.5, exact_finish_time=1 if adaptive else 0)
            elif cs["timing"] == "after-exact-finish":
                # the last step was shortened: dt differs from dt_last_done, integrators with deferred synchronisation have just synchronised
                a.integrate(sign * 0.5037, exact_finish_time=1); b.integrate(sign * 0.5037, exact_finish_time=1)
                if not adaptive:
                    a.dt = sign * 0.01; b.dt = sign * 0.01
            a.synchronize()
            apply(a, cs["op"], q)
            recalc(a, integ)
            if cs["restore"] == "archive":
                fn = os.path.join(tmpd, "h.bin")
                a.save_to_file(fn, delete_file=True)
                a = rebound.Simulation(fn)
            elif cs["restore"] == "copy":
                a = a.copy()
            elif cs["restore"] == "pickle":
                a = pickle.loads(pickle.dumps(a))
            T2_ = sign * 1.2
            a.integrate(T2_, exact_finish_time=1 if adaptive else 0); b.integrate(T2_, exact_finish_time=1 if adaptive else 0)
            a.synchronize(); b.synchronize()
            apply(b, cs["op"], q)
            e = diff(a, b)
            if cs["var"] == "megno" and cs["op"] == "rotate":
                # MEGNO is a functional of the history of the tangent vector's norm: invariant under rotations; a shift of the
                # tangent vector by the variation of the centre of mass (move_to_com) legitimately changes it
                e = max(e, abs(a.megno() - b.megno()) / max(1.0, abs(b.megno())))
            tol = 1e-7 if (integ in ("janus", "bs", "ias15")) else 1e-10
            if cs["var"] != "none":
                tol *= 100
            key_ = cs["integ"] + "/" + cs["op"]
            worst[key_] = max(worst.get(key_, 0.0), e)
            G.register(cs)
            lab = {"whfast/0": "whfast safe_mode=0 + recalculate flag", "whfast/1": "whfast safe_mode=1", "saba/0": "saba safe_mode=0 + recalculate flag",
                   "saba/1": "saba safe_mode=1", "janus": "janus + recalculate flag", "mercurius/1": "mercurius", "mercurius/0": "mercurius safe_mode=0",
                   "eos/1": "eos", "eos/0": "eos safe_mode=0"}.get(cs["integ"], cs["integ"])
            dim("history: op then continue, integrator " + lab)
            if sign < 0:
                dim("time: dt < 0 after a frame op")
            if cs["restore"] != "none":
                dim("history: frame op, save/restore, continue")
            c.count(("history", cs["integ"], cs["op"], cs["timing"], cs["var"]))
            if not (e <= tol and a.t == b.t):
                fails.append(("history:%s-%s" % (cs["op"], integ), "%s in the middle of a %s run (%s) then continuing differs from continuing and applying it at the end by %.3g"
                              % (cs["op"], integ, ", ".join("%s=%s" % kv for kv in sorted(cs.items())), e),
                              dict(case=cs, q=qv, system=sv, err=e, t=(a.t, b.t))))
        except (ValueError, OverflowError, ZeroDivisionError) as ex:
            fails.append(("nonfinite:history", "non-finite value in the history test (%r)" % (ex,), dict(case=cs)))
    # for the record: what happens WITHOUT the documented recalculate request under safe_mode=0 (user responsibility)
    for ig in ("whfast/0", "saba/0"):
        for op in ("rotate", "com"):
            cs = dict(integ=ig, op=op, sign=1, restore="none", var="none", roles="massive", com="far-moving", timing="after-steps")
            sv = (0.1, 0.2, 1.0, 0.1, 2.0, 1.5, 0.3)
            q = rebound.Rotation(angle=0.7, axis=[1, 2, 3])
            a2, b2 = mk(cs, sv), mk(cs, sv)
            a2.integrate(0.5, exact_finish_time=0); b2.integrate(0.5, exact_finish_time=0)
            a2.synchronize()
            apply(a2, op, q)
            a2.integrate(1.0, exact_finish_time=0); b2.integrate(1.0, exact_finish_time=0)
            a2.synchronize(); b2.synchronize()
            apply(b2, op, q)
            c.cov.setdefault("safe_mode_0_without_recalculate_flag_error(documented_user_responsibility)", {})["%s/%s" % (ig, op)] = float("%.3g" % diff(a2, b2))
    shutil.rmtree(tmpd, ignore_errors=True)
    c.cov["history_cases"] = len(cases)
    c.cov["history_worst_errors_measured"] = {k: float("%.3g" % v) for k, v in sorted(worst.items())}
    seen = set()
    for key, what, rep_ in fails:
        if key in seen:
            continue
        seen.add(key)
        c.violation(key, what, rep_)


# ----------------------------------------------------------------------------- units
def units(c, rebound, exe, parsed, ref):
    import rebound.units as U
    clib = rebound.clibrebound
    rng = c.rng.fork()
    T = parsed["tables"]
    fails = []
    worst = {}

    def note(k, v):
        worst[k] = max(worst.get(k, 0.0), v)

    # ---- tie 1: the translator's reading of units.py is what the imported module holds
    for tname, live in (("lengths_SI", U.lengths_SI), ("times_SI", U.times_SI), ("masses_SI", U.masses_SI)):
        rows = T[tname]
        if [k for k, *_ in rows] != list(live.keys()):
            c.corr_break("translator and imported module disagree on the keys of %s" % tname,
                         dict(translator=[k for k, *_ in rows], module=list(live.keys())))
            continue
        for k, ex, fv, txt in rows:
            if d2h(fv) != d2h(live[k]):
                c.corr_break("translator and imported module disagree on %s[%r]" % (tname, k), dict(translator=fv, module=live[k], text=txt))
            c.count(("table", tname, k))
    if parsed["G"][1] is None or d2h(parsed["G"][1]) != d2h(U.G_SI):
        c.corr_break("translator and imported module disagree on G_SI", dict(translator=parsed["G"][1], module=U.G_SI))
    Ls, Ts, Ms = dict(U.lengths_SI), dict(U.times_SI), dict(U.masses_SI)
    triples = [(l, t, m) for l in Ls for t in Ts for m in Ms]
    allnames = list(Ls) + list(Ts) + list(Ms)
    c.cov["unit_triples"] = len(triples)
    c.cov["unit_counts"] = {"lengths": len(Ls), "times": len(Ts), "masses": len(Ms)}

    # ---- tie 2: Float model of the conversion formulas vs rebound.units (CPython `**` is libm pow: ≤ 4 ulp)
    lines, expect, meta = [], [], []
    for (l, t, m) in triples:
        lines.append("cg " + hv(U.G_SI, Ls[l], Ts[t], Ms[m])); expect.append(d2h(U.convert_G((l, t, m)))); meta.append(("convert_G", (l, t, m)))
    npair = 10000 if c.thorough else 800
    for i in range(npair):
        a, b = rng.choice(triples), rng.choice(triples)
        x = rng.normal() * rng.loguniform(1e-6, 1e6)
        lines.append("cmass " + hv(x, Ms[a[2]], Ms[b[2]])); expect.append(d2h(U.convert_mass(x, a[2], b[2]))); meta.append(("convert_mass", (a, b)))
        lines.append("clen " + hv(x, Ls[a[0]], Ls[b[0]])); expect.append(d2h(U.convert_length(x, a[0], b[0]))); meta.append(("convert_length", (a, b)))
        lines.append("cvel " + hv(x, Ls[a[0]], Ts[a[1]], Ls[b[0]], Ts[b[1]])); expect.append(d2h(U.convert_vel(x, a[0], a[1], b[0], b[1]))); meta.append(("convert_vel", (a, b)))
        lines.append("cacc " + hv(x, Ls[a[0]], Ts[a[1]], Ls[b[0]], Ts[b[1]])); expect.append(d2h(U.convert_acc(x, a[0], a[1], b[0], b[1]))); meta.append(("convert_acc", (a, b)))
    got = run_driver(exe, lines)
    nbit = ndis = 0
    first = None
    for g, e, mt, l in zip(got, expect, meta, lines):
        if g.strip() == e:
            continue
        nbit += 1
        gv, ev = h2d(g.strip()), h2d(e)
        if not ulps(gv, ev, abs(ev)) <= 16:
            ndis += 1
            first = first or dict(function=mt[0], units=mt[1], op_line=l, model=g, impl=e)
    c.cov["units_model_lines"] = len(lines)
    c.cov["units_bitwise_mismatches_within_tolerance"] = nbit - ndis
    c.cov["units_disagreements"] = ndis
    if len(got) != len(lines) or ndis:
        c.corr_break("%d unit-conversion model/implementation lines differ; first: %s" % (ndis, first and first["function"]), first)

    # ---- tie 3: the unit state machine (Simulation.units setter/getter, update_units, convert_particle_units,
    #      manual sim.G, sim.add) on random operation sequences through the real Python API vs RV/Model/UnitsState.lean
    lnames, tnames, mnames = list(Ls), list(Ts), list(Ms)
    nseq = 1500 if c.thorough else 250
    slines, sexpect, smeta = [], [], []
    ophist = {}
    for case in range(nseq):
        r = rng.fork()
        sim = rebound.Simulation()
        toks = ["useq", d2h(U.G_SI), d2h(sim.G)]
        status = []
        desc = []
        for st_ in range(r.randint(3, 9)):
            kind = r.choice(["set", "set", "conv", "conv", "conv", "G", "add", "add"])
            if st_ == 0 and r.chance(0.75):
                kind = "set"        # most sequences start by choosing units (otherwise every convert is refused)
            if kind in ("set", "conv"):
                tr = r.choice(triples)
                bad = r.chance(0.12)
                if bad:
                    spell = r.choice([("au", "yr"), ("au", "yr", "furlong"), ("kg", "msun", "yr"), ("au", "pc", "s")])
                    toks.append("S!" if kind == "set" else "C!")
                else:
                    spell = list(tr)
                    r.shuffle(spell)
                    if r.chance(0.3):
                        spell = [x.upper() for x in spell]
                    dim("units: setter given a dict / upper case / any order")
                    if kind == "set" and r.chance(0.25):
                        spell = {"a": spell[0], "b": spell[1], "c": spell[2]}      # check_units takes the values of a dict
                    toks += ["S" if kind == "set" else "C", str(lnames.index(tr[0])), str(tnames.index(tr[1])), str(mnames.index(tr[2])),
                             d2h(Ls[tr[0]]), d2h(Ts[tr[1]]), d2h(Ms[tr[2]])]
                try:
                    if kind == "set":
                        sim.units = spell if isinstance(spell, dict) else tuple(spell)
                    else:
                        sim.convert_particle_units(*spell)
                    status.append("ok")
                except AttributeError as ex:
                    status.append("populated" if kind == "set" else "notset")
                except Exception as ex:
                    status.append("bad")
                desc.append((kind, tuple(spell.values()) if isinstance(spell, dict) else tuple(spell), status[-1]))
                if kind == "conv" and status[-1] == "ok" and any(d_[0] == "G" for d_ in desc):
                    dim("units: G assigned manually then convert")
            elif kind == "G":
                g = r.loguniform(1e-12, 1e3)
                sim.G = g
                toks += ["G", d2h(g)]
                status.append("ok")
                desc.append(("G", g, "ok"))
            else:
                vals = [r.normal() * r.loguniform(1e-3, 1e3) for _ in range(11)]
                vals[0] = abs(vals[0]); vals[4] = abs(vals[4])
                sim.add(m=vals[0], x=vals[1], y=vals[2], z=vals[3], r=vals[4], vx=vals[5], vy=vals[6], vz=vals[7])
                pl = sim.particles[sim.N - 1]
                pl.ax, pl.ay, pl.az = vals[8], vals[9], vals[10]
                toks += ["A"] + [d2h(v) for v in vals]
                status.append("ok")
                desc.append(("add", None, "ok"))
            ophist[kind + ":" + status[-1]] = ophist.get(kind + ":" + status[-1], 0) + 1
        un = sim.units
        if un["length"] is None and un["time"] is None and un["mass"] is None:
            us = "none"
        else:
            try:
                us = "%d,%d,%d" % (lnames.index(un["length"]), tnames.index(un["time"]), mnames.index(un["mass"]))
            except ValueError:
                us = "garbled:%r" % (un,)
        fin = " ".join(status) + " | " + us + " " + d2h(sim.G) + " " + str(sim.N) + " " + \
            " ".join(" ".join(d2h(getattr(pp, f)) for f in ["m", "x", "y", "z", "r", "vx", "vy", "vz", "ax", "ay", "az"]) for pp in sim.particles)
        slines.append(" ".join(toks)); sexpect.append(fin.strip()); smeta.append(desc)
        c.count(("useq", tuple(k for k, _, _ in desc)[:4], case % 8))
    sgot = run_driver(exe, slines)
    sdis = 0
    sfirst = None
    sbit = 0
    for g, e, mt, l in zip(sgot, sexpect, smeta, slines):
        if g.strip() == e:
            continue
        sbit += 1
        okk = False
        try:
            gh, gt = g.strip().split(" | "); eh, et = e.split(" | ")
            gtk, etk = gt.split(), et.split()
            if gh == eh and gtk[0] == etk[0] and gtk[2] == etk[2] and len(gtk) == len(etk):
                okk = all(ulps(h2d(a), h2d(b), abs(h2d(b))) <= 64 for a, b in zip([gtk[1]] + gtk[3:], [etk[1]] + etk[3:]))
        except Exception:
            okk = False
        if not okk:
            sdis += 1
            sfirst = sfirst or dict(ops=mt, op_line=l[:1500], model=g[:800], impl=e[:800])
    c.cov["units_state_machine_sequences"] = len(slines)
    c.cov["units_state_machine_op_histogram"] = dict(sorted(ophist.items()))
    c.cov["units_state_machine_bitwise_mismatches_within_tolerance"] = sbit - sdis
    c.cov["units_state_machine_disagreements"] = sdis
    if len(sgot) != len(slines) or sdis:
        c.corr_break("%d unit state-machine sequences differ between rebound.Simulation and the model; first ops: %s" % (sdis, sfirst and sfirst["ops"]), sfirst)

    # ---- search 1: hash_to_unit(hash(u)) = u for every name; unknown / incomplete triples rejected
    clib.reb_hash.restype = ctypes.c_uint32
    for u in allnames:
        h = clib.reb_hash(ctypes.c_char_p(u.encode("ascii")))
        back = U.hash_to_unit(h)
        c.count(("hash", u))
        if back != u or h == 0:
            fails.append(("hash-to-unit", "hash_to_unit(reb_hash(%r)) = %r" % (u, back), dict(unit=u, hash=h, back=back)))
    for bad in (("au", "yr"), ("au", "yr", "furlong"), ("au", "au", "yr"), ("kg", "msun", "yr")):
        try:
            U.check_units(bad)
            fails.append(("check-units", "check_units accepted %r" % (bad,), dict(units=bad)))
        except Exception:
            pass

    # ---- search 2: exhaustive over all triples — setter -> G, read-back, convert there and back, period
    exactL = {k: Fr(v) for k, v in Ls.items()}
    exactT = {k: Fr(v) for k, v in Ts.items()}
    exactM = {k: Fr(v) for k, v in Ms.items()}
    Gq = Fr(U.G_SI)
    # reference (independent) values for a physical plausibility check of G in every triple
    refL = {k: v for k, v in ref["lengths"].items()}
    refT = {k: v for k, v in ref["times"].items()}

    eg = abs(float((Gq - ref["G"][0]) / ref["G"][0]))
    note("G_SI_vs_CODATA/tolerance", eg / float(ref["G"][1]))
    if not eg <= float(ref["G"][1]):
        fails.append(("units-value:G_SI", "G_SI = %r disagrees with CODATA (%.3g relative)" % (U.G_SI, eg), dict(G_SI=U.G_SI, rel=eg)))
    for g in ref["alias_groups"]:
        vals = {u: (Ls.get(u) or Ts.get(u) or Ms.get(u)) for u in g}
        if len(set(vals.values())) != 1:
            fails.append(("units-alias:" + g[0], "aliases %r have different values %r" % (g, vals), dict(values=vals)))
    if len(set(allnames)) != len(allnames):
        fails.append(("units-names", "a unit name occurs in two tables", dict(names=allnames)))
    # SI description of a two-body system (independent of any unit table)
    m1_SI, m2_SI, a_SI = Fr("1.7e30"), Fr("3.1e27"), Fr("2.3e11")
    Pw = 2 * math.pi * math.sqrt(float(a_SI) ** 3 / (float(Gq) * float(m1_SI + m2_SI)))
    order = list(range(len(triples)))
    perm = list(order)
    rng.shuffle(perm)
    fields = ["m", "x", "y", "z", "r", "vx", "vy", "vz", "ax", "ay", "az"]
    dims = {"m": (0, 0, 1), "x": (1, 0, 0), "y": (1, 0, 0), "z": (1, 0, 0), "r": (1, 0, 0),
            "vx": (1, -1, 0), "vy": (1, -1, 0), "vz": (1, -1, 0), "ax": (1, -2, 0), "ay": (1, -2, 0), "az": (1, -2, 0)}
    ntarget = 5 if c.thorough else 1
    ELEM_FACTORS = ("size", "phase", "peri", "kind", "primary")

    def u_excluded(f, a, g, b):
        # how the companion is specified: Cartesian, or orbital elements in one of the spellings Particle.__init__ accepts
        if f == "add" and g in ELEM_FACTORS:
            if (a == "cartesian") != (b == "n/a"):
                return "the element-spelling factors apply to orbital-element input only"
        if f in ELEM_FACTORS and g in ELEM_FACTORS and (a == "n/a") != (b == "n/a"):
            return "the element-spelling factors apply to orbital-element input only"
        if f == "size" and a == "P" and g == "kind" and b == "hyperbolic":
            return "a hyperbolic orbit has no period"
        if f == "phase" and a == "pal" and g == "kind" and b == "hyperbolic":
            return "Pal coordinates (h, k) describe e < 1 only"
        if f == "phase" and a == "pal" and g == "peri" and b == "pomega":
            return "Particle.__init__ rejects Pal coordinates together with pomega"
        return None
    UG = pair_group("units", dict(length=list(Ls), time=list(Ts), mass=list(Ms), add=["cartesian", "elements"], var=["none", "1st"],
                                  nactive=["default", "set"], restore=["none", "archive", "copy", "pickle"],
                                  target=["different", "alias", "same"], spelling=["tuple", "upper", "dict"],
                                  size=["n/a", "a", "P"], phase=["n/a", "f", "M", "E", "T", "l", "theta", "pal"], peri=["n/a", "omega", "pomega"],
                                  kind=["n/a", "elliptic", "hyperbolic"], primary=["n/a", "default", "explicit"], tadd=["0", "nonzero"]),
                    u_excluded)
    small = PairGroup("units-small", {k: v for k, v in UG.factors.items() if k not in ("length", "time", "mass")}, u_excluded).array(rng)
    while len(small) % 17 == 0 or len(small) % 2 == 0 and len(small) < 9:
        small.append(dict(small[0]))          # the row index cycles with the triple index: keep the cycle length coprime to the table sizes
    alias_of = {}
    for g_ in ref["alias_groups"]:
        for u_ in g_:
            alias_of[u_] = [v_ for v_ in g_ if v_ != u_ and (v_ in Ls or v_ in Ts or v_ in Ms)]
    import pickle
    for idx, (l, t, m) in enumerate(triples):
        try:
            U_ = dict(small[idx % len(small)])
            sim = rebound.Simulation()
            spell = [l, t, m]
            rng.shuffle(spell)
            if U_["spelling"] == "upper":
                spell = [s_.upper() if rng.chance(0.5) else s_.capitalize() for s_ in spell]
            try:
                sim.units = tuple(spell) if U_["spelling"] != "dict" else {"x": spell[0], "y": spell[1], "z": spell[2]}
                ep("Simulation.units.setter", "units.check_units", "Simulation.update_units", "units.convert_G", "reb_hash")
            except Exception as ex:
                fails.append(("units-setter", "sim.units = %r raised %r" % (spell, ex), dict(units=spell)))
                continue
            c.count(("triple", l, t, m))
            Gx = Gq * exactM[m] * exactT[t] ** 2 / exactL[l] ** 3
            e = abs(float((Fr(sim.G) - Gx) / Gx))
            note("G_vs_exact_formula", e)
            if not e <= 1e-15 * 4:
                fails.append(("units-G", "sim.G for units %r is not G_SI*M*T^2/L^3" % ((l, t, m),), dict(units=(l, t, m), G=sim.G, want=float(Gx))))
            # physical value from the independent reference.  G/G_SI = M T^2/L^3 involves only the unit
            # values (for the GM-defined masses M = GM/G_SI with the module's own G_SI), so the tolerance is
            # that of the units alone and a wrong constant for one unit shows up in every triple that uses it
            if l in refL and t in refT and (m in ref["masses"] or m in ref["GM"]):
                if m in ref["masses"]:
                    rm, rmt = ref["masses"][m]
                else:
                    rm, rmt = ref["GM"][m][0] / Gq, ref["GM"][m][1]
                Kr = rm * refT[t][0] ** 2 / refL[l][0] ** 3
                tol = float(rmt + 2 * refT[t][1] + 3 * refL[l][1]) + 1e-14
                e = abs(float((Fr(sim.G) / Gq - Kr) / Kr))
                note("G_over_GSI_vs_reference/tolerance", e / tol)
                if not e <= tol:
                    culprit = [u for u, tab, rf in ((l, Ls, refL), (t, Ts, refT)) if abs(float((Fr(tab[u]) - rf[u][0]) / rf[u][0])) > float(rf[u][1]) + 1e-15]
                    fails.append(("units-value:" + (culprit[0] if culprit else m),
                                  "sim.G for units %r disagrees with the reference constants by %.3g (tolerance %.3g): wrong value for %s" % ((l, t, m), e, tol, culprit or [m]),
                                  dict(units=(l, t, m), G=sim.G, G_over_GSI_reference=float(Kr), rel=e, tol=tol)))
            back = sim.units
            if back != {"length": l, "time": t, "mass": m}:
                fails.append(("units-readback", "sim.units reads back %r after setting %r" % (back, (l, t, m)), dict(set=(l, t, m), got=back)))
            # a two-body system given in SI, expressed in these units with exact rationals
            def to_units(L, Tt, Mm):
                return dict(m1=float(m1_SI / Mm), m2=float(m2_SI / Mm), a=float(a_SI / L))
            q0 = to_units(exactL[l], exactT[t], exactM[m])
            v_SI = math.sqrt(float(Gq) * float(m1_SI + m2_SI) / float(a_SI))
            t_add_SI = 0.0 if U_["tadd"] == "0" else 4.1e6            # the simulation time at which the companion is added (T refers to it)
            sim.t = t_add_SI / Ts[t]
            sim.add(m=q0["m1"], r=float(Fr("7e8") / exactL[l]), hash="primary")
            if U_["add"] == "elements":
                # the companion given by orbital elements in one of the spellings of Particle.__init__ (size: a or P; phase: f, M, E,
                # time of pericentre T, mean longitude l, true longitude theta, or Pal coordinates; pericentre: omega or pomega), all
                # dimensional arguments in the units of this simulation.  Oracle: the same SI two-body problem solved here
                # (Kepler's equation by Newton / bisection, Murray-Dermott rotation), independent of REBOUND and of the unit system.
                hyp = U_["kind"] == "hyperbolic"
                e_, inc_, Om_, om_ = (1.7 if hyp else 0.3), 0.4, 1.0, 2.0
                mu_SI = float(Gq) * float(m1_SI + m2_SI)
                aS = -float(a_SI) if hyp else float(a_SI)
                n_SI = math.sqrt(mu_SI / abs(aS) ** 3)
                M_ = 0.9                                               # mean anomaly of the companion at the time it is added
                if hyp:                                                # e sinh H - H = M
                    H_ = M_
                    for _it in range(60):
                        H_ -= (e_ * math.sinh(H_) - H_ - M_) / (e_ * math.cosh(H_) - 1)
                    f_ = 2 * math.atan(math.sqrt((e_ + 1) / (e_ - 1)) * math.tanh(H_ / 2))
                    E_ = H_
                else:                                                  # E - e sin E = M
                    E_ = M_
                    for _it in range(60):
                        E_ -= (E_ - e_ * math.sin(E_) - M_) / (1 - e_ * math.cos(E_))
                    f_ = 2 * math.atan(math.sqrt((1 + e_) / (1 - e_)) * math.tan(E_ / 2))
                kw = dict(m=q0["m2"], e=e_, inc=inc_, Omega=Om_, r=float(Fr("7e7") / exactL[l]), hash="companion")
                if U_["size"] == "a":
                    kw["a"] = aS / Ls[l]
                else:
                    kw["P"] = (2 * math.pi / n_SI) / Ts[t]
                if U_["peri"] == "pomega":
                    kw["pomega"] = Om_ + om_
                else:
                    kw["omega"] = om_
                ph = U_["phase"]
                if ph == "f":
                    kw["f"] = f_
                elif ph == "M":
                    kw["M"] = M_
                elif ph == "E":
                    kw["E"] = E_
                elif ph == "T":
                    kw["T"] = (t_add_SI - M_ / n_SI) / Ts[t]           # time of pericentre passage, in the time unit
                elif ph == "l":
                    kw["l"] = M_ + Om_ + om_
                elif ph == "theta":
                    kw["theta"] = f_ + Om_ + om_
                else:                                                  # Pal coordinates
                    for k_ in ("e", "inc", "Omega", "omega", "pomega"):
                        kw.pop(k_, None)
                    pw_ = Om_ + om_
                    kw.update(h=e_ * math.sin(pw_), k=e_ * math.cos(pw_), ix=2 * math.sin(inc_ / 2) * math.cos(Om_), iy=2 * math.sin(inc_ / 2) * math.sin(Om_), l=M_ + pw_)
                if U_["primary"] == "explicit":
                    kw["primary"] = sim.particles[0]
                sim.add(**kw)
                ep("Particle.__init__(orbital elements)")
                dim("units: particles added by orbital elements")
                # SI state of the companion relative to the primary
                rr_ = aS * (1 - e_ * e_) / (1 + e_ * math.cos(f_))
                v0_ = math.sqrt(mu_SI / (aS * (1 - e_ * e_)))
                xo, yo, vxo, vyo = rr_ * math.cos(f_), rr_ * math.sin(f_), -v0_ * math.sin(f_), v0_ * (e_ + math.cos(f_))
                cO, sO, ci, si, co, so = math.cos(Om_), math.sin(Om_), math.cos(inc_), math.sin(inc_), math.cos(om_), math.sin(om_)
                Pm = [[cO * co - sO * so * ci, -cO * so - sO * co * ci], [sO * co + cO * so * ci, -sO * so + cO * co * ci], [so * si, co * si]]
                want_x = [Pm[a_][0] * xo + Pm[a_][1] * yo for a_ in range(3)]
                want_v = [Pm[a_][0] * vxo + Pm[a_][1] * vyo for a_ in range(3)]
                p0_, p1_ = sim.particles[0], sim.particles[1]
                got_x = [(getattr(p1_, k_) - getattr(p0_, k_)) * Ls[l] for k_ in ("x", "y", "z")]
                got_v = [(getattr(p1_, k_) - getattr(p0_, k_)) * Ls[l] / Ts[t] for k_ in ("vx", "vy", "vz")]
                ex_ = max(abs(a_ - b_) for a_, b_ in zip(got_x, want_x)) / abs(aS)
                ev_ = max(abs(a_ - b_) for a_, b_ in zip(got_v, want_v)) / math.sqrt(mu_SI / abs(aS))
                note("elements_in_units_SI_state", max(ex_, ev_))
                if not max(ex_, ev_) <= 1e-11:
                    fails.append(("units-elements:%s/%s" % (U_["size"], U_["phase"]),
                                  "a companion added by orbital elements (%s, %s, %s, %s, primary %s, t=%g) in units %r is not the SI orbit: relative error %.3g"
                                  % (U_["size"], U_["phase"], U_["peri"], U_["kind"], U_["primary"], sim.t, (l, t, m), max(ex_, ev_)),
                                  dict(units=(l, t, m), G=sim.G, t=sim.t, kwargs={k_: (v_ if not hasattr(v_, "m") else "particles[0]") for k_, v_ in kw.items()},
                                       got_SI=got_x + got_v, want_SI=want_x + want_v)))
            else:
                sim.add(m=q0["m2"], x=q0["a"], vy=float(Fr(v_SI) * exactT[t] / exactL[l]), r=float(Fr("7e7") / exactL[l]), hash="companion")
            hashes0 = [pp.hash.value for pp in sim.particles]
            if U_["nactive"] == "set":
                sim.N_active = 1
            t_before_convert = sim.t
            sim.dt = 0.25
            sim.particles[1].ax = float(Fr("-5.9e-3") * exactT[t] ** 2 / exactL[l])   # some acceleration to convert
            hyp_case = U_.get("kind") == "hyperbolic"
            P1 = abs(sim.particles[1].orbit(primary=sim.particles[0]).P) * Ts[t]      # |P| = 2 pi sqrt(|a|^3/mu) also for the hyperbola
            e = abs(P1 - Pw) / Pw
            note("period_SI_invariance", e)
            if not e <= 1e-12:
                fails.append(("units-period", "orbital period in seconds depends on the unit system %r: %.17g vs %.17g" % ((l, t, m), P1, Pw), dict(units=(l, t, m), P=P1, want=Pw)))
            if U_["var"] == "1st":
                # variational particles are converted like the real ones (convert_particle_units loops over all N):
                # a variation of a position / velocity / mass scales like a position / velocity / mass
                sim.add_variation()
                for k_ in range(2, sim.N):
                    pv = sim.particles[k_]
                    pv.m = rng.normal() * 1e-3
                    for f_ in ("x", "y", "z", "vx", "vy", "vz", "ax", "ay", "az"):
                        setattr(pv, f_, rng.normal())
                c.count(("convert-with-variations", idx % 40))
                dim("variational: convert_particle_units")
            # target of the conversion: another triple, an alias spelling of the same units, or the same units
            if U_["target"] == "same":
                tgt0 = (l, t, m)
            elif U_["target"] == "alias":
                tgt0 = tuple((alias_of.get(u_) or [u_])[0] for u_ in (l, t, m))
            else:
                tgt0 = triples[perm[idx % len(triples)]]
            if U_["restore"] != "none":
                # units are persisted (python_unit_* hashes, cf. finding F12 on their field order) through every restore path,
                # and a restored simulation converts exactly like the original
                if U_["restore"] == "archive":
                    tmpf = os.path.join(os.environ.get("VERIF_TMP", "/tmp"), "c20u.%d.bin" % os.getpid())
                    sim.save_to_file(tmpf, delete_file=True)
                    s_r = rebound.Simulation(tmpf)
                    try:
                        os.remove(tmpf)
                    except OSError:
                        pass
                elif U_["restore"] == "copy":
                    s_r = sim.copy()
                else:
                    s_r = pickle.loads(pickle.dumps(sim))
                okr = s_r.units == {"length": l, "time": t, "mass": m} and d2h(s_r.G) == d2h(sim.G) and s_r.N == sim.N and s_r.N_var == sim.N_var
                okr = okr and s_r.equal_units(sim)
                ep("Simulation.equal_units")
                s_r.convert_particle_units(*tgt0)
                ref_ = sim.copy(); ref_.convert_particle_units(*tgt0)
                okr = okr and all(d2h(getattr(pa_, f_)) == d2h(getattr(pb_, f_)) for pa_, pb_ in zip(s_r.particles, ref_.particles) for f_ in fields) \
                    and d2h(s_r.G) == d2h(ref_.G) and s_r.units == ref_.units
                dim("units: persisted through archive / copy / pickle")
                if not okr:
                    fails.append(("units-restore:" + U_["restore"], "units %r are not restored by %s (or the restored simulation converts differently)" % ((l, t, m), U_["restore"]),
                                  dict(units=(l, t, m), path=U_["restore"], got=s_r.units, case=U_)))
            UG.register(dict(U_, length=l, time=t, mass=m))
            before = [[getattr(p, f) for f in fields] for p in sim.particles]
            for kk in range(ntarget):
                l2, t2, m2 = triples[perm[(idx + kk * 577) % len(triples)]] if kk > 0 else tgt0
                try:
                    sim.convert_particle_units(l2, t2, m2)
                    ep("Simulation.convert_particle_units", "units.units_convert_particle", "units.hash_to_unit", "units.convert_mass",
                       "units.convert_length", "units.convert_vel", "units.convert_acc", "Simulation.units")
                except Exception as ex:
                    fails.append(("units-convert", "convert_particle_units(%r) raised %r" % ((l2, t2, m2), ex), dict(frm=(l, t, m), to=(l2, t2, m2))))
                    break
                c.count(("convert", l2, t2, m2))
                mid = [[getattr(p, f) for f in fields] for p in sim.particles]
                if kk == 0:
                    dim("units: hash / N_active / t / dt untouched by conversion")
                    if [pp.hash.value for pp in sim.particles][:2] != hashes0[:2] or sim.N_active != (1 if U_["nactive"] == "set" else -1):
                        fails.append(("units-convert-identity", "convert_particle_units changed particle hashes or N_active", dict(frm=(l, t, m), to=(l2, t2, m2))))
                    # t and dt are NOT converted although the time unit changes (only particles and G are, as the docstring says): recorded
                    c.cov["convert_particle_units_leaves_t_and_dt_unconverted"] = bool(sim.t == t_before_convert and sim.dt == 0.25)
                G2 = Gq * exactM[m2] * exactT[t2] ** 2 / exactL[l2] ** 3
                if not abs(float((Fr(sim.G) - G2) / G2)) <= 4e-15 or sim.units != {"length": l2, "time": t2, "mass": m2}:
                    fails.append(("units-convert-G", "after convert_particle_units(%r) G / units are not those of the new system" % ((l2, t2, m2),), dict(frm=(l, t, m), to=(l2, t2, m2), G=sim.G, units=sim.units)))
                worst_e = 0.0
                for pi in range(sim.N):
                    for fi, f in enumerate(fields):
                        dl, dt_, dm = dims[f]
                        fac = (exactL[l] / exactL[l2]) ** dl * (exactT[t] / exactT[t2]) ** dt_ * (exactM[m] / exactM[m2]) ** dm
                        want = Fr(before[pi][fi]) * fac
                        if want != 0:
                            worst_e = max(worst_e, abs(float((Fr(mid[pi][fi]) - want) / want)))
                        elif mid[pi][fi] != 0:
                            worst_e = float("inf")
                note("convert_vs_exact", worst_e)
                if not worst_e <= 2e-15:
                    fails.append(("units-convert-values", "convert_particle_units %r -> %r differs from the exact conversion by %.3g" % ((l, t, m), (l2, t2, m2), worst_e),
                                  dict(frm=(l, t, m), to=(l2, t2, m2), before=before, after=mid)))
                P2 = abs(sim.particles[1].orbit(primary=sim.particles[0]).P) * Ts[t2]
                e = abs(P2 - Pw) / Pw
                note("period_SI_invariance", e)
                if not e <= 1e-12:
                    fails.append(("units-period", "orbital period in seconds changes under convert_particle_units %r -> %r" % ((l, t, m), (l2, t2, m2)), dict(frm=(l, t, m), to=(l2, t2, m2), P=P2, want=Pw)))
                # a third system, reached directly and through the second: transitivity
                if kk == 0:
                    l3, t3, m3 = triples[perm[(idx + 991) % len(triples)]]
                    s_dir = rebound.Simulation()
                    s_dir.units = (l, t, m)
                    for row in before:
                        s_dir.add(m=row[0], x=row[1], y=row[2], z=row[3], r=row[4], vx=row[5], vy=row[6], vz=row[7])
                        s_dir.particles[-1].ax, s_dir.particles[-1].ay, s_dir.particles[-1].az = row[8], row[9], row[10]
                    s_dir.convert_particle_units(l3, t3, m3)
                    s_via = sim.copy()
                    s_via.convert_particle_units(l3, t3, m3)
                    et = 0.0
                    for pa_, pb_ in zip(s_dir.particles, s_via.particles):
                        for f in fields:
                            x1, x2 = getattr(pa_, f), getattr(pb_, f)
                            if x1 != x2:
                                et = max(et, abs(x1 - x2) / max(abs(x1), abs(x2)))
                    note("convert_transitive", et)
                    if not et <= 4e-15 or abs(s_dir.G - s_via.G) > 4e-15 * abs(s_dir.G):
                        fails.append(("units-transitive", "conversion %r -> %r -> %r differs from the direct conversion by %.3g" % ((l, t, m), (l2, t2, m2), (l3, t3, m3), et),
                                      dict(a=(l, t, m), b=(l2, t2, m2), c=(l3, t3, m3))))
                sim.convert_particle_units(l, t, m)
                after = [[getattr(p, f) for f in fields] for p in sim.particles]
                er = 0.0
                for ra, rb in zip(before, after):
                    for x1, x2 in zip(ra, rb):
                        if x1 != x2:
                            er = max(er, abs(x1 - x2) / max(abs(x1), abs(x2)))
                note("convert_there_and_back", er)
                if not er <= 4e-15 or d2h(sim.G) != d2h(U.convert_G((l, t, m))):
                    fails.append(("units-roundtrip", "conversion %r -> %r and back does not return the particle data (%.3g)" % ((l, t, m), (l2, t2, m2), er),
                                  dict(frm=(l, t, m), via=(l2, t2, m2), before=before, after=after)))
            if idx < 2:
                c.sample({"units": (l, t, m), "G": sim.G, "period_s": P1})
        except (ValueError, OverflowError, ZeroDivisionError) as ex:
            _lc = locals()
            fails.append(("nonfinite:units", "the real code returned a non-finite value where the oracle expects a number (%r)" % (ex,),
                          {k_: repr(_lc[k_])[:400] for k_ in ['l', 't', 'm'] if k_ in _lc}))
    # the setter must refuse to change units once particles exist
    sim = rebound.Simulation(); sim.units = ("au", "yr", "msun"); sim.add(m=1)
    try:
        sim.units = ("m", "s", "kg")
        fails.append(("units-setter-populated", "sim.units could be reassigned with particles present (no conversion is done)", {}))
    except AttributeError:
        pass
    c.cov["units_worst_errors_measured"] = {k: float("%.3g" % v) for k, v in sorted(worst.items())}
    seen = set()
    for key, what, rep in fails:
        k2 = key
        if k2 in seen:
            continue
        seen.add(k2)
        c.violation(key, what, rep)
    c.cov["units_search_failures"] = len(fails)


def run(c):
    d = build()
    rebound = use_scratch_rebound(d)
    # ---- translator: rebound/units.py -> lean/RV/Gen/C20Units.lean (every run)
    try:
        txt, parsed, ref = extract_c20.generate(REPO)
    except Exception as ex:
        raise Infra("extract_c20 failed: %r" % (ex,))
    changed = write_if_changed(os.path.join(LEAN, "RV", "Gen", "C20Units.lean"), txt)
    try:
        ftxt, ferrs, fdone = extract_c20.translate_functions(os.path.join(REPO, "rebound", "units.py"))
    except Exception as ex:
        raise Infra("extract_c20.translate_functions failed: %r" % (ex,))
    changed = write_if_changed(os.path.join(LEAN, "RV", "Gen", "C20UnitsFns.lean"), ftxt) or changed
    c.cov["translator_functions"] = {"translated": fdone, "errors": ferrs}
    c.cov["translator"] = {"regenerated": bool(changed), "parse_errors": parsed["errors"],
                           "entries": {k: len(v) for k, v in parsed["tables"].items()}}
    c.cov["rule"] = (
        "units: exhaustive over all length x time x mass triples of the imported tables (setter in random order/case -> G vs exact rational, "
        "read-back, an SI-specified two-body system expressed in the triple: period in seconds, convert_particle_units to another triple "
        "(every triple is also a target), exact rational comparison of all 11 fields, transitivity through a third triple, and back); "
        "rotations: random and special vectors / quaternions through every exported reb_vec3d_* / reb_rotation_* routine, from_to cases drawn "
        "from 7 geometry classes (exactly antiparallel generic and axis-aligned, antiparallel to 1 ulp, nearly antiparallel, parallel, "
        "orthogonal special pairs, obtuse, acute, random), angle-axis / orbit / to_new_axes / slerp incl. degenerate angles and axes; "
        "frame: random simulations N=1..13 in 4 mass families incl. zero and leading zero masses, 0..4 variational configurations of order 1, 2 "
        "(same or different first-order parents) and test-particle type with arbitrary variational data incl. mass variations; "
        "a case is non-trivial when it exercises a distinct (routine, geometry class / N / configuration / unit) combination")
    c.cov["trusted_base"] = ["Lean 4.33 kernel; Mathlib ring/field_simp/linear_combination/decide (kernel-checked)",
                             "correspondence drv_c20 vs compiled rotations.c / tools.c and vs rebound.units on generated inputs (differential test)",
                             "rv/extract_c20.py (Python ast) reads units.py as CPython does: checked bitwise against the imported module every run",
                             "ref/C20_units_reference.json (committed, written from published constants)",
                             "Lean Float.sqrt/sin/cos/acos = the libm the C code links (bitwise on this platform)",
                             "ctypes Particle / Rotation / Vec3d layout (checked by C18)"]
    c.assumptions += ["theorems are exact-arithmetic; IEEE rounding is measured by the search only (errors reported in *_worst_errors_measured)",
                      "sqrt/sin/cos enter the theorems only through SqrtSpec (non-negative square root on non-negative arguments) and TrigSpec (sin^2+cos^2=1); both proved for the real functions",
                      "isnormal(x) is modelled as x != 0 in exact arithmetic (0*(1/0)=0 in a field, NaN in IEEE: both 'not normal')",
                      "COM theorems assume non-negative masses (the m>0 guard of reb_particle_com_of_pair is modelled and proved under that hypothesis)",
                      "reb_rotation_to_orbital (documented by the authors as quadrant-unreliable) and the float display matrices are outside the statement",
                      "move_to_hel leaves variational particles untouched (source comment): they remain derivatives of the unshifted coordinates; only move_to_com is proved to transform them as derivatives"]
    ok = c.prove(["RV.Props.C20"])
    exe = lean_exe("drv_c20")
    rotations(c, rebound, exe)
    frame(c, rebound, exe)
    units(c, rebound, exe, parsed, ref)
    histories(c, rebound)
    # ---- pairwise coverage of the generator factors
    groups = {n_: g_.summary() for n_, g_ in PAIR_GROUPS.items()}
    c.cov["pairs"] = {"covered": sum(g_["covered"] for g_ in groups.values()), "total": sum(g_["total"] for g_ in groups.values()),
                      "excluded": sum(g_["excluded"] for g_ in groups.values()), "groups": groups}
    for n_, g_ in groups.items():
        if c.thorough and g_["covered"] < g_["total"]:
            c.broken.append("pairwise coverage incomplete in factor group %s: %d of %d pairs, e.g. %r" % (n_, g_["covered"], g_["total"], g_["missing"][:3]))
        if g_["cases"] == 0:
            c.broken.append("factor group %s generated no case" % n_)
    # ---- public entry points (extracted from src/rebound.h and the Python classes): each exercised in this run
    try:
        eps_ = extract_c20.entry_points(REPO)
    except Exception as ex:
        raise Infra("entry point extraction failed: %r" % (ex,))
    done_ = {e_.split("(")[0].replace(".setter", "") for e_ in ENTRY}
    missing_ = [e_ for e_ in eps_ if e_ not in done_]
    c.cov["entry_points"] = {"extracted": len(eps_), "exercised": len(eps_) - len(missing_), "missing": missing_}
    if len(eps_) < 60:
        c.broken.append("entry-point extraction found only %d public functions/methods (expected about 70)" % len(eps_))
    if missing_:
        c.broken.append("public entry points not exercised in this run: " + ", ".join(missing_))
    c.cov["dimensions"] = dict(sorted(DIMS.items()))
    for name in REQUIRED_DIMS:
        if DIMS.get(name, 0) == 0:
            c.broken.append("dimension not covered: " + name)
    if c.broken and not c.violations:
        c.log("proof/correspondence broken: extra search budget")
        c.rng = SplitMix(c.seed * 7919 + 20)
        extra = Check.__new__(Check)
        rotations(c, rebound, exe)
        frame(c, rebound, exe)


def replay(c, path):
    """./check C20 --replay replays/C20-….json : re-execute the recorded failing input on the current tree"""
    data = json.load(open(path))
    key, rep = data.get("key", ""), data.get("replay", {})
    d = build()
    rebound = use_scratch_rebound(d)
    c.cov["rule"] = "replay of " + path
    c.count(("replay", key))
    if "fromv" in rep and "tov" in rep:
        f, t = [float(x) for x in rep["fromv"]], [float(x) for x in rep["tov"]]
        r = rebound.Rotation(fromv=f, tov=t)
        n2 = float(sum(Fr(x) ** 2 for x in (r.ix, r.iy, r.iz, r.r))) if r.r == r.r else float("nan")
        img = r * f
        lf, lt_ = math.sqrt(sum(x * x for x in f)), math.sqrt(sum(x * x for x in t))
        e = max(abs(a / lf - b / lt_) for a, b in zip([img.x, img.y, img.z], t))
        c.log("Rotation(fromv=%r, tov=%r): |q|^2 = %r, image of from/|from| - to/|to| = %.3g" % (f, t, n2, e))
        if not (abs(n2 - 1) <= 1e-13 and e <= 1e-7):
            c.violation(key, "from_to: not unit / does not map from to to (|q|^2 = %r, error %.3g)" % (n2, e), rep)
    elif "newz" in rep and "newx" in rep:
        nz, nx = [float(x) for x in rep["newz"]], [float(x) for x in rep["newx"]]
        r = rebound.Rotation.to_new_axes(newz=nz, newx=nx)
        lz = math.sqrt(sum(x * x for x in nz))
        img = r * [x / lz for x in nz]
        e = max(abs(a - b) for a, b in zip([img.x, img.y, img.z], [0, 0, 1]))
        c.log("to_new_axes(newz=%r, newx=%r) * newz/|newz| = %r" % (nz, nx, [img.x, img.y, img.z]))
        if not e <= 1e-12:
            c.violation(key, "to_new_axes does not take newz to the z axis (error %.3g)" % e, rep)
    elif "units" in rep and len(rep["units"]) == 3:
        import rebound.units as U
        l, t, m = rep["units"]
        sim = rebound.Simulation()
        sim.units = (l, t, m)
        Gx = Fr(U.G_SI) * Fr(U.masses_SI[m]) * Fr(U.times_SI[t]) ** 2 / Fr(U.lengths_SI[l]) ** 3
        ref = extract_c20.load_ref()
        ok = abs(float((Fr(sim.G) - Gx) / Gx)) <= 4e-15 and sim.units == {"length": l, "time": t, "mass": m}
        if l in ref["lengths"] and t in ref["times"] and (m in ref["masses"] or m in ref["GM"]):
            rm, rmt = ref["masses"][m] if m in ref["masses"] else (ref["GM"][m][0] / Fr(U.G_SI), ref["GM"][m][1])
            Kr = rm * ref["times"][t][0] ** 2 / ref["lengths"][l][0] ** 3
            tol = float(rmt + 2 * ref["times"][t][1] + 3 * ref["lengths"][l][1]) + 1e-14
            e = abs(float((Fr(sim.G) / Fr(U.G_SI) - Kr) / Kr))
            c.log("units %r: G = %r, G/G_SI vs reference: %.3g (tolerance %.3g)" % ((l, t, m), sim.G, e, tol))
            ok = ok and e <= tol
        if not ok:
            c.violation(key, "units %r: G / read-back inconsistent with SI or with the reference constants" % ((l, t, m),), rep)
    else:
        c.log("no dedicated replay for key %r: re-running the whole check with the recorded seed %r" % (key, data.get("seed")))
        c.seed = int(data.get("seed", c.seed))
        c.rng = SplitMix(c.seed * 1000003 + 20)
        run(c)


if __name__ == "__main__":
    if "--replay" in sys.argv:
        _p = sys.argv[sys.argv.index("--replay") + 1]
        # a replay must not clobber the evidence of the last full run: its evidence goes to C20.replay.json
        _ev = os.path.join(ROOT, "evidence", "C20.json")
        _keep = open(_ev).read() if os.path.exists(_ev) else None
        _orig_finish = Check.finish

        def _finish(self):
            rc = _orig_finish(self)
            try:
                os.replace(_ev, os.path.join(ROOT, "evidence", "C20.replay.json"))
                if _keep is not None:
                    with open(_ev, "w") as fh:
                        fh.write(_keep)
            except OSError:
                pass
            return rc
        Check.finish = _finish
        main("C20", lambda c: replay(c, _p))
    else:
        main("C20", run)
