"""C20 — changes of units and of reference frame are exact symmetries.

proof:   lean/RV/Props/C20.lean — unit algebra over any field + the regenerated unit tables
         against a committed independent reference; quaternion algebra, constructors
         (from-to incl. the antiparallel branch: full statement for the repaired variant,
         negation for the variant as found = finding F7), frame shifts ∀ N incl.
         first/second order variational shifts as formal derivatives
tie:     lean/RV/Model/{Rotation,Frame,Units}.lean run on IEEE doubles (drv_c20) vs every
         exported reb_vec3d_* / reb_rotation_* / reb_simulation_move_to_* / imul / iadd /
         isub routine (bitwise) and vs rebound.units (≤ 4 ulp, CPython `**` is libm pow)
search:  the property statement on the real code with exact-rational oracles: all unit
         triples (G, read-back, there-and-back, period), rotation invariants and
         constructor contracts incl. degenerate geometry, frame shifts with variational
         particles against exact truncated-polynomial (dual number) arithmetic
"""
import ctypes, itertools, math, os, sys
from fractions import Fraction as Fr
sys.path.insert(0, os.path.dirname(os.path.abspath(__file__)))
from common import *
import extract_c20

ULP = 2.0 ** -52


# ----------------------------------------------------------------------------- helpers
def ulps(a, b, scale):
    if a != a or b != b:
        return 0.0 if (a != a and b != b) else float("inf")
    if a == b:
        return 0.0
    return abs(a - b) / (ULP * max(scale, 1e-300))


class Tie:
    """collects (op line, expected tokens, meta) and compares with the Lean driver"""

    def __init__(self, c, exe):
        self.c, self.exe = c, exe
        self.lines, self.expect, self.meta = [], [], []

    def add(self, line, expected, meta, tol=64.0, scale=None, soft=False):
        self.lines.append(line)
        self.expect.append(expected)
        self.meta.append((meta, tol, scale, soft))

    def run(self):
        got = run_driver(self.exe, self.lines) if self.lines else []
        return got


def hv(*xs):
    return " ".join(d2h(float(x)) for x in xs)


# ----------------------------------------------------------------------------- generators
def rvec(rng, scale=None):
    s = scale if scale is not None else rng.loguniform(1e-3, 1e3)
    return [rng.normal() * s for _ in range(3)]


def special_vectors():
    out = []
    for v in itertools.product([-1.0, 0.0, 1.0], repeat=3):
        if any(v):
            out.append(list(v))
    out += [[2.0, 3.0, -5.0], [1e-3, 1.0, 1.0], [1.0, 1e-8, 0.0], [3.0, 4.0, 0.0], [1e150, 1.0, 1.0][:3],
            [1e-160, 1e-160, 0.0]]
    return out


def gen_from_to(rng, i):
    """(from, to, class) covering the four branches of reb_rotation_init_from_to"""
    sp = special_vectors()
    k = i % 10
    if k == 0:      # exactly antiparallel, generic direction (F7 class)
        f = rvec(rng)
        s = rng.choice([1.0, 2.0, 0.5, 4.0, 1024.0])
        return f, [-s * x for x in f], "antiparallel-exact"
    if k == 1:      # exactly antiparallel, special direction
        f = rng.choice(sp)
        s = rng.choice([1.0, 2.0, 0.25])
        return f, [-s * x for x in f], "antiparallel-exact"
    if k == 2:      # nearly antiparallel
        f = rvec(rng)
        e = 10 ** -rng.uniform(3, 17)
        return f, [-x * rng.uniform(0.5, 2) + e * rng.normal() * abs(x + 1e-300) for x in f][:3], "antiparallel-near"
    if k == 3:      # parallel exactly / nearly
        f = rvec(rng)
        s = rng.choice([1.0, 2.0, 3.0, 0.1])
        e = rng.choice([0.0, 1e-15, 1e-8])
        return f, [s * x * (1 + e * rng.normal()) for x in f], "parallel"
    if k == 4:      # orthogonal (dot == 0 boundary of the first branch)
        f = rng.choice(sp)
        t = rng.choice(sp)
        return f, t, "special-pair"
    if k == 5:      # obtuse
        f = rvec(rng, 1.0)
        t = rvec(rng, 1.0)
        d = sum(a * b for a, b in zip(f, t))
        if d > 0:
            t = [-x for x in t]
        return f, t, "obtuse"
    if k == 6:
        f = rvec(rng, 1.0)
        t = rvec(rng, 1.0)
        d = sum(a * b for a, b in zip(f, t))
        if d < 0:
            t = [-x for x in t]
        return f, t, "acute"
    if k == 7:      # antiparallel up to one ulp in one component
        f = rvec(rng)
        t = [-x for x in f]
        j = rng.randint(0, 2)
        t[j] = math.nextafter(t[j], rng.choice([-1e308, 1e308]))
        return f, t, "antiparallel-near"
    return rvec(rng), rvec(rng), "random"


# ----------------------------------------------------------------------------- exact oracle (rationals)
def fr3(v):
    return [Fr(x) for x in v]


def fdot(a, b):
    return sum(x * y for x, y in zip(a, b))


def fcross(a, b):
    return [a[1] * b[2] - a[2] * b[1], a[2] * b[0] - a[0] * b[2], a[0] * b[1] - a[1] * b[0]]


def frot_matrix(q):
    """exact rotation matrix of a (not necessarily unit) quaternion, the *specification*
    v -> q v q^-1 (independent of REBOUND's t = 2 u×v formulation)"""
    ix, iy, iz, r = [Fr(x) for x in q]
    n = ix * ix + iy * iy + iz * iz + r * r
    if n == 0:
        return None
    m = [[r * r + ix * ix - iy * iy - iz * iz, 2 * (ix * iy - r * iz), 2 * (ix * iz + r * iy)],
         [2 * (ix * iy + r * iz), r * r - ix * ix + iy * iy - iz * iz, 2 * (iy * iz - r * ix)],
         [2 * (ix * iz - r * iy), 2 * (iy * iz + r * ix), r * r - ix * ix - iy * iy + iz * iz]]
    return [[e / n for e in row] for row in m]


def fapply(m, v):
    return [sum(m[i][j] * v[j] for j in range(3)) for i in range(3)]


# ----------------------------------------------------------------------------- rotations
def rotations(c, rebound, exe):
    clib = rebound.clibrebound
    from rebound.vectors import Vec3dBasic as V
    from rebound.rotation import Rotation as Q
    D = ctypes.c_double
    sig = {"reb_vec3d_mul": (V, [V, D]), "reb_vec3d_add": (V, [V, V]), "reb_vec3d_cross": (V, [V, V]),
           "reb_vec3d_dot": (D, [V, V]), "reb_vec3d_length_squared": (D, [V]), "reb_vec3d_normalize": (V, [V]),
           "reb_vec3d_rotate": (V, [V, Q]), "reb_rotation_mul": (Q, [Q, Q]), "reb_rotation_inverse": (Q, [Q]),
           "reb_rotation_conjugate": (Q, [Q]), "reb_rotation_normalize": (Q, [Q]), "reb_rotation_identity": (Q, []),
           "reb_rotation_init_angle_axis": (Q, [D, V]), "reb_rotation_init_from_to": (Q, [V, V]),
           "reb_rotation_init_orbit": (Q, [D, D, D]), "reb_rotation_init_to_new_axes": (Q, [V, V]),
           "reb_rotation_slerp": (Q, [Q, Q, D])}
    F = {}
    for n, (rt, at) in sig.items():
        f = getattr(clib, n)
        f.restype, f.argtypes = rt, at
        F[n[4:]] = f
    clib.reb_vec3d_irotate.restype = None
    clib.reb_vec3d_irotate.argtypes = [ctypes.POINTER(V), Q]
    clib.reb_rotation_length_squared.restype = D
    clib.reb_rotation_length_squared.argtypes = [Q]

    def vl(v):
        return [v.x, v.y, v.z]

    def ql(q):
        return [q.ix, q.iy, q.iz, q.r]

    def mkq(l):
        return Q(ix=l[0], iy=l[1], iz=l[2], r=l[3])

    lines, expect, meta = [], [], []

    def add(line, exp, tag, soft=False):
        lines.append(line)
        expect.append(" ".join(d2h(x) for x in exp))
        meta.append((tag, soft))

    n = 6000 if c.thorough else 800
    rng = c.rng.fork()
    worst = {}
    hist = {}
    fails = []          # (key, what, replay)

    def note(k, v):
        if v == v:
            worst[k] = max(worst.get(k, 0.0), v)

    def runit(rng):
        """random unit-ish quaternion (exactly representable inputs, norm within rounding of 1)"""
        kind = rng.randint(0, 3)
        if kind == 0:
            q = [rng.normal() for _ in range(4)]
        elif kind == 1:
            q = [0.0, 0.0, 0.0, 0.0]
            q[rng.randint(0, 3)] = rng.choice([1.0, -1.0])
            return q
        elif kind == 2:   # small angle
            q = [1e-6 * rng.normal(), 1e-6 * rng.normal(), 1e-6 * rng.normal(), 1.0]
        else:             # near pi
            q = [rng.normal(), rng.normal(), rng.normal(), 1e-9 * rng.normal()]
        nrm = math.sqrt(math.fsum(x * x for x in q))
        return [x / nrm for x in q]

    # ---------------- primitives + algebraic laws on the real code
    for i in range(n):
        v, w = rvec(rng), rvec(rng)
        if i % 7 == 0:
            v = rng.choice(special_vectors())
        s = rng.normal() * rng.loguniform(1e-3, 1e3)
        p, q = runit(rng), runit(rng)
        if i % 11 == 0:      # arbitrary (non-unit) quaternions for the group operations
            p = [rng.normal() * 3 for _ in range(4)]
        V_, W_, P_, Q_ = V(*v), V(*w), mkq(p), mkq(q)
        add("vmul " + hv(*v, s), vl(F["vec3d_mul"](V_, s)), "vec3d_mul")
        add("vadd " + hv(*v, *w), vl(F["vec3d_add"](V_, W_)), "vec3d_add")
        add("cross " + hv(*v, *w), vl(F["vec3d_cross"](V_, W_)), "vec3d_cross")
        add("dot " + hv(*v, *w), [F["vec3d_dot"](V_, W_)], "vec3d_dot")
        add("len2 " + hv(*v), [F["vec3d_length_squared"](V_)], "vec3d_length_squared")
        add("normalize " + hv(*v), vl(F["vec3d_normalize"](V_)), "vec3d_normalize")
        pq = F["rotation_mul"](P_, Q_)
        add("qmul " + hv(*p, *q), ql(pq), "rotation_mul")
        add("qlen2 " + hv(*p), [clib.reb_rotation_length_squared(P_)], "rotation_length_squared")
        add("conj " + hv(*p), ql(F["rotation_conjugate"](P_)), "rotation_conjugate")
        add("qnormalize " + hv(*p), ql(F["rotation_normalize"](P_)), "rotation_normalize")
        pinv = F["rotation_inverse"](P_)
        add("inverse " + hv(*p), ql(pinv), "rotation_inverse")
        rv_ = F["vec3d_rotate"](V_, Q_)
        add("rotate " + hv(*v, *q), vl(rv_), "vec3d_rotate")
        tmp = V(*v)
        clib.reb_vec3d_irotate(ctypes.byref(tmp), Q_)
        if [d2h(x) for x in vl(tmp)] != [d2h(x) for x in vl(rv_)]:
            c.corr_break("reb_vec3d_irotate and reb_vec3d_rotate disagree", dict(v=v, q=q))
        c.count(("prim", i % 50))
        # ---- search: the laws, oracle = exact rational arithmetic on the same doubles
        sc = max(abs(x) for x in v) or 1.0
        scw = max(abs(x) for x in w) or 1.0
        nq = float(sum(Fr(x) ** 2 for x in q))
        if abs(nq - 1) < 1e-12:
            M = frot_matrix(q)
            ev = fapply(M, fr3(v))
            e = max(abs(float(Fr(a) - b)) for a, b in zip(vl(rv_), ev)) / sc
            note("rotate_vs_exact_qvq*", e)
            if not e <= 1e-13:
                fails.append(("rotate-spec", "reb_vec3d_rotate differs from q v q^-1", dict(v=v, q=q, got=vl(rv_), err=e)))
            rw = F["vec3d_rotate"](W_, Q_)
            d0 = float(fdot(fr3(v), fr3(w)))
            d1 = float(fdot(fr3(vl(rv_)), fr3(vl(rw))))
            e = abs(d1 - d0) / (sc * scw)
            note("dot_preserved", e)
            if not e <= 1e-13:
                fails.append(("rotate-dot", "rotation does not preserve the dot product", dict(v=v, w=w, q=q, before=d0, after=d1)))
            # cross product covariance (orientation preserved: angular momentum rotates as a vector)
            cr = F["vec3d_rotate"](V(*[float(x) for x in fcross(fr3(v), fr3(w))]), Q_)
            c2 = fcross(fr3(vl(rv_)), fr3(vl(rw)))
            e = max(abs(float(Fr(a) - b)) for a, b in zip(vl(cr), c2)) / (sc * scw)
            note("cross_covariant", e)
            if not e <= 1e-12:
                fails.append(("rotate-cross", "rotation does not commute with the cross product", dict(v=v, w=w, q=q)))
            # inverse undoes
            back = F["vec3d_rotate"](rv_, F["rotation_inverse"](Q_))
            e = max(abs(a - b) for a, b in zip(vl(back), v)) / sc
            note("inverse_undoes", e)
            if not e <= 1e-13:
                fails.append(("rotate-inverse", "rotating with the inverse does not undo the rotation", dict(v=v, q=q, back=vl(back))))
        npf = float(sum(Fr(x) ** 2 for x in p))
        if abs(nq - 1) < 1e-12 and abs(npf - 1) < 1e-12:
            a = F["vec3d_rotate"](V_, pq)
            b = F["vec3d_rotate"](rv_, P_)
            e = max(abs(x - y) for x, y in zip(vl(a), vl(b))) / sc
            note("compose", e)
            if not e <= 1e-13:
                fails.append(("rotate-compose", "rotate(p*q) v != rotate p (rotate q v)", dict(v=v, p=p, q=q, a=vl(a), b=vl(b))))
        # norm multiplicative, q * q^-1 = 1 (any non-zero quaternion)
        e = abs(float(sum(Fr(x) ** 2 for x in ql(pq))) - npf * nq) / max(npf * nq, 1e-300)
        note("norm_multiplicative", e)
        if not e <= 1e-13:
            fails.append(("norm-mul", "|p q|^2 != |p|^2 |q|^2", dict(p=p, q=q)))
        one = ql(F["rotation_mul"](P_, pinv))
        e = max(abs(a - b) for a, b in zip(one, [0, 0, 0, 1]))
        note("q_times_inverse", e)
        if not e <= 1e-13:
            fails.append(("mul-inverse", "p * inverse(p) != identity", dict(p=p, got=one)))
    add("identity", ql(F["rotation_identity"]()), "rotation_identity")

    # ---------------- from_to (all branches)
    nft = 6000 if c.thorough else 1000
    variant_votes = {"asfound": 0, "fixed": 0, "both": 0, "neither": 0}
    ft_cases = []
    for i in range(nft):
        f, t, cls = gen_from_to(rng, i)
        q = F["rotation_init_from_to"](V(*f), V(*t))
        qv = ql(q)
        lines.append("fromto " + hv(*f, *t)); expect.append(" ".join(d2h(x) for x in qv)); meta.append(("fromto", cls))
        lines.append("fromtofixed " + hv(*f, *t)); expect.append(" ".join(d2h(x) for x in qv)); meta.append(("fromtofixed", cls))
        ft_cases.append((f, t, cls, qv))
        hist[cls] = hist.get(cls, 0) + 1
        c.count(("from_to", cls, i % 40))
        # ---- search: unit and maps from -> to (oracle: exact rational q v q^-1 on the returned doubles,
        #      directions normalised with math.fsum / sqrt independent of the C normalisation)
        lf = math.sqrt(float(sum(Fr(x) ** 2 for x in f)))
        lt_ = math.sqrt(float(sum(Fr(x) ** 2 for x in t)))
        if not (lf > 1e-150 and lt_ > 1e-150 and lf < 1e150 and lt_ < 1e150):
            continue
        nq = float(sum(Fr(x) ** 2 for x in qv)) if all(x == x for x in qv) else float("nan")
        key = "F7:from_to-antiparallel" if cls == "antiparallel-exact" else "from_to:" + cls
        bad = None
        if not abs(nq - 1) <= 1e-13:
            bad = "from_to rotation is not unit: |q|^2 = %r" % nq
        else:
            fn = [x / lf for x in f]
            tn = [x / lt_ for x in t]
            # apply through the real code (reb_vec3d_rotate) and through the exact specification
            got = vl(F["vec3d_rotate"](V(*fn), q))
            e = max(abs(a - b) for a, b in zip(got, tn))
            M = frot_matrix(qv)
            e2 = max(abs(float(a) - b) for a, b in zip(fapply(M, fr3(fn)), tn))
            note("from_to_maps[" + cls + "]", max(e, e2))
            tolmap = 1e-13 if cls != "antiparallel-near" else 1e-7
            if not (e <= tolmap and e2 <= tolmap):
                bad = "from_to rotation does not map from to to (error %.3g)" % max(e, e2)
        if cls != "antiparallel-near":
            note("from_to_norm[" + cls + "]", abs(nq - 1))
        if bad:
            fails.append((key, bad, dict(fromv=f, tov=t, q=qv, norm2=nq, cls=cls)))

    # ---------------- angle-axis, orbit, new axes, slerp
    nc = 3000 if c.thorough else 500
    for i in range(nc):
        ang = rng.choice([0.0, math.pi, -math.pi, math.pi / 2, 2 * math.pi, 1e-9, rng.uniform(-10, 10), rng.uniform(-1e3, 1e3)])
        ax = rvec(rng) if i % 5 else rng.choice(special_vectors())
        q = F["rotation_init_angle_axis"](ang, V(*ax))
        add("angleaxis " + hv(ang, *ax), ql(q), "rotation_init_angle_axis")
        c.count(("angle_axis", i % 40))
        la = math.sqrt(float(sum(Fr(x) ** 2 for x in ax)))
        if 1e-150 < la < 1e150:
            nq = float(sum(Fr(x) ** 2 for x in ql(q)))
            note("angle_axis_norm", abs(nq - 1))
            # oracle: Rodrigues formula with math.cos/math.sin of the full angle
            an = [x / la for x in ax]
            v = rvec(rng, 1.0)
            got = vl(F["vec3d_rotate"](V(*v), q))
            cr = [an[1] * v[2] - an[2] * v[1], an[2] * v[0] - an[0] * v[2], an[0] * v[1] - an[1] * v[0]]
            dt = sum(a * b for a, b in zip(an, v))
            want = [v[k] * math.cos(ang) + cr[k] * math.sin(ang) + an[k] * dt * (1 - math.cos(ang)) for k in range(3)]
            e = max(abs(a - b) for a, b in zip(got, want))
            note("angle_axis_rodrigues", e / max(1.0, abs(ang)))
            if not abs(nq - 1) <= 1e-13 or not e <= 1e-12 * max(1.0, abs(ang)):
                fails.append(("angle-axis", "angle-axis rotation is not the Rodrigues rotation / not unit", dict(angle=ang, axis=ax, q=ql(q), v=v, got=got, want=want)))
        Om, inc, om = [rng.choice([0.0, math.pi, math.pi / 2, rng.uniform(-7, 7)]) for _ in range(3)]
        q = F["rotation_init_orbit"](Om, inc, om)
        add("orbit " + hv(Om, inc, om), ql(q), "rotation_init_orbit")
        c.count(("orbit", i % 40))
        nq = float(sum(Fr(x) ** 2 for x in ql(q)))
        note("orbit_norm", abs(nq - 1))
        # oracle: Murray & Dermott eq. 2.119-2.121 with full-angle sines and cosines
        cO, sO, ci, si, co, so = math.cos(Om), math.sin(Om), math.cos(inc), math.sin(inc), math.cos(om), math.sin(om)
        P = [[cO * co - sO * so * ci, -cO * so - sO * co * ci, sO * si],
             [sO * co + cO * so * ci, -sO * so + cO * co * ci, -cO * si],
             [so * si, co * si, ci]]
        v = rvec(rng, 1.0)
        got = vl(F["vec3d_rotate"](V(*v), q))
        want = [sum(P[a][b] * v[b] for b in range(3)) for a in range(3)]
        e = max(abs(a - b) for a, b in zip(got, want))
        note("orbit_MD2.121", e)
        if not abs(nq - 1) <= 1e-13 or not e <= 1e-13:
            fails.append(("orbit", "Rotation.orbit is not Murray-Dermott 2.121 / not unit", dict(Omega=Om, inc=inc, omega=om, q=ql(q), v=v, got=got, want=want)))
        # to_new_axes
        kind = i % 6
        if kind == 0:
            nz = rng.choice([[0.0, 0.0, -1.0], [0.0, 0.0, 1.0], [0.0, 0.0, -3.0], [1.0, 0.0, 0.0], [0.0, -2.0, 0.0]])
        else:
            nz = rvec(rng)
        nx = rvec(rng)
        if kind == 1:   # newx such that the rotated newx is antiparallel to x
            nx = [-1.0, 0.0, 0.0] if nz[0] == 0 else nx
        if kind == 2:
            nz = [0.0, 0.0, -1.0]; nx = [-1.0, 0.0, 0.0]
        q = F["rotation_init_to_new_axes"](V(*nz), V(*nx))
        lines.append("newaxes " + hv(*nz, *nx)); expect.append(" ".join(d2h(x) for x in ql(q))); meta.append(("newaxes", "newaxes"))
        lines.append("newaxesfixed " + hv(*nz, *nx)); expect.append(" ".join(d2h(x) for x in ql(q))); meta.append(("newaxesfixed", "newaxes"))
        c.count(("new_axes", i % 40))
        lz = math.sqrt(sum(x * x for x in nz))
        zn = [x / lz for x in nz]
        dp = sum(a * b for a, b in zip(zn, nx))
        xo = [a - dp * b for a, b in zip(nx, zn)]
        lx = math.sqrt(sum(x * x for x in xo))
        if lx > 1e-6 * math.sqrt(sum(x * x for x in nx)) and all(x == x for x in ql(q)):
            xn = [x / lx for x in xo]
            nq = float(sum(Fr(x) ** 2 for x in ql(q)))
            gz = vl(F["vec3d_rotate"](V(*zn), q))
            gx = vl(F["vec3d_rotate"](V(*xn), q))
            e = max(max(abs(a - b) for a, b in zip(gz, [0, 0, 1])), max(abs(a - b) for a, b in zip(gx, [1, 0, 0])))
            cond = math.sqrt(sum(x * x for x in nx)) / lx
            note("new_axes_maps", e / cond)
            note("new_axes_norm", abs(nq - 1))
            if not abs(nq - 1) <= 1e-13 or not e <= 1e-13 * cond:
                fails.append(("new-axes", "to_new_axes does not map newz->z, newx->x / not unit", dict(newz=nz, newx=nx, q=ql(q), gz=gz, gx=gx)))
        # slerp
        q1, q2 = runit(rng), runit(rng)
        if i % 4 == 0:
            q2 = list(q1)
        if i % 4 == 1:
            q2 = [-x for x in q1]
        if i % 4 == 2:
            eps = 10 ** -rng.uniform(3, 9)
            q2 = [x + eps * rng.normal() for x in q1]
        t = rng.choice([0.0, 1.0, 0.5, rng.uniform(0, 1)])
        qsl = F["rotation_slerp"](mkq(q1), mkq(q2), t)
        add("slerp " + hv(1e-4, 0.5, *q1, *q2, t), ql(qsl), "rotation_slerp")
        c.count(("slerp", i % 40))

    # ---------------- run the model
    c.log("rotations: %d model lines through drv_c20" % len(lines))
    got = run_driver(exe, lines)
    nbit = ndis = 0
    first = None
    per = {}
    ft_match = {"fromto": [0, 0], "fromtofixed": [0, 0], "newaxes": [0, 0], "newaxesfixed": [0, 0]}
    ft_bad = {"fromto": None, "fromtofixed": None, "newaxes": None, "newaxesfixed": None}
    if len(got) != len(lines):
        c.corr_break("drv_c20 returned %d lines for %d ops" % (len(got), len(lines)))
        return
    for g, e, (tag, cls), l in zip(got, expect, meta, lines):
        per[tag] = per.get(tag, 0) + 1
        same = g.split() == e.split()
        okk = same
        if not same:
            try:
                gv, ev = [h2d(x) for x in g.split()], [h2d(x) for x in e.split()]
                sc = max([abs(x) for x in ev + gv if x == x and abs(x) != float("inf")] + [1e-300])
                okk = len(gv) == len(ev) and all(ulps(a, b, sc) <= 64 for a, b in zip(gv, ev))
            except Exception:
                okk = False
        if tag in ft_match:
            # the two model variants differ only in the exactly-antiparallel branch
            ft_match[tag][0] += 1
            if okk or cls == "antiparallel-near":
                ft_match[tag][1] += 1
            elif ft_bad[tag] is None:
                ft_bad[tag] = dict(op_line=l, model=g, impl=e, cls=cls)
            if not same:
                nbit += 1
            continue
        if not same:
            nbit += 1
            if not okk:
                ndis += 1
                if first is None:
                    first = dict(routine=tag, op_line=l, model=g, impl=e)
    # which variant of the antiparallel branch does the compiled code implement?
    asfound = ft_match["fromto"][0] == ft_match["fromto"][1] and ft_match["newaxes"][0] == ft_match["newaxes"][1]
    fixed = ft_match["fromtofixed"][0] == ft_match["fromtofixed"][1] and ft_match["newaxesfixed"][0] == ft_match["newaxesfixed"][1]
    variant = "as-found (axis not normalised, F7)" if asfound else ("repaired (fixes/F7.diff)" if fixed else "neither")
    c.cov["from_to_model_variant_matching_the_code"] = variant
    if not asfound and not fixed:
        b = ft_bad["fromto"] or ft_bad["newaxes"]
        c.corr_break("reb_rotation_init_from_to / to_new_axes agree with neither model variant (as found: %d/%d, repaired: %d/%d)"
                     % (ft_match["fromto"][1], ft_match["fromto"][0], ft_match["fromtofixed"][1], ft_match["fromtofixed"][0]), b)
    c.cov["rotation_model_lines"] = len(lines)
    c.cov["rotation_lines_per_routine"] = per
    c.cov["rotation_bitwise_mismatches_within_tolerance"] = nbit - ndis
    c.cov["rotation_disagreements"] = ndis
    c.cov["from_to_branch_histogram"] = hist
    c.cov["rotation_worst_errors_measured"] = {k: float("%.3g" % v) for k, v in sorted(worst.items())}
    if ndis:
        c.corr_break("%d rotation model/implementation lines differ; first: %s" % (ndis, first["routine"]), first)
    # ---------------- Python Rotation class = the C functions (thin wrapper): same answers through the class
    npy = 0
    for f, t, cls, qv in ft_cases[:200]:
        r = rebound.Rotation(fromv=f, tov=t)
        if [d2h(x) for x in [r.ix, r.iy, r.iz, r.r]] != [d2h(x) for x in qv]:
            c.corr_break("rebound.Rotation(fromv, tov) differs from reb_rotation_init_from_to", dict(f=f, t=t))
            break
        r2 = rebound.Rotation.from_to(f, t)
        v = r2 * [1.0, 2.0, 3.0]
        w = vl(F["vec3d_rotate"](V(1.0, 2.0, 3.0), mkq(qv)))
        if [d2h(x) for x in [v.x, v.y, v.z]] != [d2h(x) for x in w]:
            c.corr_break("Rotation.__mul__(vector) differs from reb_vec3d_rotate", dict(f=f, t=t))
            break
        npy += 1
    for i in range(100):
        ang = rng.uniform(-7, 7); ax = rvec(rng)
        r = rebound.Rotation(angle=ang, axis=ax)
        q = F["rotation_init_angle_axis"](ang, V(*ax))
        ri = r.inverse(); qi = F["rotation_inverse"](q)
        ro = rebound.Rotation.orbit(Omega=ang, inc=ax[0], omega=ax[1]); qo = F["rotation_init_orbit"](ang, ax[0], ax[1])
        rm = r * ro; qm = F["rotation_mul"](q, qo)
        rn = rebound.Rotation.to_new_axes(newz=ax, newx=[ax[1], -ax[0], 0.3]); qn = F["rotation_init_to_new_axes"](V(*ax), V(ax[1], -ax[0], 0.3))
        for a, b, nm in ((r, q, "angle/axis"), (ri, qi, "inverse"), (ro, qo, "orbit"), (rm, qm, "__mul__"), (rn, qn, "to_new_axes")):
            if [d2h(x) for x in ql(a)] != [d2h(x) for x in ql(b)]:
                c.corr_break("rebound.Rotation %s differs from the C routine" % nm, dict(angle=ang, axis=ax))
        # default x axis of to_new_axes: z cross newz
        rn2 = rebound.Rotation.to_new_axes(newz=ax)
        gz = rn2 * [x for x in ax]
        lz = math.sqrt(sum(x * x for x in ax))
        e = max(abs(a - b) for a, b in zip([gz.x / lz, gz.y / lz, gz.z / lz], [0, 0, 1]))
        if not e <= 1e-13:
            fails.append(("new-axes-default", "to_new_axes(newz) does not map newz to z", dict(newz=ax, got=[gz.x, gz.y, gz.z])))
        npy += 1
        c.count(("pyrotation", i % 20))
    c.cov["python_rotation_class_cases"] = npy
    # simulation / particle rotation = the vector rotation on every particle (positions and velocities),
    # energy and |L| preserved (oracle: exact rational kinetic energy and pair distances)
    nsim = 60 if c.thorough else 15
    for i in range(nsim):
        sim = rebound.Simulation()
        N = rng.randint(2, 6)
        for k in range(N):
            sim.add(m=rng.loguniform(1e-3, 1), x=rng.normal(), y=rng.normal(), z=rng.normal(), vx=rng.normal(), vy=rng.normal(), vz=rng.normal())
        if i % 3 == 0:
            sim.add_variation()
        pre = [(p.m, [p.x, p.y, p.z], [p.vx, p.vy, p.vz]) for p in sim.particles]
        E0 = sim.energy(); L0 = sim.angular_momentum()
        qv = runit(rng)
        r = mkq(qv)
        sim.rotate(r)
        E1 = sim.energy(); L1 = sim.angular_momentum()
        for k, p in enumerate(sim.particles):
            wantx = vl(F["vec3d_rotate"](V(*pre[k][1]), r)); wantv = vl(F["vec3d_rotate"](V(*pre[k][2]), r))
            if [d2h(x) for x in [p.x, p.y, p.z, p.vx, p.vy, p.vz]] != [d2h(x) for x in wantx + wantv]:
                c.corr_break("reb_simulation_irotate differs from reb_vec3d_rotate on particle %d of %d (N_var=%d)" % (k, sim.N, sim.N_var), dict(q=qv, pre=pre[k]))
        l0 = math.sqrt(sum(x * x for x in L0)); l1 = math.sqrt(sum(x * x for x in L1))
        note("sim_rotate_energy", abs(E1 - E0) / abs(E0))
        note("sim_rotate_|L|", abs(l1 - l0) / l0)
        Lr = vl(F["vec3d_rotate"](V(*L0), r))
        eL = max(abs(a - b) for a, b in zip(Lr, L1)) / l0
        note("sim_rotate_L_vector", eL)
        # pairwise distances, exact
        dmax = 0.0
        for a in range(N):
            for b in range(a):
                d0 = sum((Fr(x) - Fr(y)) ** 2 for x, y in zip(pre[a][1], pre[b][1]))
                pa, pb = sim.particles[a], sim.particles[b]
                d1 = sum((Fr(x) - Fr(y)) ** 2 for x, y in zip([pa.x, pa.y, pa.z], [pb.x, pb.y, pb.z]))
                dmax = max(dmax, abs(float(d1 - d0)) / float(d0))
        note("sim_rotate_pair_distance2", dmax)
        if not (abs(E1 - E0) <= 1e-12 * abs(E0) + 1e-13 and abs(l1 - l0) <= 1e-12 * l0 and dmax <= 1e-13 and eL <= 1e-12):
            fails.append(("sim-rotate", "Simulation.rotate changes energy / |L| / pair distances", dict(q=qv, pre=pre, dE=E1 - E0, dL=l1 - l0, dd=dmax)))
        c.count(("simrotate", N, i % 3))
    c.cov["rotation_worst_errors_measured"] = {k: float("%.3g" % v) for k, v in sorted(worst.items())}
    seen = set()
    for key, what, rep in fails:
        if key in seen:
            continue
        seen.add(key)
        c.violation(key, what, rep)
    c.cov["rotation_search_failures_by_key"] = {k: sum(1 for f in fails if f[0] == k) for k in seen}


def run(c):
    d = build()
    rebound = use_scratch_rebound(d)
    exe = lean_exe("drv_c20")
    rotations(c, rebound, exe)


if __name__ == "__main__":
    main("C20", run)
