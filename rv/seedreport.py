"""seeded/REPORT.md: which check catches which independently written breaking change"""
import json, os
ROOT = os.path.dirname(os.path.dirname(os.path.abspath(__file__)))
rows = []
for d in sorted(os.listdir(os.path.join(ROOT, "seeded"))):
    p = os.path.join(ROOT, "seeded", d)
    if not os.path.isfile(os.path.join(p, "meta.json")):
        continue
    m = json.load(open(os.path.join(p, "meta.json")))
    r = json.load(open(os.path.join(p, "result.json"))) if os.path.exists(os.path.join(p, "result.json")) else {}
    cells = []
    own = r.get("quick", {}).get(m["property"])
    owner_state = "notrun" if own is None else ("caught" if own["caught"] else "missed")
    for tier in ("quick", "thorough"):
        for pid, x in sorted(r.get(tier, {}).items()):
            cells.append("%s/%s: %s" % (pid, tier, ("caught — " + x["by"]) if x["caught"] else ("MISSED (rc %s)" % x["rc"])))
    if m.get("neutralised_by_fix"):
        owner_state = "neutralised"
        cells = ["no longer a violation on the repaired tree (" + m["neutralised_by_fix"][:160] + "…); was caught before the fix" ]
    rows.append((d, m["property"], ", ".join(m.get("files", [])), m.get("summary", "").replace("\n", " ").replace("|", "/")[:260],
                 m.get("needs", "").replace("\n", " ").replace("|", "/")[:260], "; ".join(cells) or "not run yet", owner_state))
out = ["# Seeded breaking changes (written by independent sub-agents that saw only the property text)", "",
       "Each change compiles, keeps the existing suite at 873 passed, and fails its own demo (confirmed by rv/seedconfirm.py in a scratch worktree; see meta.json `what_was_run`).",
       "Outcome of `rv/seedtest.py` (check run against a private copy of /repo with the patch applied):", "",
       "| id | property | files | change | needs | outcome |", "|---|---|---|---|---|---|"]
for r in rows:
    out.append("| %s | %s | %s | %s | %s | %s |" % r[:6])
# first-pass outcome (before anything was strengthened for that batch), recorded from batch 4 on
fp = {}
for d in sorted(os.listdir(os.path.join(ROOT, "seeded"))):
    f = os.path.join(ROOT, "seeded", d, "first_pass.json")
    if os.path.exists(f):
        m = json.load(open(os.path.join(ROOT, "seeded", d, "meta.json")))
        x = json.load(open(f)).get("quick", {}).get(m["property"])
        if x is not None:
            b = {"g": 4, "h": 4, "i": 5, "j": 5}.get(d[-1], 0)
            e = fp.setdefault(b, {"n": 0, "caught": 0, "failing_input": 0, "missed": []})
            e["n"] += 1
            if x["caught"]:
                e["caught"] += 1; e["failing_input"] += x["by"] == "failing-input"
            else:
                e["missed"].append(d)
if fp:
    out += ["", "## First-pass outcome per batch (owning quick check, before any strengthening for that batch)", "",
            "| batch | changes | caught | with failing input | missed |", "|---|---|---|---|---|"]
    for b in sorted(fp):
        e = fp[b]
        out.append("| %d | %d | %d | %d | %s |" % (b, e["n"], e["caught"], e["failing_input"], ", ".join(e["missed"]) or "—"))
n = len(rows); neut = sum(r[6] == "neutralised" for r in rows); c = sum(r[6] == "caught" for r in rows); miss = sum(r[6] == "missed" for r in rows)
out += ["", "%d changes; caught by the owning property's quick check: %d; missed: %d; neutralised by a later fix commit: %d; not run yet: %d" % (n, c, miss, neut, n - c - miss - neut)]
open(os.path.join(ROOT, "seeded", "REPORT.md"), "w").write("\n".join(out) + "\n")
print(out[-1])
