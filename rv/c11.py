"""C11 — orbital elements <-> Cartesian coordinates are consistent in both directions;
the C format-string front end and the Python constructor accept / reject the same
argument combinations and build the same particle.

proof:   lean/RV/Props/C11.lean  (front ends agree on all 2^28 presence patterns / differ
         exactly on the F18 class; rejection set of reb_particle_from_orbit_err; defining
         relations of the particle it returns over any field; mod2pi range; half-angle
         identities of E_to_f)
gen:     lean/RV/Gen/C11Args.lean regenerated from src/tools.c and rebound/particle.py
tie:     lean/RV/Model/Orbit.lean on IEEE doubles (drv_c11) vs the exported C functions
         (reb_mod2pi, reb_M_to_E, reb_E_to_f, reb_M_to_f, reb_particle_from_orbit_err,
         reb_orbit_from_particle_err, reb_tools_solve_kepler_pal, reb_particle_from_pal,
         reb_simulation_add_fmt), bit for bit; both validators vs the real front ends on
         every class of the presence summary
search:  element -> particle -> element round trips against an independent (perifocal
         frame + rotation matrices) oracle, ranges, defining relations, Kepler residuals,
         NaN particles from accepted input
"""
import ctypes, math, os, struct, sys, tempfile
sys.path.insert(0, os.path.dirname(os.path.abspath(__file__)))
from common import *
import extract_c11

D = ctypes.c_double
PI = math.pi
ARGS = extract_c11.ARGS
COMPS = ["x", "y", "z", "vx", "vy", "vz"]
ORB_FIELDS = ["d", "v", "h", "P", "n", "a", "e", "inc", "Omega", "omega", "pomega", "f", "M", "l", "theta",
              "T", "rhill", "pal_h", "pal_k", "pal_ix", "pal_iy"]
F18 = "C11:fmt-primary-with-pal-rejected"
F3 = "F3:M_to_E-hyperbolic-M0"
F15 = "F15:orbit-hyperbolic-pericentre-acosh"
F19 = "C11:a-zero-accepted"
F20 = "C11:pal-unbound-accepted"
F21 = "C11:asymptote-equality-accepted"
F22 = "C11:pal-kepler-lowe-unconverged"

DIM = {}
EXERCISED = set()


def exercised(*names):
    EXERCISED.update(names)



def dim(name, n=1):
    DIM[name] = DIM.get(name, 0) + n


APPLICABLE_DIMS = [
    "value_zero_or_signed_zero_argument", "value_int_argument", "value_none_for_absent_argument", "value_inf_argument",
    "G_not_1", "explicit_G_free_particle", "units_set", "primary_default_com", "primary_as_index", "primary_as_hash_string",
    "primary_as_particle", "N_active_lt_N", "massive_test_particle", "zero_mass_active_body", "jacobi_masses",
    "variational_particles_present", "hash_int", "hash_string", "readback_orbits_jacobi", "readback_orbits_heliocentric",
    "readback_orbits_jacobi_masses", "readback_particle_orbit_default", "readback_particle_orbit_primary", "readback_T_with_t_nonzero",
    "near_pericentre_1e-9_1e-4", "near_apocentre_1e-9_1e-4", "retrograde_planar", "angle_gt_2pi", "angle_negative", "M_lt_minus_2pi",
    "a_decades", "primary_offset_and_moving", "hyperbolic"]

PY_ERR = [("cannot mix Pal", 7), ("cartesian coordinates and orbital elements", 8),
          ("Need to specify simulation", 9), ("either a semimajor axis or orbital period to initialize", 10),
          ("but not both", 11), ("squared sum exceeds 4", 12), ("both omega and pomega", 13),
          ("Can only pass one longitude", 14), ("exactly to 1", 1), ("greater than or equal to zero", 2),
          ("Bound orbit (a > 0)", 3), ("Unbound orbit (a < 0)", 4), ("beyond the range", 5), ("no mass", 6)]


def ulps(a, b):
    if a != a and b != b:
        return 0
    if a != a or b != b or math.isinf(a) or math.isinf(b):
        return 0 if a == b else 1 << 62

    def key(x):
        i = struct.unpack("<q", struct.pack("<d", x))[0]
        return i if i >= 0 else -(i & 0x7FFFFFFFFFFFFFFF)
    return abs(key(a) - key(b))


def nextafter(x, k):
    for _ in range(abs(k)):
        x = math.nextafter(x, math.inf if k > 0 else -math.inf)
    return x


class CapStderr:
    """capture what C writes to fd 2 during one call (one scratch file, reused)"""
    _fd = None

    def __enter__(self):
        if CapStderr._fd is None:
            t = tempfile.TemporaryFile()
            CapStderr._fd = os.dup(t.fileno())
            t.close()
        sys.stderr.flush()
        os.ftruncate(CapStderr._fd, 0)
        os.lseek(CapStderr._fd, 0, os.SEEK_SET)
        self.saved = os.dup(2)
        os.dup2(CapStderr._fd, 2)
        return self

    def __exit__(self, *a):
        os.dup2(self.saved, 2)
        os.close(self.saved)
        n = os.lseek(CapStderr._fd, 0, os.SEEK_CUR)
        self.text = os.pread(CapStderr._fd, n, 0).decode("ascii", "replace")


# ------------------------------------------------------------------ independent oracle
def rot(Omega, inc, omega, v):
    """Rz(Omega) Rx(inc) Rz(omega) v"""
    x, y, z = v
    c, s = math.cos(omega), math.sin(omega)
    x, y = c * x - s * y, s * x + c * y
    c, s = math.cos(inc), math.sin(inc)
    y, z = c * y - s * z, s * y + c * z
    c, s = math.cos(Omega), math.sin(Omega)
    x, y = c * x - s * y, s * x + c * y
    return [x, y, z]


def kepler_to_cart(mu, a, e, inc, Omega, omega, f):
    """perifocal frame + three rotations (not REBOUND's expanded Murray&Dermott 2.122)"""
    p = a * (1 - e * e)
    r = p / (1 + e * math.cos(f))
    pos = [r * math.cos(f), r * math.sin(f), 0.0]
    k = math.sqrt(mu / p)
    vel = [-k * math.sin(f), k * (e + math.cos(f)), 0.0]
    return rot(Omega, inc, omega, pos) + rot(Omega, inc, omega, vel)


def solve_kepler(e, M):
    """elliptic: bisection-safeguarded Newton on E - e sin E = M, M reduced to [-pi,pi]"""
    M = math.remainder(M, 2 * PI)
    lo, hi = -PI, PI
    E = M if e < 0.8 else (PI if M > 0 else -PI)
    for _ in range(200):
        F = E - e * math.sin(E) - M
        if F > 0:
            hi = E
        else:
            lo = E
        dE = -F / (1 - e * math.cos(E))
        En = E + dE
        if not (lo <= En <= hi):
            En = 0.5 * (lo + hi)
        if abs(En - E) <= 1e-16 * max(1.0, abs(E)):
            E = En
            break
        E = En
    return E


def solve_kepler_hyp(e, M):
    """hyperbolic: e sinh H - H = M, safeguarded Newton"""
    if M == 0:
        return 0.0
    s = 1.0 if M > 0 else -1.0
    M = abs(M)
    lo, hi = 0.0, max(1.0, math.log(2 * M / e + 1.8) + 2.0)
    while e * math.sinh(hi) - hi < M:
        hi *= 2
    H = math.log(2 * M / e + 1.8)
    for _ in range(300):
        F = e * math.sinh(H) - H - M
        if F > 0:
            hi = H
        else:
            lo = H
        Hn = H - F / (e * math.cosh(H) - 1)
        if not (lo <= Hn <= hi):
            Hn = 0.5 * (lo + hi)
        if abs(Hn - H) <= 1e-16 * max(1.0, abs(H)):
            H = Hn
            break
        H = Hn
    return s * H


def f_of_E(e, E):
    if e < 1:
        return 2 * math.atan2(math.sqrt(1 + e) * math.sin(E / 2), math.sqrt(1 - e) * math.cos(E / 2))
    return 2 * math.atan2(math.sqrt(e + 1) * math.sinh(E / 2), math.sqrt(e - 1) * math.cosh(E / 2))


def E_of_f(e, f):
    if e < 1:
        return 2 * math.atan2(math.sqrt(1 - e) * math.sin(f / 2), math.sqrt(1 + e) * math.cos(f / 2))
    t = math.sqrt((e - 1) / (e + 1)) * math.tan(f / 2)
    return 2 * math.atanh(t)


def angdiff(a, b):
    return abs(math.remainder(a - b, 2 * PI))


def vec_elements(mu, s):
    """independent Cartesian -> (a, e, inc, h) through vectors"""
    x, y, z, vx, vy, vz = s
    r = math.sqrt(x * x + y * y + z * z)
    v2 = vx * vx + vy * vy + vz * vz
    hx, hy, hz = y * vz - z * vy, z * vx - x * vz, x * vy - y * vx
    h = math.sqrt(hx * hx + hy * hy + hz * hz)
    a = 1.0 / (2.0 / r - v2 / mu)
    ex = (vy * hz - vz * hy) / mu - x / r
    ey = (vz * hx - vx * hz) / mu - y / r
    ez = (vx * hy - vy * hx) / mu - z / r
    e = math.sqrt(ex * ex + ey * ey + ez * ez)
    inc = math.atan2(math.hypot(hx, hy), hz)
    return a, e, inc, h, r, math.sqrt(v2)


# ------------------------------------------------------------------ the check
def run(c):
    d = build()
    rebound = use_scratch_rebound(d)
    clib = rebound.clibrebound
    P = rebound.Particle
    c.cov["trusted_base"] = [
        "Lean 4.33 kernel", "Mathlib field_simp/ring/linear_combination/linarith (kernel-checked)",
        "correspondence drv_c11 vs compiled tools.c on generated inputs (differential test; Lean Float sin/cos/... call the same glibc libm)",
        "regex translator rv/extract_c11.py for the membership lists (its output is pinned by theorem c11_source_tables and by executing every class on both front ends)",
        "ctypes variadic call of reb_simulation_add_fmt on x86-64", "ctypes Particle/Orbit layouts (checked by C18)"]
    c.assumptions += [
        "theorems about the particle returned by reb_particle_from_orbit_err are exact-arithmetic statements with abstract cos/sin values satisfying c^2+s^2=1 and v0^2 equal to the sqrt argument; IEEE rounding and libm accuracy are only measured by the search",
        "convergence of the Newton iterations (M_to_E, Pal solver) is not proved; residuals are measured",
        "argument values are not NaN (the C front end uses NaN as 'absent'); Python-only arguments (particle, variation, date, jacobi_masses, pal_* aliases, 'uniform') are outside the front-end comparison"]

    # ---------------------------------------------------------------- translator
    try:
        text, info = extract_c11.generate(REPO)
        write_if_changed(os.path.join(LEAN, "RV", "Gen", "C11Args.lean"), text)
        c.cov["extracted"] = {"c_increments": info["c_increments"], "py_entries": info["py_entries"],
                              "c_tokens": len(info["c_tokens"]), "c_error_strings": len(info["c_errors"]),
                              "repaired_statements_recognised": info["variant"]}
        want_tokens = set(ARGS[1:])
        if set(info["c_tokens"]) != want_tokens:
            c.broken.append("translator: C format tokens changed: %s" % sorted(set(info["c_tokens"]) ^ want_tokens))
        if not want_tokens <= set(info["py_kwargs"]) or "simulation" not in info["py_kwargs"]:
            c.broken.append("translator: Particle.__init__ keyword arguments changed: missing %s" % sorted(want_tokens - set(info["py_kwargs"])))
        if sorted(info["c_errors"]) != list(range(1, 15)):
            c.broken.append("translator: error strings 1..14 not all found")
        if info["c_increments"] < 40 or info["py_entries"] < 40:
            c.broken.append("translator: fewer list entries than expected (%d, %d)" % (info["c_increments"], info["py_entries"]))
    except extract_c11.ExtractError as e:
        info = None
        c.broken.append("translator: " + str(e))
    c_err_by_msg = dict((v, k) for k, v in info["c_errors"].items()) if info else {}

    c.prove(["RV.Props.C11"])
    exe = lean_exe("drv_c11")

    clib.reb_mod2pi.restype = D
    clib.reb_M_to_E.restype = D
    clib.reb_E_to_f.restype = D
    clib.reb_M_to_f.restype = D
    clib.reb_particle_from_orbit_err.restype = P
    clib.reb_particle_from_pal.restype = P
    clib.reb_orbit_from_particle_err.restype = rebound.Orbit
    clib.reb_simulation_com.restype = P
    clib.reb_particle_from_fmt.restype = P
    clib.reb_simulation_add_fmt.restype = None
    libm = ctypes.CDLL("libm.so.6")
    libm.fmod.restype = D
    libm.fmod.argtypes = [D, D]

    rng = c.rng
    lines, expect, meta = [], [], []   # model line, expected tokens (list), (kind, tolerance class, detail)

    def add(line, exp, kind, detail=None):
        lines.append(line)
        expect.append(exp)
        meta.append((kind, detail))

    def mkpart(vals):
        p = P()
        for k, v in zip(COMPS + ["m"], vals):
            setattr(p, k, v)
        return p

    def phex(vals):
        return " ".join(d2h(v) for v in vals)

    def pvals(p):
        return [p.x, p.y, p.z, p.vx, p.vy, p.vz, p.m]

    thorough = c.thorough
    NS = 20000 if thorough else 1200
    searchfail = []   # (key, what, replay)

    def fail(key, what, replay):
        searchfail.append((key, what, replay))

    # ---------------------------------------------------------------- tie A: scalar functions
    specials = [0.0, -0.0, PI, -PI, 2 * PI, -2 * PI, 4 * PI, 1e-300, -1e-300, 5e-324, 1e-17, -1e-17, 1.0, -1.0,
                6.283185307179586, 6.283185307179587, 6.283185307179585, 1e10, -1e10, 1e16, 1e300, -1e300,
                3.0, -3.0, 100 * PI, -100 * PI, float("inf"), float("-inf"), float("nan")]
    xs = list(specials)
    for _ in range(NS):
        k = rng.randint(0, 5)
        if k == 0:
            xs.append(rng.uniform(-10, 10))
        elif k == 1:
            xs.append(rng.uniform(-1, 1) * 10 ** rng.uniform(-20, 20))
        elif k == 2:
            xs.append(2 * PI * rng.randint(-50, 50))
        elif k == 3:
            xs.append(nextafter(2 * PI * rng.randint(-5, 5), rng.randint(-3, 3)))
        elif k == 4:
            xs.append(rng.uniform(-1, 1) * 10 ** rng.uniform(0, 300))
        else:
            xs.append(PI * rng.randint(-9, 9))
    for x in xs:
        add("mod2pi " + d2h(x), [d2h(clib.reb_mod2pi(D(x)))], "mod2pi", x)
        y = rng.choice([2 * PI, 2 * PI, rng.uniform(-5, 5), 10 ** rng.uniform(-300, 300), 5e-324, 1.0])
        add("fmod %s %s" % (d2h(x), d2h(y)), [d2h(libm.fmod(x, y))], "fmod", (x, y))
        c.count(("mod2pi", "special" if x in specials else "rand"), nontrivial=not (x != x))
        r = clib.reb_mod2pi(D(x))
        if math.isfinite(x) and not (0.0 <= r < 2 * PI):
            fail("mod2pi-range", "reb_mod2pi returns a value outside [0, 2pi)", dict(x=x, got=r))

    def rand_e_ell():
        k = rng.randint(0, 6)
        return [0.0, rng.uniform(0, 0.8), rng.uniform(0.8, 1), 1 - 10 ** rng.uniform(-12, -1), 0.8,
                nextafter(0.8, rng.randint(-2, 2)), 10 ** rng.uniform(-18, -2)][k]

    def rand_e_hyp():
        k = rng.randint(0, 4)
        return [1 + 10 ** rng.uniform(-12, -1), rng.uniform(1, 3), 10 ** rng.uniform(0, 4), nextafter(1.0, rng.randint(1, 3)), 2.0][k]

    def near(x0):
        """within 1e-9 .. 1e-4 rad of x0 (pericentre / apocentre passages)"""
        return x0 + rng.choice([1, -1]) * 10 ** rng.uniform(-9, -4)

    def rand_M():
        k = rng.randint(0, 10)
        return [0.0, PI, -PI, rng.uniform(-10, 10), 2 * PI * rng.randint(-20, 20), rng.uniform(-1, 1) * 10 ** rng.uniform(-18, 12),
                nextafter(PI * rng.randint(-4, 4), rng.randint(-2, 2)), rng.uniform(0, 2 * PI),
                near(0.0), near(PI), -rng.uniform(2 * PI, 50)][k]

    worst = {}

    def track(k, v):
        if v == v:
            worst[k] = max(worst.get(k, 0.0), v)

    kep_hist = {}
    for i in range(NS * 2):
        hyp = (i % 3 == 2)
        e = rand_e_hyp() if hyp else rand_e_ell()
        M = rand_M()
        if hyp and rng.chance(0.5):
            M = rng.uniform(-1, 1) * 10 ** rng.uniform(-10, 6)
        E = clib.reb_M_to_E(D(e), D(M))
        add("m2e %s %s" % (d2h(e), d2h(M)), [d2h(E)], "m2e", (e, M))
        ff = clib.reb_M_to_f(D(e), D(M))
        add("m2f %s %s" % (d2h(e), d2h(M)), [d2h(ff)], "m2f", (e, M))
        E2 = rng.uniform(-8, 8) if not hyp else rng.uniform(-20, 20)
        if rng.chance(0.1):
            E2 = rng.choice([0.0, PI, -PI, 2 * PI])
        elif rng.chance(0.25):
            E2 = near(0.0) if (hyp or rng.chance(0.5)) else near(PI * rng.choice([1, -1, 3]))
        if abs(math.remainder(E2, 2 * PI)) < 2e-4 and E2 != 0:
            dim("near_pericentre_1e-9_1e-4")
        if abs(abs(math.remainder(E2, 2 * PI)) - PI) < 2e-4 and abs(math.remainder(E2, 2 * PI)) != PI:
            dim("near_apocentre_1e-9_1e-4")
        if M < -2 * PI:
            dim("M_lt_minus_2pi")
        add("e2f %s %s" % (d2h(e), d2h(E2)), [d2h(clib.reb_E_to_f(D(e), D(E2)))], "e2f", (e, E2))
        c.count(("kepler", hyp, M == 0, abs(M) > 100, e > 0.8))
        kep_hist["hyp" if hyp else "ell"] = kep_hist.get("hyp" if hyp else "ell", 0) + 1
        # search: Kepler residual
        if hyp:
            if E != E:
                if M == 0:
                    fail(F3, "reb_M_to_E(e>1, M=0) returns NaN (M/fabs(M))", dict(e=e, M=M))
                else:
                    fail("M_to_E-hyperbolic-nan", "reb_M_to_E returns NaN on a hyperbolic orbit with M != 0", dict(e=e, M=M))
            else:
                res = abs(e * math.sinh(E) - E - M)
                scale = max(1.0, abs(M), abs(E))
                track("kepler_hyp_residual_rel", res / scale)
                if not res <= 1e-12 * scale:
                    fail("M_to_E-hyperbolic-residual", "reb_M_to_E does not satisfy e sinh E - E = M", dict(e=e, M=M, E=E, residual=res))
        else:
            res = abs(math.remainder(E - e * math.sin(E) - M, 2 * PI)) if math.isfinite(E) else float("nan")
            tol = 1e-13 + 8 * 2.3e-16 * abs(M)
            track("kepler_ell_residual_over_tol", res / tol)
            if not res <= tol:
                fail("M_to_E-elliptic-residual", "reb_M_to_E does not satisfy E - e sin E = M (mod 2pi)", dict(e=e, M=M, E=E, residual=res))
            if not (0.0 <= E < 2 * PI):
                fail("M_to_E-range", "reb_M_to_E (e<1) outside [0,2pi)", dict(e=e, M=M, E=E))
        # E_to_f against the atan2 half-angle form
        fE = clib.reb_E_to_f(D(e), D(E2))
        if e != 1.0 and math.isfinite(fE):
            want = f_of_E(e, E2)
            cond = math.sqrt((1 + e) / abs(1 - e))
            if angdiff(fE, want) > 1e-13 * max(1.0, cond) + 4e-16 * abs(E2) * cond:
                fail("E_to_f-halfangle", "reb_E_to_f disagrees with the half-angle relation", dict(e=e, E=E2, got=fE, want=want))
            track("E_to_f_diff", angdiff(fE, want) / max(1.0, cond))

    # ---------------------------------------------------------------- tie B: reb_particle_from_orbit_err
    def rand_primary(big=False):
        s = 10 ** rng.uniform(-3, 3) if big else 1.0
        if rng.chance(0.3):
            return [0.0] * 6 + [10 ** rng.uniform(-3, 3)]
        return [rng.normal() * s for _ in range(3)] + [rng.normal() * 0.3 for _ in range(3)] + [10 ** rng.uniform(-3, 3)]

    def rand_angle():
        k = rng.randint(0, 9)
        x = [0.0, rng.uniform(0, 2 * PI), rng.uniform(-20, 20), 2 * PI * rng.randint(-3, 3), PI * rng.randint(-3, 3) / 2,
             rng.uniform(-1e-7, 1e-7), PI, near(0.0), near(PI), rng.uniform(2 * PI, 400) * rng.choice([1, -1])][k]
        if x > 2 * PI:
            dim("angle_gt_2pi")
        if x < 0:
            dim("angle_negative")
        return x

    def rand_inc():
        k = rng.randint(0, 7)
        return [0.0, PI, PI / 2, rng.uniform(0, PI), rng.uniform(0, PI), 10 ** rng.uniform(-12, -6), PI - 10 ** rng.uniform(-12, -6),
                rng.uniform(0, 0.1)][k]

    def rand_orbit(kind=None):
        """valid classical elements; kind in ell/hyp"""
        kind = kind or rng.choice(["ell", "ell", "hyp"])
        G = rng.choice([1.0, 1.0, 6.674e-11, 39.476926421373, 10 ** rng.uniform(-3, 3)])
        pr = rand_primary()
        m = rng.choice([0.0, 10 ** rng.uniform(-12, 0) * pr[6]])
        if kind == "ell":
            a = 10 ** rng.uniform(-6, 6)
            e = rng.choice([0.0, rng.uniform(0, 0.99), 10 ** rng.uniform(-12, -5), 1 - 10 ** rng.uniform(-6, -1), rng.uniform(0, 0.5),
                            10 ** rng.uniform(-9.5, -8.05)])
            f = rand_angle()
        else:
            a = -10 ** rng.uniform(-6, 6)
            e = rng.choice([1 + 10 ** rng.uniform(-6, 0), rng.uniform(1.01, 5), 10 ** rng.uniform(0.1, 3)])
            fmax = math.acos(-1 / e)
            f = rng.choice([0.0, rng.uniform(-0.95, 0.95) * fmax, rng.uniform(-0.999999, 0.999999) * fmax, 2 * PI * rng.randint(-2, 2)])
        return G, pr, m, a, e, rand_inc(), rand_angle(), rand_angle(), f

    def call_from_orbit(G, pr, m, a, e, inc, Om, om, f):
        err = ctypes.c_int(0)
        p = clib.reb_particle_from_orbit_err(D(G), mkpart(pr), D(m), D(a), D(e), D(inc), D(Om), D(om), D(f), ctypes.byref(err))
        return err.value, p

    fo_hist = {}

    def tie_from_orbit(G, pr, m, a, e, inc, Om, om, f, tag):
        err, p = call_from_orbit(G, pr, m, a, e, inc, Om, om, f)
        exp = ["E%d" % err] if err else [d2h(v) for v in pvals(p)]
        add("fo %s %s %s" % (d2h(G), phex(pr), phex([m, a, e, inc, Om, om, f])), exp, "fo", dict(G=G, primary=pr, m=m, a=a, e=e, inc=inc, Omega=Om, omega=om, f=f, tag=tag))
        fo_hist[err] = fo_hist.get(err, 0) + 1
        if err == 0:
            a_decades.add(int(math.floor(math.log10(abs(a)))))
            if inc == PI:
                dim("retrograde_planar")
            if e > 1:
                dim("hyperbolic")
            if any(pr[:6]):
                dim("primary_offset_and_moving")
            if G != 1.0:
                dim("G_not_1")
            fr = abs(math.remainder(f, 2 * PI))
            if 0 < fr < 2e-4:
                dim("near_pericentre_1e-9_1e-4")
            if 0 < abs(fr - PI) < 2e-4:
                dim("near_apocentre_1e-9_1e-4")
        c.count(("fo", tag, err, inc in (0.0, PI), e < 1e-5), nontrivial=True)
        return err, p

    for i in range(NS):
        tie_from_orbit(*rand_orbit(), tag="valid")
    # every rejection branch and its boundary
    for i in range(NS // 3):
        G, pr, m, a, e, inc, Om, om, f = rand_orbit("ell")
        k = i % 14
        if k == 12:
            a = rng.choice([0.0, -0.0])                   # a == 0 with e < 1
        elif k == 13:
            a, e = rng.choice([0.0, -0.0]), rng.uniform(1.01, 3)
        elif k == 0:
            e = 1.0
        elif k == 1:
            e = -10 ** rng.uniform(-300, 1)
        elif k == 2:
            e = rng.uniform(1.0, 3.0) if rng.chance(0.7) else nextafter(1.0, 1)          # a>0, e>1
        elif k == 3:
            a = -a                                                                        # a<0, e<1
        elif k == 4:
            a, e = -a, rng.uniform(1.01, 4)
            fmax = math.acos(-1 / e)
            f = rng.choice([PI, fmax * rng.uniform(1.0001, 1.5), -fmax * 1.01, nextafter(fmax, rng.randint(-6, 6))])
        elif k == 5:
            pr[6] = rng.choice([0.0, 1e-309, -1.0, 5e-324, 0.999e-308, 1e-308, nextafter(1e-308, 1), nextafter(1e-308, -1)])
        elif k == 6:
            e = nextafter(1.0, -rng.randint(1, 3))
        elif k == 7:
            a, e = -a, nextafter(1.0, rng.randint(1, 3))
            f = 0.0
        elif k == 8:
            e = -0.0
        elif k == 9:
            e, a = 1.0, -a             # first-match order: e==1 wins over everything
            pr[6] = 0.0
        elif k == 10:
            e, pr[6] = -0.5, 0.0       # e<0 wins over massless primary
        else:
            a, e, f = -a, 2.0, PI      # f range wins over massless primary
            pr[6] = 0.0
        tie_from_orbit(G, pr, m, a, e, inc, Om, om, f, tag="reject%d" % k)

    # ---------------------------------------------------------------- tie C: reb_orbit_from_particle_err + round trip search
    def call_orbit(G, pvals_, pr, t0=None):
        err = ctypes.c_int(0)
        o = clib.reb_orbit_from_particle_err(D(G), mkpart(pvals_), mkpart(pr), ctypes.byref(err))
        return err.value, o

    def orbit_tokens(o):
        return [d2h(getattr(o, k)) for k in ORB_FIELDS] + [d2h(o.hvec.x), d2h(o.hvec.y), d2h(o.hvec.z),
                                                           d2h(o.evec.x), d2h(o.evec.y), d2h(o.evec.z)]

    op_hist = {}
    rt_hist = {}

    def check_reader(G, pv, pr, src, want=None):
        """tie + search on one particle. want = (a,e,inc,Omega,omega,f) it was built from (or None)"""
        err, o = call_orbit(G, pv, pr)
        exp = ["E%d" % err] if err else orbit_tokens(o)
        add("op %s %s %s %s" % (d2h(G), d2h(0.0), phex(pv), phex(pr)), exp, "op", dict(G=G, p=pv, primary=pr, src=src))
        op_hist[err] = op_hist.get(err, 0) + 1
        if err:
            return
        mu = G * (pv[6] + pr[6])
        rel = [pv[i] - pr[i] for i in range(6)]
        rs = math.sqrt(sum(x * x for x in rel[:3]))
        vs = math.sqrt(sum(x * x for x in rel[3:]))
        if not (mu > 0 and rs > 0):
            return
        oa, oe, oinc, oh, orr, ov = vec_elements(mu, rel)
        hyp = o.e >= 1
        branch = ("hyp" if hyp else "ell", "planar" if (o.inc < 1e-8 or o.inc > PI - 1e-8) else "inclined",
                  "retro" if o.inc >= PI / 2 else "pro", "circ" if o.e <= 1e-8 else "ecc")
        rt_hist["/".join(branch)] = rt_hist.get("/".join(branch), 0) + 1
        c.count(("reader",) + branch + (src,))
        rep = dict(G=G, p=pv, primary=pr, src=src, built_from=want)
        # NaN outputs
        nan_fields = [k for k in ORB_FIELDS if getattr(o, k) != getattr(o, k)]
        if o.inc > PI - 1e-6:     # Pal's variables are singular at inc = pi (h + hz = 0): not counted
            nan_fields = [k for k in nan_fields if not k.startswith("pal_")]
        if nan_fields:
            if hyp and set(nan_fields) <= {"M", "l", "T"}:
                fail(F15, "reb_orbit_from_particle: NaN M/l/T on a hyperbolic orbit at pericentre (acosh of 1-eps)", rep)
            elif set(nan_fields) <= {"rhill"} and pv[6] < 0:
                pass
            else:
                fail("orbit-nan:" + ",".join(nan_fields[:3]), "reb_orbit_from_particle returns NaN elements %s for a regular particle" % nan_fields, rep)
        # ranges
        for k in ("f", "l", "M", "theta", "omega"):
            v = getattr(o, k)
            if v == v and not (0.0 <= v < 2 * PI):
                fail("orbit-range-" + k, "reported %s outside [0,2pi)" % k, dict(rep, value=v))
        if not (0.0 <= o.inc <= PI) or not (o.e >= 0) or not (o.d > 0):
            fail("orbit-range-inc-e-d", "reported inc/e/d out of range", dict(rep, inc=o.inc, e=o.e, d=o.d))
        # defining relations against the vector oracle
        cond_a = max(1.0, abs(oa) / orr, orr / abs(oa))       # a = 1/(2/r - v^2/mu) loses digits when |a| >> r; the e-vector when r >> |a|
        if not abs(o.a - oa) <= 1e-9 * abs(oa) * cond_a:
            fail("orbit-a", "reported a violates vis-viva", dict(rep, got=o.a, want=oa))
        track("a_rel", abs(o.a - oa) / abs(oa) / cond_a)
        if not abs(o.e - oe) <= 1e-9 * max(1.0, oe) * cond_a:
            fail("orbit-e", "reported e is not |e-vector|", dict(rep, got=o.e, want=oe))
        if not abs(o.h - oh) <= 1e-12 * max(oh, rs * vs):
            fail("orbit-h", "reported h is not |r x v|", dict(rep, got=o.h, want=oh))
        if oh > 1e-9 * rs * vs and not abs(o.inc - oinc) <= 1e-7:
            fail("orbit-inc", "reported inc is not angle(h, z)", dict(rep, got=o.inc, want=oinc))
        if not abs(o.d - orr) <= 1e-13 * orr or not abs(o.v - ov) <= 1e-13 * max(ov, 1e-300):
            fail("orbit-d-v", "reported d/v wrong", dict(rep))
        if oh > 1e-9 * rs * vs:
            p_sl = oh * oh / mu
            if not abs(o.a * (1 - o.e * o.e) - p_sl) <= 1e-8 * p_sl * cond_a * max(1.0, 1.0 / abs(1 - o.e)):
                fail("orbit-h2", "h^2 != mu a (1-e^2) for the reported elements", dict(rep, got=o.a * (1 - o.e * o.e), want=p_sl))
        if o.a == o.a and o.a != 0:
            n_want = math.copysign(math.sqrt(mu / abs(o.a) ** 3), o.a)
            if not abs(o.n - n_want) <= 1e-12 * abs(n_want) or not abs(o.P * o.n - 2 * PI) <= 1e-12:
                fail("orbit-n-P", "reported n/P violate n^2 |a|^3 = mu, P n = 2 pi", dict(rep, n=o.n, P=o.P))
        well = oh > 1e-7 * rs * vs and abs(1 - o.e) > 1e-7
        if not well:
            return
        # angle relations of the branch the reported inclination selects
        pro = o.inc < PI / 2
        sgn = 1.0 if pro else -1.0
        atol = 1e-6
        if abs(o.inc - PI / 2) > 1e-7:
            if angdiff(o.pomega, o.Omega + sgn * o.omega) > atol:
                fail("orbit-pomega", "pomega != Omega +- omega", dict(rep, pomega=o.pomega, Omega=o.Omega, omega=o.omega))
            if angdiff(o.theta, o.Omega + sgn * (o.omega + o.f)) > atol:
                fail("orbit-theta", "theta != Omega +- (omega + f)", dict(rep, theta=o.theta))
            # (far out on a hyperbola |M| = |n T| >> 1 and its reduction mod 2 pi carries no digits: not comparable)
            if o.e > 1e-6 and o.M == o.M and not (hyp and abs(o.n * o.T) > 1e6) and angdiff(o.l, o.Omega + sgn * (o.omega + o.M)) > atol:
                fail("orbit-l", "l != Omega +- (omega + M)", dict(rep, l=o.l, M=o.M))
        # near-circular branch (e <= 1e-8): l = theta -+ 2 e sin f, with e sin f = vr h / mu and theta from atan2
        if 1e-10 <= o.e <= 1e-8 and o.l == o.l:
            vr_ = (rel[0] * rel[3] + rel[1] * rel[4] + rel[2] * rel[5]) / rs
            esinf = vr_ * oh / mu
            hx_, hy_, hz_ = rel[1] * rel[5] - rel[2] * rel[4], rel[2] * rel[3] - rel[0] * rel[5], rel[0] * rel[4] - rel[1] * rel[3]
            if math.hypot(hx_, hy_) > 1e-6 * oh:
                Om_ = math.atan2(hx_, -hy_)
                # argument of latitude u: position in the node frame
                cu = (rel[0] * math.cos(Om_) + rel[1] * math.sin(Om_)) / rs
                su = rel[2] / (rs * math.sin(oinc)) if abs(math.sin(oinc)) > 1e-3 else None
                th_ = (Om_ + sgn * math.atan2(su, cu)) if su is not None else None
            else:
                th_ = math.atan2(rel[1], rel[0])
            if th_ is not None and abs(o.inc - PI / 2) > 1e-3:
                # acos2-based angles of the implementation lose accuracy near 0 and pi: only compare when theta is well conditioned
                well_th = abs(math.sin(o.theta)) > 0.05 and abs(math.sin(o.Omega)) > 0.05 and abs(math.sin(math.remainder(o.theta - o.Omega, 2 * PI))) > 0.05
                lw = th_ - sgn * 2 * esinf
                if well_th and angdiff(o.l, lw) > 2e-10:
                    fail("orbit-l-circular", "near-circular orbit (e<=1e-8): reported l is not theta -+ 2 e sin f", dict(rep, l=o.l, want=math.remainder(lw, 2 * PI) % (2 * PI), e=o.e))
                if well_th:
                    track("l_circular", angdiff(o.l, lw))
        # M vs f (Kepler's equation through the oracle's half-angle form)
        if o.M == o.M and o.e > 1e-6:
            if not hyp:
                Eo = E_of_f(o.e, o.f)
                Mo = Eo - o.e * math.sin(Eo)
                condM = 1.0 / (1 - o.e) ** 1.5
                # M comes from acos((1-d/a)/e): near E = 0, pi the error is sqrt(2 eps/e)
                tolM = 1e-8 * condM + 4 * math.sqrt(2.3e-16 * max(1.0, 1 / o.e) * cond_a) + 4e-8 * (orr / abs(o.a)) ** 2 / math.sqrt(1 - o.e * o.e)
                if angdiff(o.M, Mo) > tolM:
                    fail("orbit-M", "reported M and f violate Kepler's equation", dict(rep, M=o.M, f=o.f, want=Mo))
                if angdiff(o.n * (0.0 - o.T), o.M) > 1e-9 * max(1.0, abs(o.n * o.T)):
                    fail("orbit-T", "n (t - T) != M", dict(rep, T=o.T, M=o.M, n=o.n))
            else:
                fm = math.remainder(o.f, 2 * PI)
                if abs(fm) < math.acos(-1 / o.e) * (1 - 1e-6):
                    Ho = E_of_f(o.e, fm)
                    Mo = o.e * math.sinh(Ho) - Ho
                    Mrep = abs(o.n) * (0.0 - o.T)      # M = |n| (t - T), t = 0
                    # H comes from acosh((1-d/a)/e): near pericentre the error is sqrt(2 eps), times dM/dH = e cosh H - 1
                    tolH = 1e-7 * max(1.0, abs(Mo)) * max(1.0, 1 / (o.e - 1) ** 1.5) + 8 * o.e * math.cosh(Ho) * math.sqrt(2.3e-16 * cond_a)
                    # the reported f is a difference of acos2 values, each good to sqrt(2 eps) ~ 2e-8 near 0 and pi
                    dMdf = (orr / abs(o.a)) ** 2 / math.sqrt(o.e * o.e - 1)
                    tolH += 4e-8 * dMdf
                    if not abs(Mrep - Mo) <= tolH:
                        fail("orbit-T-hyp", "hyperbolic |n| (t - T) != e sinh H - H", dict(rep, T=o.T, want=Mo, got=Mrep))
        # same orbit: rebuild from the reported classical elements with the oracle
        if o.f == o.f:
            back = kepler_to_cart(mu, o.a, o.e, o.inc, o.Omega, o.omega, o.f)
            cond = cond_a * max(1.0, 1.0 / abs(1 - o.e)) * max(1.0, o.e * abs(math.sin(o.f)) / max(1 + o.e * math.cos(o.f), 1e-300))
            errp = max(abs(back[i] - rel[i]) for i in range(3)) / rs
            errv = max(abs(back[i] - rel[i]) for i in range(3, 6)) / max(vs, 1e-300)
            track("rebuild_pos", errp / cond)
            track("rebuild_vel", errv / cond)
            if not (errp <= 1e-6 * cond and errv <= 1e-6 * cond):
                fail("roundtrip-cartesian:" + "/".join(branch), "particle rebuilt from the reported (a,e,inc,Omega,omega,f) is a different state",
                     dict(rep, reported=dict(a=o.a, e=o.e, inc=o.inc, Omega=o.Omega, omega=o.omega, f=o.f), errp=errp, errv=errv))
        return o

    for i in range(NS):
        G, pr, m, a, e, inc, Om, om, f = rand_orbit()
        err, p = call_from_orbit(G, pr, m, a, e, inc, Om, om, f)
        if err == 0:
            pv = pvals(p)
            if all(math.isfinite(v) for v in pv):
                # constructor against the oracle
                mu = G * (m + pr[6])
                want = kepler_to_cart(mu, a, e, inc, Om, om, f)
                rs = math.sqrt(sum((pv[j] - pr[j]) ** 2 for j in range(3)))
                vs = math.sqrt(sum((pv[j] - pr[j]) ** 2 for j in range(3, 6)))
                condc = max(1.0, abs(f)) * (1.0 + (e * abs(math.sin(f)) / (1 + e * math.cos(f)) if 1 + e * math.cos(f) > 0 else 0))
                ep = max(abs(pv[j] - pr[j] - want[j]) for j in range(3)) / max(rs, 1e-300)
                ev = max(abs(pv[j] - pr[j] - want[j]) for j in range(3, 6)) / max(vs, 1e-300)
                track("constructor_pos", max(0.0, ep - 8 * 2.3e-16 * max(abs(x) for x in pr[:3]) / max(rs, 1e-300)) / condc)
                track("constructor_vel", max(0.0, ev - 8 * 2.3e-16 * max(abs(x) for x in pr[3:6]) / max(vs, 1e-300)) / condc)
                offp = 8 * 2.3e-16 * max(abs(x) for x in pr[:3]) / max(rs, 1e-300)     # p.x = primary.x + r*(..) rounds at the size of primary.x
                offv = 8 * 2.3e-16 * max(abs(x) for x in pr[3:6]) / max(vs, 1e-300)
                if not (ep <= 1e-11 * condc + offp and ev <= 1e-11 * condc + offv):
                    fail("from_orbit-vs-oracle", "reb_particle_from_orbit disagrees with the rotation-matrix construction",
                         dict(G=G, primary=pr, m=m, a=a, e=e, inc=inc, Omega=Om, omega=om, f=f, ep=ep, ev=ev))
                check_reader(G, pv, pr, "from_orbit", (a, e, inc, Om, om, f))
            else:
                fail("from_orbit-nonfinite", "reb_particle_from_orbit accepted valid elements but returned a non-finite particle",
                     dict(G=G, primary=pr, m=m, a=a, e=e, inc=inc, Omega=Om, omega=om, f=f))
    # random Cartesian states and degenerate ones
    for i in range(NS // 2):
        G = rng.choice([1.0, 10 ** rng.uniform(-3, 3)])
        pr = rand_primary()
        s = 10 ** rng.uniform(-3, 3)
        vsc = math.sqrt(G * pr[6] / s)
        k = i % 8
        pos = [rng.normal() * s for _ in range(3)]
        vel = [rng.normal() * vsc * rng.choice([0.3, 1.0, 2.0]) for _ in range(3)]
        if k == 1:
            pos[2] = 0.0; vel[2] = 0.0                       # exactly planar
        elif k == 2:
            pos = [s, 0.0, 0.0]; vel = [0.0, vsc, 0.0]       # circular planar
        elif k == 3:
            pos = [s, 0.0, 0.0]; vel = [0.0, -vsc, 0.0]      # circular retrograde
        elif k == 4:
            pos = [0.0, 0.0, 0.0]; vel = [0.0, 0.0, 0.0]     # on top of primary
        elif k == 5:
            vel = [p_ * rng.uniform(0.1, 1) * vsc / s for p_ in pos]   # radial
        elif k == 6:
            pr[6] = rng.choice([0.0, 1e-308, 5e-324])
        pv = [pr[j] + (pos + vel)[j] for j in range(6)] + [rng.choice([0.0, pr[6] * 1e-3])]
        if k == 4:
            pv[:6] = pr[:6]
        check_reader(G, pv, pr, "cart%d" % k)

    # ---------------------------------------------------------------- tie D: Pal
    pal_hist = {}
    for i in range(NS):
        G = rng.choice([1.0, 10 ** rng.uniform(-3, 3)])
        pr = rand_primary()
        m = rng.choice([0.0, 1e-3 * pr[6]])
        a = 10 ** rng.uniform(-3, 3)
        e = rng.choice([0.0, rng.uniform(0, 0.3), rng.uniform(0.3, 0.95), 0.3, 10 ** rng.uniform(-10, -3)])
        pom = rand_angle()
        h, k = e * math.sin(pom), e * math.cos(pom)
        inc = rand_inc()
        if inc > PI - 1e-3:
            inc = rng.uniform(0, 3.0)
        Om = rand_angle()
        ix, iy = 2 * math.sin(inc / 2) * math.cos(Om), 2 * math.sin(inc / 2) * math.sin(Om)
        lam = rand_angle()
        pp, qq = D(0), D(0)
        clib.reb_tools_solve_kepler_pal(D(h), D(k), D(lam), ctypes.byref(pp), ctypes.byref(qq))
        add("kpal %s" % phex([h, k, lam]), [d2h(pp.value), d2h(qq.value)], "kpal", dict(h=h, k=k, l=lam))
        p = clib.reb_particle_from_pal(D(G), mkpart(pr), D(m), D(a), D(lam), D(k), D(h), D(ix), D(iy))
        add("pal %s %s %s" % (d2h(G), phex(pr), phex([m, a, lam, k, h, ix, iy])), [d2h(v) for v in pvals(p)], "pal",
            dict(G=G, primary=pr, m=m, a=a, l=lam, k=k, h=h, ix=ix, iy=iy))
        pal_hist["low_e" if e * e < 0.09 else "high_e"] = pal_hist.get("low_e" if e * e < 0.09 else "high_e", 0) + 1
        c.count(("pal", e * e < 0.09, e == 0, inc == 0))
        pv = pvals(p)
        rep = dict(G=G, primary=pr, m=m, a=a, l=lam, k=k, h=h, ix=ix, iy=iy)
        if not all(math.isfinite(v) for v in pv):
            fail("from_pal-nonfinite", "reb_particle_from_pal returns a non-finite particle for valid Pal elements", rep)
            continue
        # reb_tools_particle_to_pal (used by derivatives.c): tie + inverse of the constructor
        oa_, ol_, ok_, oh_, oix_, oiy_ = D(0), D(0), D(0), D(0), D(0), D(0)
        clib.reb_tools_particle_to_pal(D(G), p, mkpart(pr), ctypes.byref(oa_), ctypes.byref(ol_), ctypes.byref(ok_), ctypes.byref(oh_),
                                       ctypes.byref(oix_), ctypes.byref(oiy_))
        exercised("reb_tools_particle_to_pal", "reb_particle_from_pal", "reb_tools_solve_kepler_pal")
        add("p2pal %s %s %s" % (d2h(G), phex(pv), phex(pr)), [d2h(x.value) for x in (oa_, ol_, ok_, oh_, oix_, oiy_)], "p2pal", rep)
        if inc < PI - 1e-3 and e < 0.95 and abs(pp.value - (k * math.sin(lam + pp.value) - h * math.cos(lam + pp.value))) <= 1e-12:
            condp = max(1.0, abs(lam)) / (1 - e) ** 2 * max(1.0, max(abs(x) for x in pr[:3]) / a)
            bad = [nm for nm, got_, want_ in (("a", oa_.value / a, 1.0), ("k", ok_.value, k), ("h", oh_.value, h), ("ix", oix_.value, ix), ("iy", oiy_.value, iy))
                   if not abs(got_ - want_) <= 1e-9 * condp]
            if angdiff(ol_.value, lam) > 1e-8 * condp:
                bad.append("lambda")
            if bad:
                fail("particle_to_pal-inverse:" + ",".join(bad), "reb_tools_particle_to_pal does not return the Pal elements reb_particle_from_pal was given",
                     dict(rep, got=dict(a=oa_.value, l=ol_.value, k=ok_.value, h=oh_.value, ix=oix_.value, iy=oiy_.value)))
        # search: Pal's Kepler equation  q sin p' ... : lambda = (lambda+p) - (k sin(lambda+p) - h cos(lambda+p))  with p = k sin - h cos
        lp = lam + pp.value
        track("pal_kepler", abs(pp.value - (k * math.sin(lp) - h * math.cos(lp))))
        if not abs(pp.value - (k * math.sin(lp) - h * math.cos(lp))) <= 1e-12 or not abs(qq.value - (k * math.cos(lp) + h * math.sin(lp))) <= 1e-12:
            if h * h + k * k < 0.3 * 0.3:
                fail(F22, "reb_tools_solve_kepler_pal (low-e branch, e<0.3): after its 51 iterations p,q do not satisfy Pal's Kepler equation "
                     "p = k sin(l+p) - h cos(l+p), q = k cos(l+p) + h sin(l+p) (the update uses the transposed inverse Jacobian, so it is not Newton's method)",
                     dict(rep, p=pp.value, q=qq.value))
                check_reader(G, pv, pr, "from_pal")
                continue      # the particle built from these p,q is off by the same amount: consequence, not a separate failure
            fail("pal-kepler-residual", "reb_tools_solve_kepler_pal: p,q do not satisfy p = k sin(l+p) - h cos(l+p), q = k cos(l+p) + h sin(l+p)", rep)
        # same orbit: classical elements of the Pal set through the oracle (M = lambda - pomega)
        if e > 1e-6 and inc > 1e-6:
            M = lam - math.atan2(h, k)
            E = solve_kepler(e, M)
            f = f_of_E(e, E)
            mu = G * (m + pr[6])
            want = kepler_to_cart(mu, a, e, inc, Om, math.atan2(h, k) - Om, f)
        else:
            want = None
        check_reader(G, pv, pr, "from_pal")
        if want is not None:
            rs = math.sqrt(sum(x * x for x in want[:3])); vs = math.sqrt(sum(x * x for x in want[3:]))
            cond = max(1.0, abs(lam)) / (1 - e) ** 2
            ep = max(abs(pv[j] - pr[j] - want[j]) for j in range(3)) / rs
            ev = max(abs(pv[j] - pr[j] - want[j]) for j in range(3, 6)) / vs
            offp = 8 * 2.3e-16 * max(abs(x) for x in pr[:3]) / rs
            offv = 8 * 2.3e-16 * max(abs(x) for x in pr[3:6]) / vs
            track("pal_vs_oracle", max(ep - offp, ev - offv, 0.0) / cond)
            if not (ep <= 1e-9 * cond + offp and ev <= 1e-9 * cond + offv):
                fail("from_pal-vs-oracle", "reb_particle_from_pal is not the orbit (a, e=|h,k|, pomega=atan2(h,k), inc, Omega from ix,iy, lambda)", dict(rep, ep=ep, ev=ev))
            # the reader's Pal elements must return the input
            _, o = call_orbit(G, pv, pr)
            for nm, wv in (("pal_h", h), ("pal_k", k), ("pal_ix", ix), ("pal_iy", iy)):
                if not abs(getattr(o, nm) - wv) <= 1e-9 * cond:
                    fail("pal-readback-" + nm, "reb_orbit_from_particle does not return the Pal element the particle was built from", dict(rep, got=getattr(o, nm), want=wv))

    # ---------------------------------------------------------------- front ends
    fe = front_ends(c, rebound, clib, P, rng, add, fail, c_err_by_msg, thorough, track)

    # ---------------------------------------------------------------- element round trips through the Python constructor
    roundtrips(c, rebound, clib, P, rng, fail, track, thorough, check_reader, rand_inc, rand_angle, add)

    # ---------------------------------------------------------------- pairwise covering array over the configuration factors
    pairwise_roundtrips(c, rebound, clib, P, rng, fail, track, thorough, check_reader, add)

    # ---------------------------------------------------------------- Python-only arguments with a C counterpart
    python_only(c, rebound, clib, P, rng, fail)

    # ---------------------------------------------------------------- configuration dimensions crossed with the oracle
    config_dimensions(c, rebound, clib, P, rng, fail, check_reader, thorough)

    # ---------------------------------------------------------------- asymptote boundary e cos f == -1
    nb = 0
    for i in range(NS):
        e = rng.choice([2.0, 4.0, 1.25, rng.uniform(1.001, 10)])
        f0 = math.acos(-1 / e)
        for k in range(-6, 7):
            f = nextafter(f0, k)
            if e * math.cos(f) == -1.0:
                nb += 1
                err, p = call_from_orbit(1.0, [0.0] * 6 + [1.0], 0.0, -1.0, e, 0.3, 0.2, 0.1, f)
                if err == 0 and not all(math.isfinite(v) for v in pvals(p)):
                    fail(F21, "reb_particle_from_orbit accepts e cos f == -1 (r = a(1-e^2)/0) and returns a non-finite particle",
                         dict(e=e, f=f, a=-1.0, particle=pvals(p)[:6]))
                break
    c.cov["asymptote_equality_inputs_found"] = nb

    # ---------------------------------------------------------------- invalid values must be rejected, not turned into NaN particles
    ninv = 0
    for i in range(60):
        sim = rebound.Simulation()
        sim.add(m=1.0)
        k = i % 6
        kw = [dict(a=0.0, e=rng.uniform(0, 0.9), f=rng.uniform(0, 6)),
              dict(P=0.0, e=rng.uniform(0, 0.9)),
              dict(a=rng.uniform(0.5, 2), h=rng.uniform(0.75, 2), k=rng.uniform(0.75, 2), l=rng.uniform(0, 6)),
              dict(a=-rng.uniform(0.5, 2), h=rng.uniform(-0.3, 0.3), k=rng.uniform(-0.3, 0.3), l=rng.uniform(0, 6)),
              dict(a=0.0, h=0.1, k=0.1),
              dict(a=rng.uniform(0.5, 2), h=math.sin(0.3), k=math.cos(0.3))][k]
        ninv += 1
        try:
            sim.add(**kw)
        except ValueError:
            c.count(("invalid-value", k, "rejected"))
            continue
        p = sim.particles[1]
        c.count(("invalid-value", k, "accepted"))
        if not all(math.isfinite(v) for v in [p.x, p.y, p.z, p.vx, p.vy, p.vz]):
            if k in (0, 1):
                fail(F19, "a = 0 (or P = 0) is accepted and gives a particle with NaN/inf velocity", dict(kwargs=kw))
            else:
                fail(F20, "Pal elements of an unbound or degenerate orbit (h^2+k^2 >= 1, or a <= 0) are accepted and give a NaN particle", dict(kwargs=kw))
    # documented rejections, asserted on the real code independently of the model
    for i in range(140):
        sim = rebound.Simulation()
        sim.add(m=1.0)
        k = i % 7
        e_h = rng.uniform(1.05, 5)
        kw = [dict(a=rng.uniform(0.5, 2), e=1.0),
              dict(a=rng.uniform(0.5, 2), e=-10 ** rng.uniform(-8, 0)),
              dict(a=rng.uniform(0.5, 2), e=e_h),
              dict(a=-rng.uniform(0.5, 2), e=rng.uniform(0, 0.99)),
              dict(a=-rng.uniform(0.5, 2), e=e_h, f=(math.acos(-1 / e_h) + rng.uniform(0.01, 0.99) * (2 * PI - 2 * math.acos(-1 / e_h))) * rng.choice([1, -1])),
              dict(a=rng.uniform(0.5, 2), e=rng.uniform(0, 0.9), primary=P(m=rng.choice([0.0, 1e-310, -1.0]))),
              dict(a=rng.uniform(0.5, 2), ix=rng.uniform(1.5, 3), iy=rng.uniform(1.5, 3))][k]
        if rng.chance(0.5) and k != 4:
            kw[rng.choice(["f", "M", "theta", "l"])] = rng.uniform(0.1, 6) if k != 6 else 0.3
            if k == 6:
                kw = dict((a_, b_) for a_, b_ in kw.items() if a_ in ("a", "ix", "iy", "l"))
        ninv += 1
        kind = ["e==1", "e<0", "e>1,a>0", "e<1,a<0", "f-beyond-asymptote", "massless-primary", "ix2+iy2>4"][k]
        for front in ("python", "c"):
            sim2 = rebound.Simulation()
            sim2.add(m=1.0)
            rejected = False
            if front == "python":
                try:
                    sim2.add(**kw)
                except ValueError:
                    rejected = True
            else:
                names = list(kw)
                args = [kw[n] if n == "primary" else D(kw[n]) for n in names]
                clib.reb_simulation_add_fmt(ctypes.byref(sim2), " ".join(names).encode(), *args)
                try:
                    sim2.process_messages()
                except RuntimeError:
                    rejected = True
                rejected = rejected and sim2.N == 1
            c.count(("must-reject", kind, front, rejected))
            if not rejected:
                pp_ = sim2.particles[1] if sim2.N > 1 else None
                fail("invalid-accepted:%s:%s" % (kind, front), "%s front end accepts invalid elements (%s) instead of raising the documented error" % (front, kind),
                     dict(kwargs=dict((a_, (b_ if not isinstance(b_, P) else "Particle(m=%r)" % b_.m)) for a_, b_ in kw.items()),
                          particle=[pp_.x, pp_.y, pp_.z, pp_.vx, pp_.vy, pp_.vz] if pp_ is not None else None))
    c.cov["invalid_value_inputs"] = ninv

    # ---------------------------------------------------------------- run the model
    c.log("running %d model lines through drv_c11" % len(lines))
    got = run_driver(exe, lines)
    ndis, nbit, first = 0, 0, None
    by_kind = {}
    if len(got) != len(lines):
        c.corr_break("driver returned %d lines for %d ops" % (len(got), len(lines)))
    else:
        for g, e, (kind, detail), l in zip(got, expect, meta, lines):
            gt = g.split()
            st = by_kind.setdefault(kind, [0, 0, 0])
            st[0] += 1
            if kind == "v":
                # validators of the model vs the verdicts of the two real front ends
                co, po, rep, valid = detail
                value_errs = ("E1", "E2", "E3", "E4", "E5", "E6", "E12")
                okc = len(gt) == 2 and ((gt[0] == co[0]) if gt[0].startswith("E") else (co[0] == "ok" or (not valid and co[0] in value_errs)))
                okp = len(gt) == 2 and ((gt[1] == po[0]) if gt[1].startswith("E") else (po[0] == "ok" or (not valid and (po[0] in value_errs or po[0].startswith("EX:")))))
                if not (okc and okp):
                    st[2] += 1
                    ndis += 1
                    if first is None:
                        first = {"kind": "validator " + ("C" if not okc else "Python"), "op_line": l, "model": g,
                                 "impl": "C: %s  Python: %s" % (co[0], po[0]), "detail": rep}
                continue
            if gt == e:
                continue
            st[1] += 1
            nbit += 1
            bad = len(gt) != len(e)
            if not bad:
                try:
                    gv = [h2d(t) for t in gt]
                    ev = [h2d(t) for t in e]
                    scale = max([abs(v) for v in ev + gv if v == v and math.isfinite(v)] + [1e-300])
                    if kind in ("fo", "pal", "fmt", "pyfmt"):
                        sp = max([abs(v) for v in ev[:3] if math.isfinite(v)] + [1e-300])
                        sv = max([abs(v) for v in ev[3:6] if math.isfinite(v)] + [1e-300])
                        scales = [sp] * 3 + [sv] * 3 + [abs(ev[6]) or 1.0]
                    else:
                        scales = [max(abs(a), abs(b), 1e-300) if kind == "fmod" else max(abs(a), abs(b), 1.0) for a, b in zip(gv, ev)]
                    # harmless re-association must not fire, a wrong sign / constant / branch must
                    tol = 1e-12 if kind in ("fmod", "mod2pi", "fo", "e2f") else 1e-9
                    if kind == "p2pal" and len(gv) == 6 and abs(abs(gv[1] - ev[1]) - 2 * PI) <= 1e-9:
                        gv[1] = ev[1]; gt[1] = e[1]
                    for a, b, ta, tb, sc in zip(gv, ev, gt, e, scales):
                        if ta == tb:
                            continue
                        if a != a or b != b or not abs(a - b) <= tol * sc:
                            if kind in ("m2e", "m2f", "e2f", "mod2pi") and a == a and b == b and abs(abs(a - b) - 2 * PI) <= tol * 8:
                                continue       # same angle, other end of [0, 2pi)
                            bad = True
                except Exception:
                    bad = True
            if bad:
                st[2] += 1
                ndis += 1
                if first is None:
                    first = {"kind": kind, "op_line": l, "model": g, "impl": " ".join(e), "detail": detail}
    c.cov["model_lines_compared"] = len(lines)
    c.cov["model_lines_by_kind(total,not_bitwise,disagree)"] = by_kind
    c.cov["bitwise_mismatches_within_tolerance"] = nbit - ndis
    c.cov["disagreements"] = ndis
    c.cov["from_orbit_error_histogram"] = {str(k): v for k, v in sorted(fo_hist.items())}
    c.cov["orbit_from_particle_error_histogram"] = {str(k): v for k, v in sorted(op_hist.items())}
    c.cov["reader_branch_histogram"] = rt_hist
    c.cov["kepler_inputs"] = kep_hist
    c.cov["pal_inputs"] = pal_hist
    c.cov["front_ends"] = fe
    c.cov["worst_measured"] = {k: float("%.3g" % v) for k, v in sorted(worst.items())}
    # ---- public entry points that reach the mechanism: extracted from rebound.h / tools.h / rebound/*.py, each must be exercised
    for kind_, names_ in (("mod2pi", ["reb_mod2pi"]), ("m2e", ["reb_M_to_E"]), ("m2f", ["reb_M_to_f"]), ("e2f", ["reb_E_to_f"]),
                          ("fo", ["reb_particle_from_orbit_err"]), ("op", ["reb_orbit_from_particle_err"]), ("kpal", ["reb_tools_solve_kepler_pal"]),
                          ("pal", ["reb_particle_from_pal"]), ("p2pal", ["reb_tools_particle_to_pal"]),
                          ("fmt", ["reb_simulation_add_fmt", "reb_particle_from_fmt"]), ("pyfmt", ["Particle.__init__"])):
        if by_kind.get(kind_, [0])[0] > 0:
            exercised(*names_)
    try:
        c_entries, py_entries = extract_c11.extract_entry_points(REPO)
        allent = c_entries + py_entries
        miss = [e_ for e_ in allent if e_ not in EXERCISED]
        c.cov["entry_points"] = {"c_extracted": len(c_entries), "python_extracted": len(py_entries), "exercised": len(allent) - len(miss), "missing": miss[:20]}
        if len(c_entries) < 70 or len(py_entries) < 40:
            c.broken.append("entry-point extraction found only %d C and %d Python entry points" % (len(c_entries), len(py_entries)))
        if miss:
            c.broken.append("public entry points that reach the mechanism but were not exercised in this run: " + ", ".join(miss[:12]))
    except Exception as ex:
        c.broken.append("entry-point extraction failed: %s" % ex)
    DIM["a_decades"] = len(a_decades)
    c.cov["dimensions"] = dict((k, DIM.get(k, 0)) for k in APPLICABLE_DIMS)
    c.cov["a_decades_covered"] = sorted(a_decades)
    for k in APPLICABLE_DIMS:
        if DIM.get(k, 0) == 0 or (k == "a_decades" and DIM[k] < 12):
            c.broken.append("dimension %s not covered (%d cases)" % (k, DIM.get(k, 0)))
    c.cov["rule"] = ("(1) every class of the presence summary (2^15: simulation, any Cartesian, any Pal, primary, a, P, any of e/inc/Omega, omega, pomega, each of f M E l theta T) "
                     "is executed on reb_simulation_add_fmt / reb_particle_from_fmt, on rebound.Particle(...) and on both Lean validators with a random representative "
                     "(random non-empty subsets inside the groups, random m/r/hash) and random valid values, plus random 28-bit patterns with valid and invalid values; "
                     "(2) scalar functions, reb_particle_from_orbit_err (valid elements of every kind + every rejection branch and its boundary), reb_orbit_from_particle_err "
                     "(particles from elements, from Pal elements, random and degenerate Cartesian states), Pal solver and constructor are compared with the Lean Float model bit for bit; "
                     "(3) search: elements->particle vs rotation-matrix oracle, particle->elements ranges / defining relations / Cartesian rebuild, Kepler residuals, non-finite particles. "
                     "distinct_nontrivial = distinct (function, branch/histogram bucket) keys")
    if ndis:
        c.corr_break("%d of %d model/implementation lines differ; first: %s" % (ndis, len(lines), first["kind"]), first)
    seen = {}
    for key, what, rep in searchfail:
        seen.setdefault(key, (what, rep, 0))
        seen[key] = (seen[key][0], seen[key][1], seen[key][2] + 1)
    c.cov["search_failures_by_key"] = {k: v[2] for k, v in seen.items()}
    for key, (what, rep, n) in seen.items():
        c.violation(key, what, rep)


# ------------------------------------------------------------------ front ends
def front_ends(c, rebound, clib, P, rng, add, fail, c_err_by_msg, thorough, track):
    ORBG = ["primary", "a", "P", "e", "inc", "Omega", "omega", "pomega", "f", "M", "E", "l", "theta", "T"]
    stats = {"classes": 0, "random_patterns": 0, "c_verdicts": {}, "py_verdicts": {}, "particles_bit_identical": 0,
             "particles_PT_within_tol": 0, "max_PT_rel_diff": 0.0, "front_end_disagreements": 0}

    def new_sim():
        sim = rebound.Simulation()
        sim.G = rng.choice([1.0, 39.476926421373, 0.5])
        sim.t = rng.choice([0.0, 1.7, -3.2])
        sim.add(m=1.0, x=0.1, y=-0.2, z=0.05, vx=0.01, vy=0.02, vz=-0.01)
        sim.add(m=1e-3, x=1.1, y=0.1, z=0.0, vx=-0.1, vy=0.9, vz=0.02)
        return sim
    sims = [new_sim() for _ in range(4)]

    def py_code(msg):
        for s, k in PY_ERR:
            if s in msg:
                return k
        return -1

    def values(pres, valid=True):
        """random values for the present arguments"""
        hyp = (not valid) and rng.chance(0.3)
        v = {}
        for k in ARGS[1:]:
            if not pres[k]:
                continue
            if k in ("x", "y", "z"):
                v[k] = rng.uniform(-3, 3)
            elif k in ("vx", "vy", "vz"):
                v[k] = rng.uniform(-1, 1)
            elif k == "m":
                v[k] = rng.choice([0.0, 1e-3, 1e-6])
            elif k == "r":
                v[k] = rng.uniform(0, 0.1)
            elif k == "hash":
                v[k] = rng.randint(1, 2 ** 32 - 1)
            elif k == "a":
                v[k] = -rng.uniform(0.5, 3) if hyp else rng.uniform(0.5, 3)
            elif k == "P":
                v[k] = rng.uniform(0.5, 9)
            elif k == "e":
                v[k] = rng.uniform(1.1, 3) if hyp else rng.uniform(0, 0.9)
            elif k == "inc":
                v[k] = rng.choice([rng.uniform(0, PI), rng.uniform(0, PI), 0.0, PI, PI / 2, 1e-9])
            elif k in ("h", "k"):
                v[k] = rng.uniform(-0.5, 0.5)
            elif k in ("ix", "iy"):
                v[k] = rng.uniform(-1.2, 1.2)
            elif k == "T":
                v[k] = rng.uniform(-5, 5)
            elif k == "E" and hyp:
                v[k] = rng.uniform(-3, 3)
            elif k == "f" and hyp:
                v[k] = rng.uniform(-1, 1)
            elif k == "primary":
                v[k] = [rng.uniform(-1, 1) for _ in range(3)] + [rng.uniform(-0.3, 0.3) for _ in range(3)] + [rng.choice([1.0, 0.7, 2.5])]
            else:
                v[k] = rng.choice([rng.uniform(0, 2 * PI), rng.uniform(-7, 7), 0.0])
        if not valid:
            # sprinkle invalid values
            k = rng.randint(0, 9)
            if k == 0 and "e" in v:
                v["e"] = 1.0
            elif k == 1 and "e" in v:
                v["e"] = -0.1
            elif k == 2 and "a" in v:
                v["a"] = -v["a"]
            elif k == 3 and "ix" in v:
                v["ix"] = 1.9
                if "iy" in v:
                    v["iy"] = 1.9
            elif k == 4 and "primary" in v:
                v["primary"][6] = 0.0
            elif k == 5 and "e" in v and "a" in v and "f" in v:
                v["e"], v["a"], v["f"] = 2.0, -abs(v["a"]), 3.0
        return v

    def mkp(vals):
        p = P()
        for k, x in zip(COMPS + ["m"], vals):
            setattr(p, k, x)
        return p

    def run_c(sim, pres, v):
        names = [k for k in ARGS[1:] if pres[k]]
        rng.shuffle(names)      # token order must not matter
        fmt = rng.choice([" ", ",", ";", ", "]).join(names).encode()
        args = []
        for k in names:
            if k == "primary":
                args.append(mkp(v[k]))
            elif k == "hash":
                args.append(ctypes.c_uint32(v[k]))
            else:
                args.append(D(v[k]))
        if pres["sim"]:
            n0 = sim.N
            clib.reb_simulation_add_fmt(ctypes.byref(sim), fmt, *args)
            try:
                sim.process_messages()
            except RuntimeError as e:
                msg = str(e)
                if sim.N != n0:
                    return ("E?", "error reported but particle added: " + msg)
                return ("E%d" % c_err_by_msg.get(msg, -1), msg)
            if sim.N != n0 + 1:
                return ("E?", "no error message and no particle added")
            p = sim.particles[n0]
            out = [p.x, p.y, p.z, p.vx, p.vy, p.vz, p.m, p.r, p.hash.value]
            clib.reb_simulation_remove_particle(ctypes.byref(sim), ctypes.c_int(n0), ctypes.c_int(1))
            return ("ok", out)
        with CapStderr() as cap:
            p = clib.reb_particle_from_fmt(None, fmt, *args)
        if "Error!" in cap.text:
            msg = cap.text.split("Error!", 1)[1].replace("\033[0m", "").strip()
            return ("E%d" % c_err_by_msg.get(msg, -1), msg)
        return ("ok", [p.x, p.y, p.z, p.vx, p.vy, p.vz, p.m, p.r, p.hash.value])

    def run_py(sim, pres, v, via_add=False, as_int=None, none_absent=False):
        kw = {}
        for k in ARGS[1:]:
            if pres[k]:
                kw[k] = mkp(v[k]) if k == "primary" else v[k]
            elif none_absent and k != "hash":
                kw[k] = None            # an explicit None is "not passed"
        if as_int is not None and as_int in kw:
            kw[as_int] = int(kw[as_int])
        try:
            if via_add and pres["sim"]:
                n0 = sim.N
                sim.add(**kw)
                p = sim.particles[n0]
                out = [p.x, p.y, p.z, p.vx, p.vy, p.vz, p.m, p.r, p.hash.value]
                clib.reb_simulation_remove_particle(ctypes.byref(sim), ctypes.c_int(n0), ctypes.c_int(1))
                return ("ok", out)
            p = P(simulation=sim if pres["sim"] else None, **kw)
            return ("ok", [p.x, p.y, p.z, p.vx, p.vy, p.vz, p.m, p.r, p.hash.value])
        except ValueError as e:
            return ("E%d" % py_code(str(e)), str(e))
        except Exception as e:      # anything else is a crash of the constructor, not a verdict
            return ("EX:" + type(e).__name__, str(e))

    pending = []   # (pres, vals, c_out, py_out, index of 'v' line, index of 'fmt' line or None)

    def one(pres, valid, tag, force=None, as_int=None, none_absent=None):
        sim = rng.choice(sims)
        v = values(pres, valid)
        if force:
            v.update(force)
        if none_absent is None:
            none_absent = rng.chance(0.2)
        if none_absent:
            dim("value_none_for_absent_argument")
        if sim.G != 1.0 and pres["sim"]:
            dim("G_not_1")
        bits = "".join("1" if pres[k] else "0" for k in ARGS)
        co = run_c(sim, pres, v)
        po = run_py(sim, pres, v, via_add=rng.chance(0.3), as_int=as_int, none_absent=none_absent)
        stats["c_verdicts"][co[0]] = stats["c_verdicts"].get(co[0], 0) + 1
        stats["py_verdicts"][po[0]] = stats["py_verdicts"].get(po[0], 0) + 1
        rep = dict(present=[k for k in ARGS if pres[k]], values=v, G=sim.G, t=sim.t, c=co, python=po)
        # model: the two validators
        pending.append((bits, co, po, rep, valid))
        # model: the arithmetic of the C front end
        if pres["sim"]:
            com = clib.reb_simulation_com(ctypes.byref(sim))
            kv = []
            for k in ARGS[1:]:
                if pres[k] and k not in ("r", "hash"):
                    kv.append(k + "=" + (",".join(d2h(x) for x in v[k]) if k == "primary" else d2h(v[k])))
            exp = [co[0]] if co[0] != "ok" else [d2h(x) for x in co[1][:7]]
            add("fmt %s %s %s %s" % (d2h(sim.G), d2h(sim.t), " ".join(d2h(x) for x in [com.x, com.y, com.z, com.vx, com.vy, com.vz, com.m]), " ".join(kv)),
                exp, "fmt", rep)
            # the arithmetic of the Python constructor (model frontPy) against rebound.Particle itself
            if not po[0].startswith("EX:") and as_int is None:
                expp = [po[0]] if po[0] != "ok" else [d2h(x) for x in po[1][:7]]
                add("pyfmt %s %s %s %s" % (d2h(sim.G), d2h(sim.t), " ".join(d2h(x) for x in [com.x, com.y, com.z, com.vx, com.vy, com.vz, com.m]), " ".join(kv)),
                    expp, "pyfmt", rep)
        # search: C vs Python on the real code
        nonpal_other = any(pres[k] for k in ["e", "inc", "Omega", "omega", "pomega", "f", "M", "E", "theta", "T"])
        pal_any = any(pres[k] for k in ["h", "k", "ix", "iy"])
        if co[0] != po[0]:
            stats["front_end_disagreements"] += 1
            zero_mu = pres["T"] and (v["primary"][6] if pres["primary"] else 1.0) + v.get("m", 0.0) == 0.0
            if po[0] == "EX:ZeroDivisionError" and zero_mu and co[0].startswith("E"):
                fail("C11:python-T-zero-mass-zerodivision", "time of pericentre T with zero total mass: C reports a particle error, "
                     "Particle.__init__ raises ZeroDivisionError (n = (G*0/abs(a**3))**0.5 with a = 0 or 0/0) instead of ValueError", rep)
            elif pres["primary"] and pal_any and not nonpal_other and co[0] == "E7":
                fail(F18, "reb_simulation_add_fmt rejects Pal elements with an explicit primary (error 7), Particle.__init__ accepts them", rep)
            else:
                fail("front-ends-verdict:%s-vs-%s" % (co[0], po[0]), "C and Python front ends decide differently on the same arguments", rep)
        elif co[0] == "ok":
            a, b = co[1], po[1]
            if not all(math.isfinite(x) for x in a[:6]) and valid:
                fail("front-end-nonfinite", "accepted valid arguments give a non-finite particle", rep)
            if a[6:] != b[6:]:
                fail("front-ends-m-r-hash", "C and Python front ends store different m / r / hash", rep)
            if [d2h(x) for x in a[:6]] == [d2h(x) for x in b[:6]]:
                stats["particles_bit_identical"] += 1
            else:
                conv = pres["P"] or pres["T"]
                sp = max(abs(x) for x in a[:3]) or 1.0
                sv = max(abs(x) for x in a[3:6]) or 1.0
                rel = max([abs(x - y) / sp for x, y in zip(a[:3], b[:3])] + [abs(x - y) / sv for x, y in zip(a[3:6], b[3:6])])
                if conv and rel == rel:
                    stats["max_PT_rel_diff"] = max(stats["max_PT_rel_diff"], rel)
                # P -> a and T -> M are computed with pow() in Python and cbrt()/sqrt() in C: 4 ulp on a or M
                e_ = v.get("e", 0.0)
                # an ulp on n (pow vs sqrt/cbrt) is multiplied by |M| = n |t - T|, then by df/dM
                n_up = (2 * PI / v["P"]) if pres["P"] else math.sqrt(sim.G * 4.0 / abs(v.get("a", 1.0)) ** 3)
                Mmag = n_up * abs(sim.t - v["T"]) if pres["T"] else 0.0
                amp = max(1.0, Mmag) * (1.0 / abs(1 - e_) ** 2 if e_ != 1 else 1.0)
                if conv and rel <= 4 * 2.3e-16 * 8 * amp:
                    stats["particles_PT_within_tol"] += 1
                else:
                    fail("front-ends-particle" + ("-PT" if conv else ""), "C and Python front ends build different particles from the same arguments", dict(rep, rel=rel))
        c.count((tag, co[0], po[0], bits[1:4], pal_any, pres["primary"]))

    # every class of the summary
    nclass = 1 << 15
    step = 1
    for n in range(0, nclass, step):
        s = [(n >> i) & 1 for i in range(15)]
        pres = dict((k, False) for k in ARGS)
        pres["sim"] = bool(s[0])
        if s[1]:
            sub = [k for k in COMPS if rng.chance(0.4)] or [rng.choice(COMPS)]
            for k in sub:
                pres[k] = True
        if s[2]:
            sub = [k for k in ["h", "k", "ix", "iy"] if rng.chance(0.4)] or [rng.choice(["h", "k", "ix", "iy"])]
            for k in sub:
                pres[k] = True
        pres["primary"], pres["a"], pres["P"] = bool(s[3]), bool(s[4]), bool(s[5])
        if s[6]:
            sub = [k for k in ["e", "inc", "Omega"] if rng.chance(0.5)] or [rng.choice(["e", "inc", "Omega"])]
            for k in sub:
                pres[k] = True
        for i, k in enumerate(["omega", "pomega", "f", "M", "E", "l", "theta", "T"]):
            pres[k] = bool(s[7 + i])
        for k in ("m", "r", "hash"):
            pres[k] = rng.chance(0.5)
        one(pres, True, "class")
        stats["classes"] += 1
    # random fills: sparse random patterns (dense ones are almost always rejected at the first test)
    nr = 60000 if thorough else 4000
    for i in range(nr):
        pres = dict((k, False) for k in ARGS)
        pres["sim"] = rng.chance(0.9)
        kind = rng.randint(0, 3)
        pool = {0: ["m", "r", "hash"] + COMPS, 1: ["m", "r", "hash"] + ORBG, 2: ["m", "r", "hash", "primary", "a", "P", "l", "h", "k", "ix", "iy"], 3: ARGS[1:]}[kind]
        for k in pool:
            if rng.chance(0.35 if kind != 3 else 0.12):
                pres[k] = True
        if kind in (1, 2) and rng.chance(0.8):
            pres["a"] = True
            pres["P"] = False
        if kind == 1 and rng.chance(0.7):
            ls = [k for k in ["f", "M", "E", "l", "theta", "T"] if pres[k]]
            for k in ls[1:]:
                pres[k] = False
            if pres["omega"] and pres["pomega"]:
                pres["pomega"] = False
        one(pres, rng.chance(0.6), "random")
        stats["random_patterns"] += 1

    # argument VALUES 0.0 / -0.0 / int / inf in every position: "passed with value zero" must not be "not passed"
    companions = {"cart": [], "orb": ["a"], "pal": ["a"]}
    for name in ARGS[1:]:
        if name in ("hash", "primary"):
            continue
        grp = "cart" if name in COMPS + ["m", "r"] else ("pal" if name in ("h", "k", "ix", "iy") else "orb")
        for rep_ in range(3 if thorough else 1):
            for z, kind in ((0.0, "zero"), (-0.0, "zero"), (0, "int0"), (rng.randint(1, 3), "int"), (float("inf"), "inf"), (float("-inf"), "inf")):
                pres = dict((k, False) for k in ARGS)
                pres["sim"] = True
                pres[name] = True
                for k in companions[grp]:
                    if name not in ("a", "P"):
                        pres[k] = True
                if grp != "cart" and rng.chance(0.5):
                    pres[rng.choice(["e", "inc", "Omega"] if grp == "orb" else ["l"])] = True
                if rng.chance(0.5):
                    pres["m"] = True
                force = {name: float(z)}
                one(pres, False, "value-" + kind, force=force, as_int=name if kind in ("int0", "int") else None, none_absent=rng.chance(0.5))
                dim({"zero": "value_zero_or_signed_zero_argument", "int0": "value_int_argument", "int": "value_int_argument", "inf": "value_inf_argument"}[kind])
                if kind == "int0":
                    dim("value_zero_or_signed_zero_argument")
    # validators of the model against both real front ends
    base = len(pending)
    for bits, co, po, rep, valid in pending:
        add("v " + bits, None, "v", (co, po, rep, valid))
    return stats


def in_child(fn):
    """run fn() in a forked child (a wrong argument type handed to ctypes can crash the interpreter);
    returns ("ok", value) / ("exc", text) / ("crash", signal)"""
    r, w = os.pipe()
    sys.stdout.flush()
    pid = os.fork()
    if pid == 0:
        os.close(r)
        try:
            out = ("ok", fn())
        except BaseException as ex:
            out = ("exc", "%s: %s" % (type(ex).__name__, ex))
        try:
            os.write(w, json.dumps(out).encode())
        finally:
            os._exit(0)
    os.close(w)
    data = b""
    while True:
        chunk = os.read(r, 65536)
        if not chunk:
            break
        data += chunk
    os.close(r)
    _, status = os.waitpid(pid, 0)
    if os.WIFSIGNALED(status):
        return ("crash", os.WTERMSIG(status))
    try:
        return tuple(json.loads(data.decode()))
    except Exception:
        return ("crash", -1)


def config_dimensions(c, rebound, clib, P, rng, fail, check_reader, thorough):
    """simulation-level configurations crossed with the element oracle: G, units, primary given as particle /
    index / hash / default centre of mass with test particles, N_active, zero-mass bodies, variational particles;
    hash arguments; every public read-back path (orbits(), orbits(primary=), orbits(jacobi_masses=True),
    particle.orbit(), particle.orbit(primary=, G=)); T with sim.t != 0."""
    def pv_(p):
        return [p.x, p.y, p.z, p.vx, p.vy, p.vz, p.m]

    def bits(p):
        return [d2h(x) for x in pv_(p)]

    def fcom(ps):
        """independent centre of mass (math.fsum)"""
        M = math.fsum(q.m for q in ps)
        if M == 0:
            return [0.0] * 6 + [0.0]
        return [math.fsum(q.m * getattr(q, k) for q in ps) / M for k in COMPS] + [M]

    def orbit_fields(o):
        return [getattr(o, k) for k in ORB_FIELDS]

    def same_orbit(o1, o2, what, rep, tol=0.0):
        planar = o2.inc < 1e-6 or o2.inc > PI - 1e-6
        for k in ORB_FIELDS:
            a_, b_ = getattr(o1, k), getattr(o2, k)
            if d2h(a_) == d2h(b_):
                continue
            ok = False
            if tol and planar and k in ("Omega", "omega", "inc", "pal_h", "pal_k", "pal_ix", "pal_iy"):
                continue      # node direction of an exactly planar orbit is decided by the last bit of the primary
            if tol and a_ == a_ and b_ == b_:
                if k in ("Omega", "omega", "pomega", "f", "M", "l", "theta", "inc"):
                    ok = angdiff(a_, b_) <= tol * 1e3
                else:
                    ok = abs(a_ - b_) <= tol * max(abs(a_), abs(b_), 1e-300) * 1e3
            if not ok:
                fail(what, what + ": field %s differs" % k, dict(rep, field=k, got=a_, want=b_))
                return False
        return True
    clib.reb_hash.restype = ctypes.c_uint32
    nrep = 80 if thorough else 16
    for rep_ in range(nrep):
        sim = rebound.Simulation()
        unit_case = rep_ % 4
        if unit_case == 1:
            sim.units = ("AU", "yr", "Msun")
            dim("units_set")
        elif unit_case == 2:
            sim.units = ("km", "s", "kg")
            dim("units_set")
        elif unit_case == 3:
            sim.G = 10 ** rng.uniform(-3, 3)
        if sim.G != 1.0:
            dim("G_not_1")
        mscale = 1.0 if unit_case != 2 else 1e30
        lscale = 1.0 if unit_case != 2 else 1e8
        sim.t = rng.choice([0.0, 3.7, -12.5])
        off = [rng.normal() * lscale for _ in range(3)]
        vsc = math.sqrt(sim.G * mscale / lscale)
        voff = [rng.normal() * 0.1 * vsc for _ in range(3)]
        sim.add(m=mscale, x=off[0], y=off[1], z=off[2], vx=voff[0], vy=voff[1], vz=voff[2], hash="star")
        nb = rng.randint(2, 4)
        for i in range(nb):
            kw = dict(m=mscale * rng.choice([0.0, 1e-3, 1e-5]) if i else mscale * 1e-3, a=lscale * (1 + i) * rng.uniform(0.8, 1.3), e=rng.uniform(0.01, 0.4),
                      inc=rng.choice([rng.uniform(0, 0.3), PI - rng.uniform(0, 0.3), 0.0, PI]), Omega=rng.uniform(-7, 7), omega=rng.uniform(-7, 7),
                      f=rng.uniform(-7, 7), hash="body%d" % i)
            if kw["m"] == 0.0:
                dim("zero_mass_active_body")
            sim.add(**kw)
        # test particles: massless and massive
        ntest = rng.randint(1, 2)
        sim.N_active = sim.N
        sim.testparticle_type = (rep_ // 2) % 2
        for i in range(ntest):
            mt = mscale * 1e-6 if sim.testparticle_type == 1 and (i == 0 or rng.chance(0.5)) else 0.0
            if mt:
                dim("massive_test_particle")
            sim.add(m=mt, a=lscale * (6 + i), e=0.1, f=rng.uniform(0, 6), hash="test%d" % i)
        dim("N_active_lt_N")
        nreal = sim.N
        with_var = rep_ % 2 == 1
        if with_var:
            v1 = sim.add_variation()
            v1.vary(1, "a")
            if rng.chance(0.5):
                v2 = sim.add_variation(order=2, first_order=v1)
                v2.vary(1, "a", "a")
            dim("variational_particles_present")
        real = [sim.particles[i] for i in range(nreal)]
        G = sim.G
        rep = dict(G=G, t=sim.t, units=unit_case, N=nreal, N_active=sim.N_active, N_var=sim.N_var, testparticle_type=sim.testparticle_type,
                   particles=[pv_(q) for q in real])
        # ---- default primary = centre of mass of the real particles (test particles included, variational excluded)
        newkw = dict(m=mscale * 1e-4, a=lscale * 9.5, e=0.2, inc=0.4, Omega=0.3, omega=0.2, M=rng.choice([1.0, -7.5]))
        pd = P(simulation=sim, **newkw)
        comc = clib.reb_simulation_com(ctypes.byref(sim))
        como = fcom(real)
        scale = max(abs(x) for x in como[:3]) + lscale
        if not all(abs(getattr(comc, k) - como[i]) <= 1e-12 * (scale if i < 3 else vsc) for i, k in enumerate(COMPS)) or not abs(comc.m - como[6]) <= 1e-12 * como[6]:
            fail("default-primary-com", "reb_simulation_com is not the centre of mass of the real (non-variational) particles", dict(rep, got=pv_(comc), want=como))
        pe = P(simulation=sim, primary=comc, **newkw)
        if bits(pd) != bits(pe):
            fail("default-primary", "Particle(simulation=sim, elements) is not the orbit around reb_simulation_com(sim)", dict(rep, kwargs=newkw))
        names = list(newkw)
        with CapStderr() as cap:
            pc = clib.reb_particle_from_fmt(ctypes.byref(sim), " ".join(names).encode(), *[D(newkw[n_]) for n_ in names])
        if bits(pc) != bits(pd):
            fail("default-primary-c", "reb_particle_from_fmt and Particle() differ with the default primary", dict(rep, kwargs=newkw, c=pv_(pc), python=pv_(pd), stderr=cap.text[:200]))
        dim("primary_default_com")
        c.count(("dim", "default-primary", with_var, sim.testparticle_type))
        # ---- primary as particle / index / hash string
        idx = rng.choice([i_ for i_ in range(nb + 1) if sim.particles[i_].m > 0])
        ref = P(simulation=sim, primary=sim.particles[idx], **newkw)
        dim("primary_as_particle")
        for how, val in (("index", idx), ("hash", "star" if idx == 0 else "body%d" % (idx - 1))):
            res = in_child(lambda: bits(P(simulation=sim, primary=val, **newkw)))
            if res[0] != "ok" or res[1] != bits(ref):
                fail("primary-as-" + how, "primary given as %s is not particles[%d] (%s)" % (how, idx, res[0] if res[0] != "ok" else "different particle"),
                     dict(rep, primary=val, outcome=res[0], detail=res[1] if res[0] != "ok" else None))
            dim("primary_as_index" if how == "index" else "primary_as_hash_string")
        with CapStderr() as cap:
            pc = clib.reb_particle_from_fmt(ctypes.byref(sim), (" ".join(names) + " primary").encode(), *([D(newkw[n_]) for n_ in names] + [sim.particles[idx]]))
        if bits(pc) != bits(ref):
            fail("primary-as-particle-c", "C and Python differ with an explicit primary in a populated simulation", dict(rep, c=pv_(pc), python=pv_(ref)))
        # oracle for the explicit primary
        prv = pv_(sim.particles[idx])
        mu = G * (newkw["m"] + prv[6])
        Ek = solve_kepler(newkw["e"], newkw["M"])
        want = kepler_to_cart(mu, newkw["a"], newkw["e"], newkw["inc"], newkw["Omega"], newkw["omega"], f_of_E(newkw["e"], Ek))
        relp = max(abs(getattr(ref, COMPS[j]) - prv[j] - want[j]) for j in range(3)) / newkw["a"]
        relv = max(abs(getattr(ref, COMPS[j]) - prv[j] - want[j]) for j in range(3, 6)) / math.sqrt(mu / newkw["a"])
        if not (relp <= 1e-9 and relv <= 1e-9):
            fail("populated-sim-vs-oracle", "elements -> particle wrong in a populated simulation (G=%g)" % G, dict(rep, relp=relp, relv=relv))
        # jacobi_masses
        pj = P(simulation=sim, jacobi_masses=True, **newkw)
        interior = 0
        for q in sim.particles:          # what the constructor sums: every particle of the simulation
            interior += q.m
        cm = clib.reb_simulation_com(ctypes.byref(sim))
        cm.m = sim.particles[0].m * (newkw["m"] + interior) / interior - newkw["m"]
        if bits(pj) != bits(P(simulation=sim, primary=cm, **newkw)):
            fail("python-jacobi-masses", "Particle(jacobi_masses=True) in a populated simulation", dict(rep))
        interior_real = math.fsum(q.m for q in real)
        if with_var and abs(interior - interior_real) > 1e-12 * interior_real:
            fail("jacobi-masses-counts-variational", "Particle(jacobi_masses=True) sums the masses of variational particles into the interior mass",
                 dict(rep, interior=interior, interior_real=interior_real))
        dim("jacobi_masses")
        # ---- hash arguments
        hs = "name%d" % rng.randint(0, 10 ** 6)
        ph = P(simulation=sim, hash=hs, **newkw)
        hv = rng.randint(1, 2 ** 32 - 1)
        pi_ = P(simulation=sim, hash=hv, **newkw)
        with CapStderr() as cap:
            pc = clib.reb_particle_from_fmt(ctypes.byref(sim), (" ".join(names) + " hash").encode(), *([D(newkw[n_]) for n_ in names] + [ctypes.c_uint32(hv)]))
        if ph.hash.value != clib.reb_hash(hs.encode()) or pi_.hash.value != hv or pc.hash != hv and getattr(pc.hash, "value", pc.hash) != hv:
            fail("hash-argument", "hash argument (string / int / C uint32) is not stored as reb_hash(name) / the integer", dict(rep, hs=hs, hv=hv))
        dim("hash_string"); dim("hash_int")
        # ---- read-back paths
        prs = [pv_(sim.particles[0])]
        # Jacobi: primary of particle i = centre of mass of particles 0..i-1
        orbs = sim.orbits()
        if len(orbs) != nreal - 1:
            fail("orbits-length", "sim.orbits() does not return N_real-1 orbits", dict(rep, got=len(orbs)))
        for i in range(1, nreal):
            pr_o = fcom(real[:i])
            if pr_o[6] <= 0:
                continue
            err_ = ctypes.c_int(0)
            prP = P()
            for k_, x_ in zip(COMPS + ["m"], pr_o):
                setattr(prP, k_, x_)
            want_o = clib.reb_orbit_from_particle_err(D(G), real[i], prP, ctypes.byref(err_))
            if err_.value:
                continue
            rr = dict(rep, index=i)
            same_orbit(orbs[i - 1], want_o, "orbits-jacobi", rr, tol=1e-9)
            dim("readback_orbits_jacobi")
            o_def = real[i].orbit()
            same_orbit(o_def, want_o, "particle-orbit-default", rr, tol=1e-9)
            dim("readback_particle_orbit_default")
            # T with sim.t != 0:  n (t - T) = M  (mod 2 pi)
            if sim.t != 0 and o_def.e < 1 and o_def.e > 1e-6 and o_def.M == o_def.M:
                if angdiff(o_def.n * (sim.t - o_def.T), o_def.M) > 1e-9 * max(1.0, abs(o_def.n * (sim.t - o_def.T))):
                    fail("orbit-T-with-t", "n (sim.t - T) != M for a particle in a simulation with t != 0", dict(rr, T=o_def.T, M=o_def.M, n=o_def.n))
                dim("readback_T_with_t_nonzero")
            check_reader(G, pv_(real[i]), pr_o, "dim-jacobi")
        oh = sim.orbits(primary=sim.particles[0])
        for i in range(1, nreal):
            err_ = ctypes.c_int(0)
            want_o = clib.reb_orbit_from_particle_err(D(G), real[i], sim.particles[0], ctypes.byref(err_))
            same_orbit(oh[i - 1], want_o, "orbits-heliocentric", dict(rep, index=i))
            same_orbit(real[i].orbit(primary=sim.particles[0]), want_o, "particle-orbit-primary", dict(rep, index=i))
            dim("readback_orbits_heliocentric"); dim("readback_particle_orbit_primary")
            check_reader(G, pv_(real[i]), pv_(sim.particles[0]), "dim-helio")
        oj = sim.orbits(jacobi_masses=True)
        for i in range(1, nreal):
            pr_o = fcom(real[:i])
            interior_m = pr_o[6]
            if interior_m <= 0:
                continue
            prP = P()
            for k_, x_ in zip(COMPS + ["m"], pr_o):
                setattr(prP, k_, x_)
            prP.m = real[0].m * (real[i].m + interior_m) / interior_m - real[i].m
            err_ = ctypes.c_int(0)
            want_o = clib.reb_orbit_from_particle_err(D(G), real[i], prP, ctypes.byref(err_))
            if not err_.value:
                same_orbit(oj[i - 1], want_o, "orbits-jacobi-masses", dict(rep, index=i), tol=1e-9)
                dim("readback_orbits_jacobi_masses")
        # free particle with explicit G
        fp = P(m=real[1].m, x=real[1].x, y=real[1].y, z=real[1].z, vx=real[1].vx, vy=real[1].vy, vz=real[1].vz)
        fpr = P(m=real[0].m, x=real[0].x, y=real[0].y, z=real[0].z, vx=real[0].vx, vy=real[0].vy, vz=real[0].vz)
        og = fp.orbit(primary=fpr, G=G)
        err_ = ctypes.c_int(0)
        want_o = clib.reb_orbit_from_particle_err(D(G), fp, fpr, ctypes.byref(err_))
        same_orbit(og, want_o, "particle-orbit-explicit-G", dict(rep))
        if G != 1.0:
            # a wrong G would show in the period
            mu = G * (fp.m + fpr.m)
            if og.a > 0 and not abs(og.P - 2 * PI * math.sqrt(og.a ** 3 / mu)) <= 1e-9 * abs(og.P):
                fail("explicit-G-period", "orbit(primary, G=G): P is not 2 pi sqrt(a^3 / (G M))", dict(rep, P=og.P, a=og.a))
        dim("explicit_G_free_particle")
        if unit_case in (1, 2):
            o1 = real[1].orbit(primary=sim.particles[0])
            mu = sim.G * (real[1].m + real[0].m)
            if o1.a > 0 and not abs(o1.P - 2 * PI * math.sqrt(o1.a ** 3 / mu)) <= 1e-9 * abs(o1.P):
                fail("units-period", "with units set, P is not 2 pi sqrt(a^3/(sim.G M))", dict(rep, P=o1.P, a=o1.a))
            if unit_case == 1 and not abs(sim.G - 4 * PI * PI) <= 1e-3 * 4 * PI * PI:
                fail("units-G", "units (AU, yr, Msun) do not give G ~ 4 pi^2", dict(G=sim.G))


def python_only(c, rebound, clib, P, rng, fail):
    """Particle.__init__ arguments that reb_particle_from_fmt does not know: particle=, variation=/variation2=
    (-> reb_particle_derivative_*), jacobi_masses=, "uniform" (-> reb_random_uniform), pal_* aliases.
    Each is compared with the C routine it is documented to wrap."""
    def vals(p):
        return [d2h(getattr(p, k)) for k in COMPS + ["m", "r"]]
    stats = {}

    def tick(k):
        stats[k] = stats.get(k, 0) + 1

    def base_sim():
        sim = rebound.Simulation()
        sim.G = rng.choice([1.0, 39.476926421373])
        sim.add(m=1.0, x=0.01, vy=-0.02)
        sim.add(m=1e-3, a=1.0, e=0.1, inc=0.2, Omega=0.3, omega=0.4, f=0.5)
        return sim
    vt = ["m", "a", "e", "inc", "omega", "Omega", "f", "k", "h", "lambda", "ix", "iy"]
    exists = lambda n: hasattr(clib, "reb_particle_derivative_" + n)
    for rep_ in range(3):
        sim = base_sim()
        prim = sim.particles[0]
        classical = rng.chance(0.5)
        kw = dict(m=1e-3, a=rng.uniform(0.5, 3), e=rng.uniform(0.05, 0.6), inc=rng.uniform(0.1, 1), Omega=rng.uniform(0, 6), omega=rng.uniform(0, 6), f=rng.uniform(0, 6)) if classical else \
            dict(m=1e-3, a=rng.uniform(0.5, 3), h=rng.uniform(-0.3, 0.3), k=rng.uniform(-0.3, 0.3), ix=rng.uniform(-0.5, 0.5), iy=rng.uniform(-0.5, 0.5), l=rng.uniform(0, 6))
        po = P(simulation=sim, primary=prim, **kw)
        # the documented way (elements + variation=, no particle=) builds the particle itself from locals()
        extra = {}
        try:
            P(simulation=sim, primary=prim, variation="a", **kw)
        except TypeError as ex:
            if "binarydata" in str(ex) or "simp" in str(ex):
                fail("C11:python-variation-without-particle", "Particle(simulation=sim, variation=..., <elements>) without particle= raises TypeError: "
                     "locals() passed on to Particle(**lc) contains the local variables binarydata and simp", dict(kwargs=kw, error=str(ex)))
                extra = dict(particle=po)      # the path rebound/variation.py uses
            else:
                raise
        kw = dict(kw, **extra)
        # particle= : a copy
        cp = P(particle=po)
        if bytes(cp) != bytes(po):
            fail("python-particle-copy", "Particle(particle=p) is not a byte copy of p", dict(kwargs=kw))
        tick("particle=")
        # first order
        for v1 in vt + ["l", "i"]:
            n1 = {"l": "lambda", "i": "inc"}.get(v1, v1)
            f_ = getattr(clib, "reb_particle_derivative_" + n1)
            f_.restype = P
            want = f_(D(sim.G), prim, po); exercised("reb_particle_derivative_" + n1)
            try:
                got = P(simulation=sim, primary=prim, variation=v1, **kw)
            except Exception as ex:
                fail("python-variation:" + v1, "Particle(variation=%r) raises %s although reb_particle_derivative_%s exists" % (v1, type(ex).__name__, n1), dict(kwargs=kw, error=str(ex)))
                continue
            if vals(got)[:7] != vals(want)[:7]:
                fail("python-variation:" + v1, "Particle(variation=%r) differs from reb_particle_derivative_%s(G, primary, particle)" % (v1, n1), dict(kwargs=kw, got=vals(got), want=vals(want)))
            tick("variation")
            c.count(("py-only", "variation", n1, classical))
            # default primary is particles[0]
            got0 = P(simulation=sim, variation=v1, **dict(kw, primary=prim))
            if vals(got0)[:7] != vals(got)[:7]:
                fail("python-variation-primary", "variation with explicit primary differs", dict(kwargs=kw))
        # second order: Python orders the pair by its own list; the C name must exist under that order
        for i1, v1 in enumerate(vt):
            for i2, v2 in enumerate(vt):
                a_, b_ = (v1, v2) if i1 <= i2 else (v2, v1)
                name = a_ + "_" + b_
                rev = b_ + "_" + a_
                if not exists(name):
                    if exists(rev) and rev != name:
                        fail("python-variation2-name:" + name, "second-order derivative exists in C as %s but Python looks for %s" % (rev, name), dict(pair=[v1, v2]))
                    continue
                f_ = getattr(clib, "reb_particle_derivative_" + name)
                f_.restype = P
                want = f_(D(sim.G), prim, po); exercised("reb_particle_derivative_" + name)
                try:
                    got = P(simulation=sim, primary=prim, variation=v1, variation2=v2, **kw)
                except Exception as ex:
                    fail("python-variation2:" + name, "Particle(variation=%r, variation2=%r) raises %s although the C routine exists" % (v1, v2, type(ex).__name__), dict(kwargs=kw, error=str(ex)))
                    continue
                if vals(got)[:7] != vals(want)[:7]:
                    fail("python-variation2:" + name, "second-order variational particle differs from reb_particle_derivative_%s" % name, dict(kwargs=kw, pair=[v1, v2]))
                tick("variation2")
                c.count(("py-only", "variation2", name, classical))
    # jacobi_masses: same as an explicit primary = centre of mass with the Jacobi mass
    for rep_ in range(40):
        sim = base_sim()
        kw = dict(m=rng.choice([0.0, 1e-3]), a=rng.uniform(1.5, 4), e=rng.uniform(0, 0.5), inc=rng.uniform(0, 1), f=rng.uniform(0, 6)) if rep_ % 2 else \
            dict(m=1e-3, a=rng.uniform(1.5, 4), h=rng.uniform(-0.3, 0.3), k=rng.uniform(-0.3, 0.3), ix=rng.uniform(-0.3, 0.3), l=rng.uniform(0, 6))
        got = P(simulation=sim, jacobi_masses=True, **kw)
        com = clib.reb_simulation_com(ctypes.byref(sim))
        interior = 0
        for q_ in sim.particles:
            interior += q_.m
        com.m = sim.particles[0].m * (kw["m"] + interior) / interior - kw["m"]
        want = P(simulation=sim, primary=com, **kw)
        if vals(got) != vals(want):
            fail("python-jacobi-masses", "Particle(jacobi_masses=True) is not the orbit around the centre of mass with the Jacobi mass", dict(kwargs=kw, got=vals(got), want=vals(want)))
        tick("jacobi_masses")
        c.count(("py-only", "jacobi", rep_ % 2))
    # "uniform": the value drawn is reb_random_uniform(sim, 0, 2 pi) with the simulation's seed
    clib.reb_random_uniform.restype = D
    for nm in ["Omega", "omega", "pomega", "f", "M", "E", "l", "theta", "inc"]:
        s1, s2 = base_sim(), None
        seed = rng.randint(1, 2 ** 31 - 1)
        s1.rand_seed = seed
        s2 = s1.copy()
        s2.rand_seed = seed
        u = clib.reb_random_uniform(ctypes.byref(s2), D(0.0), D(2 * PI))
        kw = dict(a=1.7, e=0.1)
        got = P(simulation=s1, **dict(kw, **{nm: "uniform"}))
        want = P(simulation=s2, **dict(kw, **{nm: u}))
        if not (0.0 <= u < 2 * PI) or vals(got) != vals(want):
            fail("python-uniform:" + nm, "%s=\"uniform\" is not %s=reb_random_uniform(sim, 0, 2pi)" % (nm, nm), dict(name=nm, u=u, got=vals(got), want=vals(want)))
        tick("uniform")
        c.count(("py-only", "uniform", nm))
    # pal_* aliases
    for nm in ["h", "k", "ix", "iy"]:
        sim = base_sim()
        x_ = rng.uniform(-0.3, 0.3)
        g1 = P(simulation=sim, a=2.0, **{nm: x_})
        g2 = P(simulation=sim, a=2.0, **{"pal_" + nm: x_})
        if vals(g1) != vals(g2):
            fail("python-pal-alias:" + nm, "pal_%s is not an alias of %s" % (nm, nm), dict(name=nm, value=x_))
        try:
            P(simulation=sim, a=2.0, **{nm: x_, "pal_" + nm: x_})
            fail("python-pal-alias-both:" + nm, "passing both %s and pal_%s is accepted" % (nm, nm), dict(name=nm))
        except ValueError:
            pass
        tick("pal_alias")
        c.count(("py-only", "alias", nm))
    c.cov["python_only_arguments"] = stats


a_decades = set()


# ------------------------------------------------------------------ pairwise covering array of the configuration factors
PW_FACTORS = {
    "entry": ["Particle", "sim.add", "add_fmt", "from_fmt", "from_orbit", "from_orbit_err", "from_pal", "setter"],
    "kind": ["classical", "pal"],
    "lon": ["-", "f", "M", "E", "l", "theta", "T"],
    "peri": ["-", "omega", "pomega"],
    "size": ["a", "P"],
    "orbit": ["circ0", "nearcirc", "ell", "ell-high", "hyp", "hyp-nearpar"],
    "inc": ["0", "tiny", "pro", "pi/2", "retro", "pi-tiny", "pi"],
    "primary": ["com", "particle", "index", "hash"],
    "G": ["1", "4pi2", "small", "rand"],
    "t0": ["0", "pos", "neg"],
    "phase": ["generic", "zero", "peri", "apo", "big", "neg"],
    "ascale": ["1e-6", "1e-3", "1", "1e3", "1e6"],
    "read": ["orbit(primary)", "orbit()", "orbits()", "attribute", "C:orbit_from_particle", "C:orbit_from_particle_err",
             "particle_to_pal", "output_orbits"],
}
HYP = ("hyp", "hyp-nearpar")
# combinations the code rejects or that are meaningless — excluded explicitly (factor, value, factor, value, reason)
PW_FORBIDDEN = []
for _o in HYP:
    PW_FORBIDDEN += [("size", "P", "orbit", _o, "a period does not define a hyperbola"),
                     ("phase", "apo", "orbit", _o, "no apocentre"), ("phase", "big", "orbit", _o, "f must stay inside the asymptotes"),
                     ("kind", "pal", "orbit", _o, "Pal elements describe bound orbits"),
                     ("read", "particle_to_pal", "orbit", _o, "reb_tools_particle_to_pal is for bound orbits")]
for _l in ("f", "M", "E", "theta", "T"):
    PW_FORBIDDEN.append(("kind", "pal", "lon", _l, "error 7: only l may accompany Pal elements"))
for _p in ("omega", "pomega"):
    PW_FORBIDDEN.append(("kind", "pal", "peri", _p, "error 7"))
for _i in ("pi", "pi-tiny"):
    PW_FORBIDDEN += [("kind", "pal", "inc", _i, "Pal variables are singular at inc = pi"), ("read", "particle_to_pal", "inc", _i, "singular at inc = pi"),
                     ("entry", "from_pal", "inc", _i, "singular at inc = pi")]
for _e in ("from_orbit", "from_orbit_err"):
    PW_FORBIDDEN += [("entry", _e, "kind", "pal", "takes classical elements"), ("entry", _e, "size", "P", "takes a"),
                     ("entry", _e, "peri", "pomega", "takes omega"), ("entry", _e, "primary", "index", "takes a particle"),
                     ("entry", _e, "primary", "hash", "takes a particle")]
    for _l in ("M", "E", "l", "theta", "T"):
        PW_FORBIDDEN.append(("entry", _e, "lon", _l, "takes f"))
PW_FORBIDDEN += [("entry", "from_pal", "kind", "classical", "takes Pal elements"), ("entry", "from_pal", "size", "P", "takes a"),
                 ("entry", "from_pal", "primary", "index", "takes a particle"), ("entry", "from_pal", "primary", "hash", "takes a particle"),
                 ("entry", "from_pal", "peri", "omega", "takes Pal elements"), ("entry", "from_pal", "peri", "pomega", "takes Pal elements")]
for _l in ("f", "M", "E", "theta", "T"):
    PW_FORBIDDEN.append(("entry", "from_pal", "lon", _l, "takes lambda"))
for _o in HYP:
    PW_FORBIDDEN.append(("entry", "from_pal", "orbit", _o, "bound orbits only"))
for _e in ("add_fmt", "from_fmt"):
    PW_FORBIDDEN += [("entry", _e, "primary", "index", "the C front end takes a particle"), ("entry", _e, "primary", "hash", "the C front end takes a particle")]
PW_FORBIDDEN += [("entry", "setter", "lon", "E", "there is no E setter"), ("entry", "setter", "primary", "particle", "setters use the Jacobi centre of mass"),
                 ("entry", "setter", "primary", "index", "setters use the Jacobi centre of mass"), ("entry", "setter", "primary", "hash", "setters use the Jacobi centre of mass")]
_forb = set()
for f1, v1, f2, v2, _why in PW_FORBIDDEN:
    _forb.add((f1, v1, f2, v2)); _forb.add((f2, v2, f1, v1))


def pw_valid(case):
    ks = list(case)
    for i, f in enumerate(ks):
        for g in ks[i + 1:]:
            if (f, case[f], g, case[g]) in _forb:
                return False
    return True


def pw_pairs(case):
    ks = sorted(case)
    return {(f, case[f], g, case[g]) for i, f in enumerate(ks) for g in ks[i + 1:]}


def covering_array(rng, factors, tries=150):
    """greedy all-pairs: repeatedly take, out of `tries` random valid cases (half of them seeded with a still
    uncovered pair), the one covering most uncovered pairs"""
    names = sorted(factors)
    allp = set()
    for i, f in enumerate(names):
        for g in names[i + 1:]:
            for a in factors[f]:
                for b in factors[g]:
                    if (f, a, g, b) not in _forb:
                        allp.add((f, a, g, b))
    excluded = sum(len(factors[f]) * len(factors[g]) for i, f in enumerate(names) for g in names[i + 1:]) - len(allp)
    uncovered = set(allp)
    cases = []
    stall = 0
    while uncovered and stall < 30:
        best, bestn = None, 0
        ul = sorted(uncovered)      # deterministic order (set iteration depends on the hash seed)
        for t in range(tries):
            case = dict((f, rng.choice(factors[f])) for f in names)
            if t % 2 == 0:
                f, a, g, b = ul[rng.randint(0, len(ul) - 1)]
                case[f], case[g] = a, b
            if not pw_valid(case):
                continue
            n = len(pw_pairs(case) & uncovered)
            if n > bestn:
                best, bestn = case, n
        if best is None:
            stall += 1
            continue
        stall = 0
        cases.append(best)
        uncovered -= pw_pairs(best)
    return cases, allp, excluded, uncovered


def pairwise_roundtrips(c, rebound, clib, P, rng, fail, track, thorough, check_reader, add):
    """every pair of values of the configuration factors (element set x orbit class x inclination class x primary x G x t0 x
    phase class x scale x constructing entry point x reading entry point) is generated at least once per run (greedy covering
    array; 3-way for anomaly kind x orbit class x inclination class) and crossed with the element oracle"""
    cases, allp, excluded, uncovered = covering_array(rng, PW_FACTORS)
    # 3-way: the factors closest to the mechanism
    three = []
    for lo in PW_FACTORS["lon"]:
        for ob in PW_FACTORS["orbit"]:
            for ic in PW_FACTORS["inc"]:
                case = dict((f, rng.choice(PW_FACTORS[f])) for f in PW_FACTORS)
                case.update(lon=lo, orbit=ob, inc=ic, kind="classical")
                for _ in range(60):
                    if pw_valid(case):
                        break
                    for f in ("entry", "size", "phase", "primary", "read", "peri"):
                        case[f] = rng.choice(PW_FACTORS[f])
                if pw_valid(case):
                    three.append(case)
    reps = 6 if thorough else 1
    seen = set()
    stats = {"cases": 0, "threeway_cases": 0, "created": 0, "rejected_by_code": 0}
    clib.reb_hash.restype = ctypes.c_uint32

    def values(case):
        ob = case["orbit"]
        e = {"circ0": 0.0, "nearcirc": 10 ** rng.uniform(-9, -7), "ell": rng.uniform(0.01, 0.8), "ell-high": rng.uniform(0.9, 0.995),
             "hyp": rng.uniform(1.2, 4.0), "hyp-nearpar": 1 + 10 ** rng.uniform(-4, -2)}[ob]
        hyp = ob in HYP
        inc = {"0": 0.0, "tiny": 10 ** rng.uniform(-12, -9), "pro": rng.uniform(0.05, 1.5), "pi/2": PI / 2, "retro": rng.uniform(1.65, 3.0),
               "pi-tiny": PI - 10 ** rng.uniform(-12, -9), "pi": PI}[case["inc"]]
        a = float(case["ascale"]) * rng.uniform(0.5, 2.0) * (-1 if hyp else 1)
        G = {"1": 1.0, "4pi2": 39.476926421373, "small": 6.674e-11, "rand": 10 ** rng.uniform(-3, 3)}[case["G"]]
        t0 = {"0": 0.0, "pos": 2.5, "neg": -12.5}[case["t0"]]
        ph = case["phase"]
        x = {"generic": rng.uniform(0.3, 2 * PI - 0.3), "zero": 0.0, "peri": rng.choice([1, -1]) * 10 ** rng.uniform(-9, -4),
             "apo": PI + rng.choice([1, -1]) * 10 ** rng.uniform(-9, -4), "big": rng.uniform(2 * PI, 300), "neg": -rng.uniform(0.1, 300)}[ph]
        if hyp:
            fmax = math.acos(-1 / e)
            if case["lon"] in ("f", "theta", "-"):
                x = {"generic": rng.uniform(-0.9, 0.9) * fmax, "zero": 0.0, "peri": x, "neg": -rng.uniform(0.05, 0.9) * fmax}[ph]
            else:
                x = {"generic": rng.uniform(-3, 3), "zero": 0.0, "peri": x, "neg": -rng.uniform(0.1, 30)}[ph]
        return e, inc, a, G, t0, x, hyp

    def run_case(case, tag):
        e, inc, a, G, t0, x, hyp = values(case)
        pal = case["kind"] == "pal"
        sim = rebound.Simulation()
        sim.G = G
        sim.t = t0
        L_ = abs(a)
        mstar = 1.0
        vsc = math.sqrt(G * mstar / L_)
        sim.add(m=mstar, x=0.3 * L_, y=-0.2 * L_, z=0.1 * L_, vx=0.01 * vsc, vy=-0.02 * vsc, vz=0.005 * vsc, hash="star")
        sim.add(m=1e-3 * mstar, a=0.3 * L_, e=0.05, inc=0.1, f=1.0, hash="inner")
        prim_kind = case["primary"]
        com = clib.reb_simulation_com(ctypes.byref(sim))
        prim = com if prim_kind == "com" else sim.particles[0]
        prv = [prim.x, prim.y, prim.z, prim.vx, prim.vy, prim.vz, prim.m]
        m = rng.choice([0.0, 1e-4 * mstar])
        mu = G * (prv[6] + m)
        Om = rng.choice([rng.uniform(0, 2 * PI), -rng.uniform(0, 7), 0.0])
        om = rng.choice([rng.uniform(0, 2 * PI), rng.uniform(-7, 30), 0.0])
        pro = math.cos(inc) > 0
        nmean = math.sqrt(mu / abs(a) ** 3)
        kw = {"m": m}
        if pal:
            ee = min(e, 0.9)
            pom = rng.uniform(0, 2 * PI)
            h_, k_ = ee * math.sin(pom), ee * math.cos(pom)
            ixv, iyv = 2 * math.sin(inc / 2) * math.cos(Om), 2 * math.sin(inc / 2) * math.sin(Om)
            lam = x if case["lon"] == "l" else 0.0
            kw.update(h=h_, k=k_, ix=ixv, iy=iyv)
            if case["lon"] == "l":
                kw["l"] = lam
            e, om = ee, math.atan2(h_, k_) - Om
            M = lam - math.atan2(h_, k_)
            f = f_of_E(e, solve_kepler(e, M))
            if abs(math.sin(inc / 2)) < 1e-9:
                Om = 0.0
                om = math.atan2(h_, k_)
        else:
            kw.update(e=e, inc=inc, Omega=Om)
            if case["peri"] == "omega":
                kw["omega"] = om
            elif case["peri"] == "pomega":
                kw["pomega"] = (Om + om) if pro else (Om - om)
            else:
                om = 0.0
            lon = case["lon"]
            if lon in ("-", "f"):
                f = x if lon == "f" else 0.0
                if lon == "f":
                    kw["f"] = f
            elif lon == "theta":
                f = x
                kw["theta"] = (Om + om + f) if pro else (Om - om - f)
            elif lon == "E":
                kw["E"] = x
                f = f_of_E(e, x)
            else:
                M = x
                if lon == "M":
                    kw["M"] = M
                elif lon == "l":
                    kw["l"] = (Om + om + M) if pro else (Om - om - M)
                    M = (kw["l"] - Om - om) if pro else (Om - om - kw["l"])
                else:
                    kw["T"] = t0 - M / nmean
                    M = nmean * (t0 - kw["T"])
                f = f_of_E(e, solve_kepler_hyp(e, M) if hyp else solve_kepler(e, M))
        if case["size"] == "P" and not pal:
            kw["P"] = 2 * PI * math.sqrt(a ** 3 / mu)
        else:
            kw["a"] = a
        rep = dict(case=case, kwargs=kw, G=G, t=t0, primary=prv)
        entry = case["entry"]
        names = [k_ for k_ in kw]
        pkw = dict(kw)
        if prim_kind == "particle":
            pkw["primary"] = sim.particles[0]
        elif prim_kind == "index":
            pkw["primary"] = 0
        elif prim_kind == "hash":
            pkw["primary"] = "star"
        cargs = [D(kw[n_]) for n_ in names]
        cfmt = " ".join(names)
        if prim_kind == "particle":
            cfmt += " primary"
            cargs.append(sim.particles[0])
        newp = None
        try:
            if entry in ("Particle", "setter"):
                newp = P(simulation=sim, **pkw); exercised("Particle.__init__")
                sim.add(newp); exercised("Simulation.add")
            elif entry == "sim.add":
                sim.add(**pkw); exercised("Simulation.add", "Particle.__init__")
            elif entry == "add_fmt":
                clib.reb_simulation_add_fmt(ctypes.byref(sim), cfmt.encode(), *cargs); exercised("reb_simulation_add_fmt")
                sim.process_messages()
            elif entry == "from_fmt":
                with CapStderr() as cap:
                    q_ = clib.reb_particle_from_fmt(ctypes.byref(sim), cfmt.encode(), *cargs)
                exercised("reb_particle_from_fmt")
                if "Error" in cap.text:
                    raise RuntimeError(cap.text.strip())
                sim.add(q_)
            elif entry in ("from_orbit", "from_orbit_err"):
                if entry == "from_orbit":
                    clib.reb_particle_from_orbit.restype = P
                    q_ = clib.reb_particle_from_orbit(D(G), prim, D(m), D(a), D(e), D(inc), D(Om), D(om), D(f)); exercised("reb_particle_from_orbit")
                else:
                    er_ = ctypes.c_int(0)
                    q_ = clib.reb_particle_from_orbit_err(D(G), prim, D(m), D(a), D(e), D(inc), D(Om), D(om), D(f), ctypes.byref(er_)); exercised("reb_particle_from_orbit_err")
                    if er_.value:
                        raise RuntimeError("error %d" % er_.value)
                sim.add(q_)
            elif entry == "from_pal":
                q_ = clib.reb_particle_from_pal(D(G), prim, D(m), D(a), D(kw.get("l", 0.0)), D(kw["k"]), D(kw["h"]), D(kw["ix"]), D(kw["iy"])); exercised("reb_particle_from_pal")
                sim.add(q_)
        except (ValueError, RuntimeError) as ex:
            stats["rejected_by_code"] += 1
            fail("pairwise-valid-rejected:%s" % entry, "valid elements rejected through %s: %s" % (entry, str(ex)[:120]), rep)
            return
        if sim.N != 3:
            fail("pairwise-not-added:%s" % entry, "no particle was added through %s" % entry, rep)
            return
        stats["created"] += 1
        p = sim.particles[2]
        pv = [p.x, p.y, p.z, p.vx, p.vy, p.vz, p.m]
        if not all(math.isfinite(v_) for v_ in pv):
            fail("pairwise-nonfinite:%s/%s" % (case["lon"], case["orbit"]), "valid elements give a non-finite particle", rep)
            return
        # ---- oracle: Cartesian state relative to the primary the elements refer to
        want = kepler_to_cart(mu, a, e, inc, Om, om, f)
        rel = [pv[j] - prv[j] for j in range(6)]
        rs = math.sqrt(sum(w * w for w in want[:3])); vs = math.sqrt(sum(w * w for w in want[3:]))
        big = max(1.0, abs(x), abs(Om), abs(om))
        cond = big * max(1.0, 1 / abs(1 - e)) ** 2 * max(1.0, (rs / abs(a)) ** 2 * 1e-7) * (1e3 if pal else 1.0)
        offp = 16 * 2.3e-16 * max(abs(w) for w in prv[:3]) / rs
        offv = 16 * 2.3e-16 * max(abs(w) for w in prv[3:6]) / vs
        ep_ = max(abs(rel[j] - want[j]) for j in range(3)) / rs
        ev_ = max(abs(rel[j] - want[j]) for j in range(3, 6)) / vs
        track("pairwise_vs_oracle", max(ep_ - offp, ev_ - offv, 0.0) / cond)
        if not (ep_ <= 1e-9 * cond + offp and ev_ <= 1e-9 * cond + offv):
            fail("pairwise-constructor:%s/%s/%s" % (entry, case["lon"], case["orbit"]), "the particle built is not the orbit the elements describe",
                 dict(rep, ep=ep_, ev=ev_, f_oracle=f))
        # ---- setters: change one element, the others must stay
        wellc = (0.05 < e < 0.8) and case["inc"] in ("pro", "retro") and not pal
        if entry == "setter":
            o0 = p.orbit()
            todo = []
            if case["size"] == "P" and not hyp:
                todo.append(("P", o0.P * rng.uniform(0.5, 2)))
            else:
                todo.append(("a", o0.a * rng.uniform(0.5, 2)))
            if case["peri"] != "-":
                todo.append((case["peri"], rng.uniform(0, 2 * PI)))
            if case["lon"] in ("f", "M", "l", "theta", "T") and not hyp:
                todo.append((case["lon"], rng.uniform(0, 2 * PI) if case["lon"] != "T" else t0 - rng.uniform(0, 1) * abs(o0.P)))
            todo.append((rng.choice(["e", "inc", "Omega"] if not hyp else ["inc", "Omega"]), None))
            if (pal or rng.chance(0.3)) and not hyp and e < 0.9 and case["inc"] in ("0", "tiny", "pro", "pi/2"):
                for nm_ in ["pal_h", "pal_k", "pal_ix", "pal_iy"]:
                    todo.append((nm_, rng.uniform(-0.2, 0.2)))
            for nm, val in todo:
                ob = p.orbit()
                if val is None:
                    val = {"e": rng.uniform(0.1, 0.7) if not hyp else rng.uniform(1.3, 3), "inc": rng.uniform(0.2, 1.2), "Omega": rng.uniform(0.1, 3)}[nm]
                try:
                    setattr(p, nm, val); exercised("Particle.%s.setter" % nm)
                except (ValueError, RuntimeError) as ex:
                    fail("setter-rejected:" + nm, "p.%s = value raises %s" % (nm, str(ex)[:100]), dict(rep, name=nm, value=val))
                    continue
                oa = p.orbit()
                got = getattr(oa, nm)
                ang = nm in ("Omega", "omega", "pomega", "f", "M", "l", "theta", "inc")
                okv = (angdiff(got, val) <= 1e-6) if ang else (abs(got - val) <= 1e-7 * max(abs(val), 1e-3) * (1 + abs(oa.n * val) if nm == "T" else 1))
                if nm == "T":
                    okv = angdiff(oa.n * (got - val), 0.0) <= 1e-6 * max(1.0, abs(oa.n * (t0 - val))) if oa.e < 1 else abs(oa.n * (got - val)) <= 1e-6 * max(1.0, abs(oa.n * (t0 - val)))
                if wellc and ob.e < 0.8 and oa.e < 0.8 and not okv:
                    fail("setter-readback:" + nm, "after p.%s = v the orbit does not report %s = v" % (nm, nm), dict(rep, name=nm, value=val, got=got))
                keep = {"a": ["e", "inc", "Omega", "omega", "f"], "P": ["e", "inc", "Omega", "omega", "f"], "e": ["a", "inc", "Omega", "omega", "f"],
                        "inc": ["a", "e", "Omega", "omega", "f"], "Omega": ["a", "e", "inc", "omega", "f"], "omega": ["a", "e", "inc", "Omega", "f"],
                        "pomega": ["a", "e", "inc", "Omega", "f"], "f": ["a", "e", "inc", "Omega", "omega"], "M": ["a", "e", "inc", "Omega", "omega"],
                        "l": ["a", "e", "inc", "Omega", "omega"], "theta": ["a", "e", "inc", "Omega", "omega"], "T": ["a", "e", "inc", "Omega", "omega"],
                        "pal_h": ["a", "pal_k", "pal_ix", "pal_iy"], "pal_k": ["a", "pal_h", "pal_ix", "pal_iy"],
                        "pal_ix": ["a", "pal_h", "pal_k", "pal_iy"], "pal_iy": ["a", "pal_h", "pal_k", "pal_ix"]}[nm]
                if wellc and ob.e < 0.8 and oa.e < 0.8 and 0.05 < oa.e and 0.05 < ob.e and abs(oa.inc - PI / 2) > 0.05 and abs(ob.inc - PI / 2) > 0.05 \
                        and (oa.inc < PI / 2) == (ob.inc < PI / 2):
                    for k2 in keep:
                        b_, a_ = getattr(ob, k2), getattr(oa, k2)
                        bad = (angdiff(a_, b_) > 1e-6) if k2 in ("inc", "Omega", "omega", "f") else (abs(a_ - b_) > 1e-7 * max(abs(b_), 1e-3))
                        if bad:
                            fail("setter-side-effect:%s->%s" % (nm, k2), "setting %s changes %s" % (nm, k2), dict(rep, name=nm, value=val, before=b_, after=a_))
                c.count(("pairwise", "setter", nm))
            pv = [p.x, p.y, p.z, p.vx, p.vy, p.vz, p.m]
        # ---- read back through the requested entry point
        read = case["read"]
        clib.reb_simulation_jacobi_com.restype = P
        jac = clib.reb_simulation_jacobi_com(ctypes.byref(p))
        same_primary = (prim_kind == "com")
        rprim = jac
        o = None
        if read == "orbit(primary)":
            rprim = sim.particles[0] if not same_primary else jac
            o = p.orbit(primary=rprim); exercised("Particle.orbit")
            same_primary = True
        elif read == "orbit()":
            o = p.orbit(); exercised("Particle.orbit")
        elif read == "orbits()":
            o = sim.orbits()[1]; exercised("Simulation.orbits")
        elif read == "attribute":
            class _O:
                pass
            o = _O()
            for k2 in ["d", "v", "h", "P", "n", "a", "rhill", "e", "inc", "Omega", "omega", "pomega", "f", "M", "l", "theta", "T",
                       "pal_h", "pal_k", "pal_ix", "pal_iy"]:
                setattr(o, k2, getattr(p, k2)); exercised("Particle." + k2)
            hv, evv = p.hvec, p.evec; exercised("Particle.hvec", "Particle.evec")
            oref = p.orbit()
            if [d2h(w) for w in hv] != [d2h(oref.hvec.x), d2h(oref.hvec.y), d2h(oref.hvec.z)] or \
                    [d2h(w) for w in evv] != [d2h(oref.evec.x), d2h(oref.evec.y), d2h(oref.evec.z)]:
                fail("attribute-vectors", "p.hvec / p.evec differ from p.orbit()", rep)
            for k2 in ORB_FIELDS:
                if d2h(getattr(o, k2)) != d2h(getattr(oref, k2)):
                    fail("attribute:" + k2, "p.%s differs from p.orbit().%s" % (k2, k2), rep)
        elif read in ("C:orbit_from_particle", "C:orbit_from_particle_err"):
            rprim = sim.particles[0] if not same_primary else jac
            same_primary = True
            if read.endswith("_err"):
                er_ = ctypes.c_int(0)
                o = clib.reb_orbit_from_particle_err(D(G), p, rprim, ctypes.byref(er_)); exercised("reb_orbit_from_particle_err")
            else:
                clib.reb_orbit_from_particle.restype = rebound.Orbit
                o = clib.reb_orbit_from_particle(D(G), p, rprim); exercised("reb_orbit_from_particle")
        elif read == "particle_to_pal":
            rprim = sim.particles[0] if not same_primary else jac
            same_primary = True
            outs = [D(0) for _ in range(6)]
            clib.reb_tools_particle_to_pal(D(G), p, rprim, *[ctypes.byref(w) for w in outs]); exercised("reb_tools_particle_to_pal")
            o = p.orbit(primary=rprim)
            for nm, w in zip(["a", None, "pal_k", "pal_h", "pal_ix", "pal_iy"], outs):
                if nm and math.isfinite(w.value) and o.e < 0.95 and not abs(w.value - getattr(o, nm)) <= 1e-9 * max(abs(w.value), 1.0) * cond:
                    fail("particle_to_pal-vs-orbit:" + nm, "reb_tools_particle_to_pal and reb_orbit_from_particle disagree on " + nm, dict(rep, got=w.value, want=getattr(o, nm)))
            add("p2pal %s %s %s" % (d2h(G), " ".join(d2h(w) for w in pv), " ".join(d2h(getattr(rprim, k2)) for k2 in COMPS + ["m"])),
                [d2h(w.value) for w in outs], "p2pal", rep)
        elif read == "output_orbits":
            fn = tempfile.mktemp(prefix="c11orb.")
            clib.reb_simulation_output_orbits(ctypes.byref(sim), fn.encode()); exercised("reb_simulation_output_orbits")
            try:
                rows = [l.split() for l in open(fn).read().splitlines()]
            finally:
                if os.path.exists(fn):
                    os.remove(fn)
            o = p.orbit()
            if len(rows) != 2:
                fail("output_orbits-rows", "reb_simulation_output_orbits wrote %d rows for N=3" % len(rows), rep)
            else:
                tt, oa_, oe_, oi_, oO_, oo_, ol_, oP_, of_ = [float(w) for w in rows[1]]
                for nm, got_ in (("a", oa_), ("e", oe_), ("inc", oi_), ("Omega", oO_), ("omega", oo_), ("l", ol_), ("P", oP_), ("f", of_)):
                    w_ = getattr(o, nm)
                    if w_ == w_ and not abs(got_ - w_) <= 2e-6 * max(abs(w_), 1e-300) + 1e-300:
                        fail("output_orbits:" + nm, "reb_simulation_output_orbits column %s is not the Jacobi orbit" % nm, dict(rep, got=got_, want=w_))
                if abs(tt - t0) > 1e-6 * max(1.0, abs(t0)):
                    fail("output_orbits:t", "time column wrong", dict(rep, got=tt))
        # tie + all reader relations on the state with the primary actually used
        check_reader(G, pv, [rprim.x, rprim.y, rprim.z, rprim.vx, rprim.vy, rprim.vz, rprim.m], "pairwise:" + read)
        # elements given == elements read (well conditioned, same primary, not modified by setters)
        if o is not None and same_primary and entry != "setter" and wellc and abs(inc - PI / 2) > 0.05 and not hyp:
            condr = cond * 10
            if not abs(o.a - a) <= 1e-9 * abs(a) * condr or not abs(o.e - e) <= 1e-9 * condr or angdiff(o.inc, inc) > 1e-7:
                fail("pairwise-readback-a-e-inc:" + read, "elements read back differ from the elements given", dict(rep, a=o.a, e=o.e, inc=o.inc))
            lon = case["lon"]
            if lon in ("f", "M", "l", "theta") and angdiff(getattr(o, lon), kw[lon]) > 1e-6 * condr:
                fail("pairwise-readback-%s:%s" % (lon, read), "%s read back differs from the %s given" % (lon, lon), dict(rep, got=getattr(o, lon)))
            if lon == "T" and angdiff(nmean * (o.T - kw["T"]), 0.0) > 1e-6 * condr * max(1.0, abs(nmean * (t0 - kw["T"]))):
                fail("pairwise-readback-T:" + read, "T read back differs from the T given", dict(rep, got=o.T))
        seen.update(pw_pairs(case))
        c.count(("pairwise", tag, entry, read, case["lon"], case["orbit"], case["inc"]))

    for r_ in range(reps):
        for case in cases:
            run_case(case, "2way")
            stats["cases"] += 1
    for case in three:
        run_case(case, "3way")
        stats["threeway_cases"] += 1
    # every setter at least once per run, on a well-conditioned orbit, with the read-back oracle
    for nm in ["a", "P", "e", "inc", "Omega", "omega", "pomega", "f", "M", "l", "theta", "T", "pal_h", "pal_k", "pal_ix", "pal_iy"]:
        s3 = rebound.Simulation(); s3.G = rng.choice([1.0, 39.476926421373]); s3.t = rng.choice([0.0, 2.5])
        s3.add(m=1.0, x=0.1, vy=0.01); s3.add(m=1e-3, a=0.4, e=0.05)
        s3.add(m=1e-4, a=1.7, e=0.3, inc=0.5, Omega=0.7, omega=1.1, f=2.0)
        q = s3.particles[2]
        ob = q.orbit()
        val = {"a": 2.3, "P": ob.P * 1.5, "e": 0.45, "inc": 0.8, "Omega": 1.9, "omega": 2.4, "pomega": 4.0, "f": 0.6, "M": 1.2, "l": 5.0, "theta": 3.3,
               "T": s3.t - 0.3 * ob.P, "pal_h": 0.11, "pal_k": -0.2, "pal_ix": 0.3, "pal_iy": -0.1}[nm]
        setattr(q, nm, val); exercised("Particle.%s.setter" % nm)
        oa = q.orbit()
        got = getattr(oa, nm)
        if nm == "T":
            okv = angdiff(oa.n * (got - val), 0.0) <= 1e-7
        elif nm in ("Omega", "omega", "pomega", "f", "M", "l", "theta", "inc"):
            okv = angdiff(got, val) <= 1e-7
        else:
            okv = abs(got - val) <= 1e-9 * max(abs(val), 1.0)
        if not okv:
            fail("setter-readback:" + nm, "after p.%s = v the orbit does not report %s = v" % (nm, nm), dict(name=nm, value=val, got=got))
        c.count(("setter-smoke", nm))
    # E property of Orbit, sample_orbit, tools wrappers: cheap smoke with oracle
    sim = rebound.Simulation(); sim.add(m=1.0); sim.add(a=1.3, e=0.3, inc=0.2, Omega=0.1, omega=0.4, M=1.1)
    o = sim.particles[1].orbit()
    if abs(math.remainder(o.E - o.e * math.sin(o.E) - o.M, 2 * PI)) > 1e-12:
        fail("Orbit.E", "Orbit.E does not satisfy Kepler's equation", dict(E=o.E, M=o.M, e=o.e))
    exercised("Orbit.E")
    for hypc in (False, True):
        s2 = rebound.Simulation(); s2.add(m=1.0)
        s2.add(a=-1.3 if hypc else 1.3, e=1.7 if hypc else 0.3, inc=0.4, Omega=0.3, omega=0.2, f=0.3)
        pts = s2.particles[1].sample_orbit(Npts=40, primary=s2.particles[0]); exercised("Particle.sample_orbit")
        o2 = s2.particles[1].orbit(primary=s2.particles[0])
        for xyz in pts:
            rr = math.sqrt(sum(w * w for w in xyz))
            # every sampled point lies on the conic: r (1 + e cos f) = a (1 - e^2) with cos f from the e-vector
            cf_ = (xyz[0] * o2.evec.x + xyz[1] * o2.evec.y + xyz[2] * o2.evec.z) / (rr * o2.e)
            if not abs(rr * (1 + o2.e * cf_) - o2.a * (1 - o2.e ** 2)) <= 1e-9 * abs(o2.a):
                fail("sample_orbit", "sample_orbit returns a point off the osculating conic", dict(hyperbolic=hypc, point=list(xyz)))
                break
    for nm, fn, cfn in (("mod2pi", rebound.mod2pi, clib.reb_mod2pi), ("M_to_E", rebound.M_to_E, clib.reb_M_to_E),
                        ("M_to_f", rebound.M_to_f, clib.reb_M_to_f), ("E_to_f", rebound.E_to_f, clib.reb_E_to_f)):
        for _ in range(20):
            e_, x_ = rng.choice([rng.uniform(0, 0.95), rng.uniform(1.1, 3)]), rng.uniform(-20, 20)
            g_ = fn(x_) if nm == "mod2pi" else fn(e_, x_)
            w_ = cfn(D(x_)) if nm == "mod2pi" else cfn(D(e_), D(x_))
            if d2h(g_) != d2h(w_):
                fail("tools-wrapper:" + nm, "rebound.%s differs from reb_%s" % (nm, nm), dict(e=e_, x=x_))
        exercised("rebound." + nm, "reb_" + nm)
    total = len(allp)
    missing = sorted(allp - seen)
    c.cov["pairs"] = {"covered": len(seen & allp), "total": total, "excluded": excluded, "cases": len(cases), "threeway_cases": len(three),
                      "factors": dict((f, len(v)) for f, v in PW_FACTORS.items()), "missing": [list(m_) for m_ in missing[:20]],
                      "exclusion_reasons": sorted({w[4] for w in PW_FORBIDDEN})}
    c.cov["pairwise_stats"] = stats
    if missing:
        c.broken.append("pairwise coverage of the configuration factors incomplete: %d of %d pairs never generated (first: %s)" % (len(missing), total, missing[0]))


def roundtrips(c, rebound, clib, P, rng, fail, track, thorough, check_reader, rand_inc, rand_angle, add):
    """elements -> sim.add -> particle.orbit() -> elements, every anomaly / longitude, a or P,
    omega or pomega, bound and unbound, through the *Python* objects."""
    n = 40000 if thorough else 2500
    hist = {}
    for i in range(n):
        sim = rebound.Simulation()
        sim.G = rng.choice([1.0, 39.476926421373])
        sim.t = rng.choice([0.0, 2.5])
        sim.add(m=rng.choice([1.0, 0.3]))
        hyp = rng.chance(0.3)
        e = rng.choice([rng.uniform(1.05, 4), 1 + 10 ** rng.uniform(-4, -1)]) if hyp else rng.choice([0.0, rng.uniform(0, 0.95), 10 ** rng.uniform(-9, -3), rng.uniform(0, 0.3)])
        a = -10 ** rng.uniform(-6, 6) if hyp else 10 ** rng.uniform(-6, 6)
        a_decades.add(int(math.floor(math.log10(abs(a)))))
        inc = rand_inc()
        Om = rand_angle()
        kw = dict(m=rng.choice([0.0, 1e-3]), e=e, inc=inc, Omega=Om)
        useP = (not hyp) and rng.chance(0.3)
        mu = sim.G * (sim.particles[0].m + kw["m"])
        if useP:
            kw["P"] = 2 * PI * math.sqrt(a ** 3 / mu)
        else:
            kw["a"] = a
        peri = rng.choice(["omega", "pomega", None])
        if peri:
            kw[peri] = rand_angle()
        lon = rng.choice(["f", "M", "E", "l", "theta", "T", None])
        fmax = math.acos(-1 / e) if hyp else None
        if lon == "f":
            kw["f"] = rng.uniform(-0.98, 0.98) * fmax if hyp else rand_angle()
            if hyp and rng.chance(0.25):
                kw["f"] = 0.0
        elif lon == "theta":
            # keep f inside the asymptotes for hyperbolae
            if hyp:
                f = rng.uniform(-0.98, 0.98) * fmax
                pro = math.cos(inc) > 0
                om_ = kw.get("omega", (kw["pomega"] - Om if pro else Om - kw["pomega"]) if peri == "pomega" else 0.0)
                kw["theta"] = (Om + om_ + f) if pro else (Om - om_ - f)
            else:
                kw["theta"] = rand_angle()
        elif lon in ("M", "l"):
            kw[lon] = rng.choice([rand_angle(), rng.uniform(-30, 30), 0.0]) if not hyp else rng.choice([rng.uniform(-20, 20), 0.0, rng.uniform(-1e-3, 1e-3)])
        elif lon == "E":
            kw["E"] = rand_angle() if not hyp else rng.uniform(-4, 4)
        elif lon == "T":
            kw["T"] = rng.choice([sim.t, sim.t + rng.uniform(-3, 3) * math.sqrt(abs(a) ** 3 / mu), rng.uniform(-10, 10)])
        key = ("hyp" if hyp else "ell", lon, peri, "P" if useP else "a")
        hist["/".join(str(k) for k in key)] = hist.get("/".join(str(k) for k in key), 0) + 1
        rep = dict(G=sim.G, t=sim.t, m0=sim.particles[0].m, kwargs=kw)
        try:
            sim.add(**kw)
        except ValueError as ex:
            fail("valid-elements-rejected", "sim.add rejects valid elements: %s" % ex, rep)
            continue
        p = sim.particles[1]
        pv = [p.x, p.y, p.z, p.vx, p.vy, p.vz, p.m]
        c.count(("roundtrip",) + key + (inc in (0.0, PI, PI / 2), e == 0.0))
        # the same elements through the C front end
        nmean_ = math.sqrt(mu / abs(a) ** 3)
        simc = rebound.Simulation()
        simc.G, simc.t = sim.G, sim.t
        simc.add(m=sim.particles[0].m)
        names = list(kw)
        com = clib.reb_simulation_com(ctypes.byref(simc))
        clib.reb_simulation_add_fmt(ctypes.byref(simc), ",".join(names).encode(), *[D(kw[n_]) for n_ in names])
        if simc.N == 2:
            q_ = simc.particles[1]
            add("fmt %s %s %s %s" % (d2h(simc.G), d2h(simc.t), " ".join(d2h(x) for x in [com.x, com.y, com.z, com.vx, com.vy, com.vz, com.m]),
                                     " ".join("%s=%s" % (n_, d2h(kw[n_])) for n_ in names)),
                [d2h(x) for x in [q_.x, q_.y, q_.z, q_.vx, q_.vy, q_.vz, q_.m]], "fmt", rep)
        cerr = None
        try:
            simc.process_messages()
        except RuntimeError as ex:
            cerr = str(ex)
        if cerr is not None or simc.N != 2:
            fail("front-ends-verdict-valid-elements", "reb_simulation_add_fmt rejects valid elements that sim.add accepts: %s" % cerr, rep)
        else:
            q = simc.particles[1]
            qv = [q.x, q.y, q.z, q.vx, q.vy, q.vz, q.m]
            if [d2h(x) for x in qv] != [d2h(x) for x in pv]:
                sp = max(abs(x) for x in pv[:3]) or 1.0
                sv = max(abs(x) for x in pv[3:6]) or 1.0
                both_nan = all((a_ != a_) == (b_ != b_) for a_, b_ in zip(pv, qv))
                relc = max([abs(x - y) / sp for x, y in zip(pv[:3], qv[:3]) if x == x and y == y] +
                           [abs(x - y) / sv for x, y in zip(pv[3:6], qv[3:6]) if x == x and y == y] + [0.0])
                conv = ("P" in kw) or ("T" in kw)
                # an ulp on n (pow vs sqrt/cbrt) is multiplied by |M| = n |t - T|, then by df/dM
                Mmag = nmean_ * abs(sim.t - kw["T"]) if "T" in kw else 0.0
                amp = max(1.0, Mmag) * (1.0 / abs(1 - e) ** 2)
                track("front_ends_PT_rel", relc / amp)
                if not (both_nan and conv and relc <= 4 * 2.3e-16 * 8 * amp):
                    fail("front-ends-particle-valid-elements" + ("-PT" if conv else ""), "C and Python front ends build different particles from the same valid elements",
                         dict(rep, c=qv, python=pv, rel=relc))
        if not all(math.isfinite(v) for v in pv):
            pro_ = math.cos(inc) > 0
            om__ = kw.get("omega", ((kw["pomega"] - Om) if pro_ else (Om - kw["pomega"])) if peri == "pomega" else 0.0)
            m_zero = hyp and ((lon == "M" and kw["M"] == 0.0) or (lon == "T" and kw["T"] == sim.t) or
                              (lon == "l" and ((kw["l"] - Om - om__) if pro_ else (Om - om__ - kw["l"])) == 0.0))
            if m_zero:
                fail(F3, "reb_M_to_E(e>1, M=0) returns NaN (M/fabs(M)) -> NaN particle from M=0, l or T=t on a hyperbola", rep)
            else:
                fail("valid-elements-nonfinite:%s" % lon, "sim.add(valid elements) builds a non-finite particle", rep)
            continue
        # independent oracle for the constructor: elements -> f -> rotation matrices
        pro = math.cos(inc) > 0
        om_ = kw.get("omega")
        if om_ is None:
            om_ = ((kw["pomega"] - Om) if pro else (Om - kw["pomega"])) if peri == "pomega" else 0.0
        nmean = math.sqrt(mu / abs(a) ** 3)
        if lon in (None, "f"):
            f = kw.get("f", 0.0)
        elif lon == "theta":
            f = (kw["theta"] - Om - om_) if pro else (Om - om_ - kw["theta"])
        else:
            if lon == "M":
                M = kw["M"]
            elif lon == "l":
                M = (kw["l"] - Om - om_) if pro else (Om - om_ - kw["l"])
            elif lon == "T":
                M = nmean * (sim.t - kw["T"])
            if lon == "E":
                f = f_of_E(e, kw["E"])
            else:
                f = f_of_E(e, solve_kepler_hyp(e, M) if hyp else solve_kepler(e, M))
        want = kepler_to_cart(mu, a, e, inc, Om, om_, f)
        pr0 = sim.particles[0]
        rel = [pv[j] - getattr(pr0, COMPS[j]) for j in range(6)]
        rs = math.sqrt(sum(x * x for x in want[:3])); vs = math.sqrt(sum(x * x for x in want[3:]))
        big = max(1.0, max(abs(x) for x in kw.values() if isinstance(x, float)))
        if lon == "T":
            big = max(big, nmean * abs(sim.t - kw["T"]))      # |M| = n |t - T|
        rnow = math.sqrt(sum(x * x for x in want[:3]))
        cond = big * (max(1.0, 1 / abs(1 - e)) ** 2) * max(1.0, (rnow / abs(a)) ** 2 * 1e-7)
        ep = max(abs(rel[j] - want[j]) for j in range(3)) / rs
        ev = max(abs(rel[j] - want[j]) for j in range(3, 6)) / vs
        track("python_constructor_vs_oracle", max(ep, ev) / cond)
        if not (ep <= 1e-9 * cond and ev <= 1e-9 * cond):
            fail("constructor-vs-oracle:%s/%s" % (lon, peri), "sim.add(elements) is not the orbit the elements describe", dict(rep, ep=ep, ev=ev, f_oracle=f))
        # reader through the Python API (+ model tie + all relation checks)
        o = p.orbit(primary=sim.particles[0])
        check_reader(sim.G, pv, [pr0.x, pr0.y, pr0.z, pr0.vx, pr0.vy, pr0.vz, pr0.m], "python:%s" % lon)
        # read back what was passed (well-conditioned cases only)
        if abs(inc - PI / 2) > 1e-6 and 1e-6 < inc < PI - 1e-6 and e > 1e-6 and abs(1 - e) > 1e-3:
            conde = cond * 10
            if not abs(o.a - a) <= 1e-9 * abs(a) * conde or not abs(o.e - e) <= 1e-9 * conde:
                fail("readback-a-e", "orbit() does not return the a/e passed", dict(rep, a=o.a, e=o.e))
            # direction of h = r x v: relative rounding eps * |r||v| / |h| (large far out on a hyperbola)
            hdir = 1e-14 * rs * vs / math.sqrt(mu * abs(a * (1 - e * e)))
            if angdiff(o.inc, inc) > 1e-7 + hdir or angdiff(o.Omega, Om) > 1e-6 * conde + hdir or angdiff(o.omega, om_) > 1e-6 * conde + hdir:
                fail("readback-angles", "orbit() does not return inc/Omega/omega passed", dict(rep, inc=o.inc, Omega=o.Omega, omega=o.omega))
            if lon in ("M", "l", "T", "theta") and o.M == o.M:
                got = getattr(o, lon)
                if lon == "T":
                    # near the asymptote M is resolved through f only to (r/a)^2 eps / sqrt(e^2-1)
                    resf = 8 * 2.3e-16 * (rs / abs(a)) ** 2 / math.sqrt(abs(e * e - 1)) if hyp else 0.0
                    bad = abs(nmean * (got - kw["T"])) > 1e-6 * conde + resf if hyp else angdiff(nmean * (got - kw["T"]), 0.0) > 1e-6 * conde
                else:
                    bad = (abs(math.remainder(got, 2 * PI) - kw[lon]) if (hyp and lon == "M" and abs(kw[lon]) < 3) else angdiff(got, kw[lon])) > 1e-6 * conde
                    if hyp and lon in ("M", "l"):
                        bad = False   # reported M of a hyperbola is reduced mod 2pi: not comparable beyond the T check
                if bad:
                    fail("readback-" + lon, "orbit() does not return the %s passed" % lon, dict(rep, got=got))
    c.cov["roundtrip_histogram"] = hist


if __name__ == "__main__":
    main("C11", run)
