"""Translator for C10: src/integrator_janus.c  ->  lean/RV/Gen/C10Janus.lean

Extracted from the C source text (nothing is hard-wired here):
  * every `static struct reb_janus_scheme NAME = { .order=…, .stages=…, .gamma={…} }`
    table: order, stage count, the 17 gamma initialisers as decimal text -> exact
    rationals (reduced num/den), and the IEEE-754 bit pattern of each constant *as
    compiled* (read back from a C program that #includes the very same source file);
  * the index function `gg`: its branch condition and the two index expressions,
    translated token by token into Lean `UInt32` arithmetic (C `unsigned int`);
  * the `switch (ri_janus->order)` of part1 and part2: order -> table name, default.

`python rv/extract_c10.py` prints the generated file.
"""
import os, re, subprocess, sys
from fractions import Fraction

sys.path.insert(0, os.path.dirname(os.path.abspath(__file__)))
import common


class ExtractError(Exception):
    pass


def strip_c_comments(src):
    src = re.sub(r"/\*.*?\*/", " ", src, flags=re.S)
    return re.sub(r"//[^\n]*", " ", src)


def parse_tables(src):
    """-> list of dicts(name, order, stages, gamma_text[list of str])"""
    out = []
    for m in re.finditer(r"static\s+(?:const\s+)?struct\s+reb_janus_scheme\s+(\w+)\s*=\s*\{(.*?)\}\s*;", src, flags=re.S):
        name, body = m.group(1), m.group(2)
        mo = re.search(r"\.order\s*=\s*(\d+)", body)
        ms = re.search(r"\.stages\s*=\s*(\d+)", body)
        mg = re.search(r"\.gamma\s*=\s*\{(.*?)\}", body, flags=re.S)
        if not (mo and ms and mg):
            raise ExtractError("table %s: cannot find order/stages/gamma" % name)
        toks = [t.strip() for t in mg.group(1).split(",") if t.strip()]
        out.append(dict(name=name, order=int(mo.group(1)), stages=int(ms.group(1)), gamma_text=toks))
    return out


def gamma_array_len(src):
    m = re.search(r"struct\s+reb_janus_scheme\s*\{(.*?)\}\s*;", src, flags=re.S)
    if not m:
        raise ExtractError("struct reb_janus_scheme not found")
    g = re.search(r"double\s+gamma\s*\[\s*(\d+)\s*\]", m.group(1))
    if not g:
        raise ExtractError("gamma[] member not found")
    return int(g.group(1))


def dec_to_fraction(tok):
    """C decimal floating literal -> exact rational (no rounding)"""
    t = tok.rstrip("fFlL")
    if not re.fullmatch(r"[+-]?(\d+\.?\d*|\.\d+)([eE][+-]?\d+)?", t):
        raise ExtractError("not a decimal literal: %r" % tok)
    return Fraction(t)


# ---------------------------------------------------------------- gg: C integer expression -> Lean UInt32
TOK = re.compile(r"\s*(s\.stages|stage|\d+[uU]?|[-+*/%()])")


def c_int_expr_to_lean(e):
    pos, out = 0, []
    e = e.strip()
    while pos < len(e):
        m = TOK.match(e, pos)
        if not m:
            raise ExtractError("gg: cannot translate expression %r at %d" % (e, pos))
        t = m.group(1)
        pos = m.end()
        if t == "s.stages":
            out.append("stages")
        elif t == "stage":
            out.append("stage")
        elif t[0].isdigit():
            out.append(t.rstrip("uU"))
        else:
            out.append(t)
    # C and Lean agree on precedence/associativity of + - * / % ; UInt32 wraps like `unsigned int`
    return " ".join(out)


def parse_gg(src):
    m = re.search(r"static\s+double\s+gg\s*\(\s*struct\s+reb_janus_scheme\s+s\s*,\s*unsigned\s+int\s+stage\s*\)\s*\{(.*?)\n\}", src, flags=re.S)
    if not m:
        raise ExtractError("function gg not found")
    body = m.group(1)
    b = re.search(r"if\s*\((.*?)\)\s*\{\s*return\s+s\.gamma\s*\[(.*?)\]\s*;\s*\}\s*else\s*\{\s*return\s+s\.gamma\s*\[(.*?)\]\s*;\s*\}\s*$",
                  body.strip(), flags=re.S)
    if not b:
        raise ExtractError("gg: body is not `if (c) {return s.gamma[a];} else {return s.gamma[b];}`")
    cond, ia, ib = b.group(1), b.group(2), b.group(3)
    c = re.fullmatch(r"(.*?)(<=|>=|==|!=|<|>)(.*)", cond.strip(), flags=re.S)
    if not c:
        raise ExtractError("gg: condition %r not a comparison" % cond)
    rel = {"<": "<", "<=": "≤", ">": ">", ">=": "≥", "==": "==", "!=": "!="}[c.group(2)]
    return dict(cond="decide ((%s) %s (%s))" % (c_int_expr_to_lean(c.group(1)), rel, c_int_expr_to_lean(c.group(3)))
                if rel not in ("==", "!=") else "((%s) %s (%s))" % (c_int_expr_to_lean(c.group(1)), rel, c_int_expr_to_lean(c.group(3))),
                idx_then=c_int_expr_to_lean(ia), idx_else=c_int_expr_to_lean(ib),
                c_text=re.sub(r"\s+", " ", body.strip()))


def parse_switch(src):
    """every `switch (ri_janus->order){…}`: list of (cases: {order: table}, default table, default_is_error)"""
    out = []
    for m in re.finditer(r"switch\s*\(\s*ri_janus->order\s*\)\s*\{(.*?)\n    \}", src, flags=re.S):
        body = m.group(1)
        cases = {}
        for c in re.finditer(r"case\s+(\d+)\s*:\s*s\s*=\s*(\w+)\s*;\s*break\s*;", body):
            cases[int(c.group(1))] = c.group(2)
        d = re.search(r"default\s*:\s*s\s*=\s*(\w+)\s*;(.*)$", body, flags=re.S)
        if not d:
            raise ExtractError("switch without default")
        out.append((cases, d.group(1), "reb_simulation_error" in d.group(2)))
    return out


# ---------------------------------------------------------------- who writes the recalculation flag
FLAG = "recalculate_integer_coordinates_this_timestep"


def parse_flag_assignments(repo):
    """every assignment to ri_janus.recalculate_integer_coordinates_this_timestep in src/*.c and in the
    Python package: (file, right hand side).  A new setter (e.g. "after a callback") re-derives the
    grid state from the doubles and destroys exact reversibility."""
    out = []
    src = os.path.join(repo, "src")
    for f in sorted(os.listdir(src)):
        if f.endswith(".c") or f.endswith(".h"):
            txt = strip_c_comments(open(os.path.join(src, f), errors="replace").read())
            for m in re.finditer(FLAG + r"\s*(?:\|=|\+=|=)(?!=)\s*([^;]*);", txt):
                out.append((f, re.sub(r"\s+", " ", m.group(1).strip())))
    pk = os.path.join(repo, "rebound")
    for root, _, files in os.walk(pk):
        for f in sorted(files):
            if f.endswith(".py"):
                txt = re.sub(r"#[^\n]*", "", open(os.path.join(root, f), errors="replace").read())
                for m in re.finditer(FLAG + r"\s*=(?!=)\s*([^\n]*)", txt):
                    out.append(("rebound/" + os.path.relpath(os.path.join(root, f), pk), m.group(1).strip()))
    if not out:
        raise ExtractError("no assignment to %s found at all (the field was renamed?)" % FLAG)
    return out


# ---------------------------------------------------------------- compiled bits
HARNESS = r"""
#include <stdio.h>
#include <stdint.h>
#include <string.h>
#include "%(janus_c)s"
static void dump(const char* name, struct reb_janus_scheme* s){
    printf("%%s %%u %%u", name, s->order, s->stages);
    for (unsigned int i=0;i<sizeof(s->gamma)/sizeof(double);i++){
        uint64_t b; memcpy(&b, &s->gamma[i], 8);
        printf(" %%016llx", (unsigned long long)b);
    }
    printf(" gg");
    for (unsigned int i=0;i<s->stages;i++){
        double v = gg(*s, i);
        uint64_t b; memcpy(&b, &v, 8);
        printf(" %%016llx", (unsigned long long)b);
    }
    printf("\n");
}
int main(void){
%(dumps)s
    return 0;
}
"""


def compiled_bits(scratch, names):
    """compile a program that #includes the scratch copy of integrator_janus.c (same flags as the
    library) and prints the bit patterns of the static tables."""
    src = os.path.join(scratch, "src")
    cfile = os.path.join(scratch, "c10_tables.c")
    exe = os.path.join(scratch, "c10_tables")
    with open(cfile, "w") as f:
        f.write(HARNESS % dict(janus_c=os.path.join(src, "integrator_janus.c"),
                               dumps="\n".join('    dump("%s", &%s);' % (n, n) for n in names)))
    so = os.path.join(scratch, "librebound" + common.SUFFIX)
    p = subprocess.run(["gcc"] + common.CFLAGS + ["-I", src, cfile, so, "-Wl,-rpath," + scratch, "-lm", "-o", exe],
                       capture_output=True, text=True)
    if p.returncode != 0:
        raise common.Infra("c10 table harness compile failed: " + p.stderr[:2000])
    q = subprocess.run([exe], capture_output=True, text=True, timeout=60)
    if q.returncode != 0:
        raise common.Infra("c10 table harness failed: " + q.stderr[:500])
    out = {}
    for l in q.stdout.splitlines():
        t = l.split()
        k = t.index("gg")
        out[t[0]] = dict(order=int(t[1]), stages=int(t[2]), bits=t[3:k], ggvals=t[k + 1:])
    return out


# ---------------------------------------------------------------- generation
def extract(repo, scratch=None):
    path = os.path.join(repo, "src", "integrator_janus.c")
    raw = open(path).read()
    src = strip_c_comments(raw)
    tables = parse_tables(src)
    glen = gamma_array_len(src)
    try:
        gg = parse_gg(src)
    except ExtractError as e:       # the text of gg is optional: its compiled behaviour is what the theorems use
        gg = dict(error=str(e), c_text="(not parsed: %s)" % e)
    sw = parse_switch(src)
    if len(sw) < 2:
        raise ExtractError("expected the order switch in part1 and part2, found %d" % len(sw))
    for t in tables:
        fr = [dec_to_fraction(x) for x in t["gamma_text"]]
        if len(fr) > glen:
            raise ExtractError("table %s has %d initialisers for gamma[%d]" % (t["name"], len(fr), glen))
        fr += [Fraction(0)] * (glen - len(fr))      # C zero-fills missing initialisers
        t["gamma_q"] = fr
        t["rounded_bits"] = [common.d2h(float(x)) for x in fr]   # Fraction -> float is correctly rounded
    if scratch is not None:
        cb = compiled_bits(scratch, [t["name"] for t in tables])
        for t in tables:
            c = cb[t["name"]]
            if c["order"] != t["order"] or c["stages"] != t["stages"] or len(c["bits"]) != glen:
                raise ExtractError("compiled table %s disagrees with parsed header" % t["name"])
            t["bits"] = c["bits"]
            if len(c["ggvals"]) != t["stages"]:
                raise ExtractError("compiled gg of %s returned %d values for %d stages" % (t["name"], len(c["ggvals"]), t["stages"]))
            t["ggvals"] = c["ggvals"]
    else:
        raise ExtractError("a scratch build is needed to read the compiled tables")
    return dict(tables=tables, glen=glen, gg=gg, switch=sw, flag=parse_flag_assignments(repo))


def lean_q(fr):
    return "(%d, %d)" % (fr.numerator, fr.denominator)


def render(ex):
    T = ex["tables"]
    L = []
    L.append("/- GENERATED by rv/extract_c10.py from src/integrator_janus.c — do not edit. -/")
    L.append("namespace RV.Gen.C10")
    L.append("")
    L.append("/-- one `static struct reb_janus_scheme`: gamma as exact rationals (reduced num, den) of the")
    L.append("    decimal text, and as the IEEE-754 bit patterns of the compiled constants -/")
    L.append("structure Table where")
    L.append("  name : String")
    L.append("  order : Nat")
    L.append("  stages : Nat")
    L.append("  gammaQ : List (Int × Nat)")
    L.append("  gammaBits : List UInt64")
    L.append("  /-- `gg(s,i)` for `i < stages` as returned by the compiled C function -/")
    L.append("  ggVals : List UInt64")
    L.append("deriving Repr, DecidableEq")
    L.append("")
    L.append("/-- `double gamma[%d]` -/" % ex["glen"])
    L.append("def gammaLen : Nat := %d" % ex["glen"])
    L.append("")
    for t in T:
        L.append("def %s : Table where" % t["name"])
        L.append('  name := "%s"' % t["name"])
        L.append("  order := %d" % t["order"])
        L.append("  stages := %d" % t["stages"])
        L.append("  gammaQ := [" + ", ".join(lean_q(x) for x in t["gamma_q"]) + "]")
        L.append("  gammaBits := [" + ", ".join("0x" + b for b in t["bits"]) + "]")
        L.append("  ggVals := [" + ", ".join("0x" + b for b in t["ggvals"]) + "]")
        L.append("")
    L.append("def tables : List Table := [" + ", ".join(t["name"] for t in T) + "]")
    L.append("")
    L.append("/-- item counts (an extraction that silently finds less fails an obligation) -/")
    L.append("def nTables : Nat := %d" % len(T))
    L.append("def nGammaEntries : Nat := %d" % sum(len(t["gamma_q"]) for t in T))
    L.append("def nNonzeroGamma : Nat := %d" % sum(1 for t in T for x in t["gamma_q"] if x != 0))
    L.append("def nGgVals : Nat := %d" % sum(len(t["ggvals"]) for t in T))
    L.append("")
    gg = ex["gg"]
    L.append("/-- index into `s.gamma` computed by the C function `gg` as translated from its text,")
    L.append("    `unsigned int` = `UInt32`; `none` when the text has another shape (the theorems then rely on")
    L.append("    `ggVals`, the compiled behaviour, alone):")
    L.append("    `%s` -/" % gg["c_text"].replace("-/", "- /"))
    if "error" in gg:
        L.append("def ggIdx : Option (UInt32 → UInt32 → UInt32) := none")
    else:
        L.append("def ggIdx : Option (UInt32 → UInt32 → UInt32) := some fun stages stage =>")
        L.append("  if %s then %s else %s" % (gg["cond"], gg["idx_then"], gg["idx_else"]))
    L.append("")
    L.append("/-- `switch (ri_janus->order)` of part1 and of part2: (cases, default table, default raises an error) -/")
    for k, (cases, dflt, err) in enumerate(ex["switch"]):
        L.append("def orderSwitch%d : List (Nat × String) × String × Bool :=" % (k + 1))
        L.append("  ([" + ", ".join('(%d, "%s")' % (o, n) for o, n in sorted(cases.items())) + '], "%s", %s)' % (dflt, "true" if err else "false"))
    L.append("def nSwitches : Nat := %d" % len(ex["switch"]))
    L.append("")
    L.append("/-- every assignment to `ri_janus.recalculate_integer_coordinates_this_timestep` in src/ and in the")
    L.append("    Python package: (file, right hand side) -/")
    L.append("def flagAssignments : List (String × String) := [" + ", ".join('("%s", "%s")' % (f, r.replace('"', "'")) for f, r in ex["flag"]) + "]")
    L.append("def nFlagAssignments : Nat := %d" % len(ex["flag"]))
    L.append("")
    L.append("end RV.Gen.C10")
    return "\n".join(L) + "\n"


def gen_path():
    return os.path.join(common.LEAN, "RV", "Gen", "C10Janus.lean")


def regenerate(scratch=None, repo=None):
    ex = extract(repo or common.REPO, scratch)
    changed = common.write_if_changed(gen_path(), render(ex))
    return ex, changed


if __name__ == "__main__":
    d = common.build(python_pkg=False)
    ex = extract(common.REPO, d)
    sys.stdout.write(render(ex))
