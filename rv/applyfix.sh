#!/bin/bash
# rv/applyfix.sh fixes/X.diff "fix: message"  -> one unguarded commit in /repo touching only what the patch touches
set -e
p=$(realpath "$1"); msg="$2"
case "$msg" in fix:*) ;; *) echo "message must start with fix:"; exit 1;; esac
cd /repo
git apply --whitespace=nowarn "$p"
git add -u src rebound
git -c user.name=builder -c user.email=builder@localhost commit -q -m "$msg"
echo "$(git rev-parse --short HEAD) $(basename $p) $msg" | tee -a /verif/fixes/APPLIED.log
