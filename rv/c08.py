"""C08 — integrate() honours its time, step-size and status contract.

proof:   lean/RV/Props/C08.lean — theorems over a linearly ordered field about
         lean/RV/Model/Integrate.lean (reb_check_exit, reb_run_heartbeat, reb_simulation_integrate_raw,
         per-integrator time bookkeeping, status -> exception table)
tie:     the same model on IEEE doubles (drv_c08) vs the compiled reb_simulation_integrate, for every
         integrator: every heartbeat's (t, dt, dt_last_done, status) and the final
         (t, dt, dt_last_done, steps_done, status), bit for bit
search:  the contract asserted on the real code (Fraction step counts, independently recomputed exit
         conditions, split integrations, Python exception classes)
"""
import ctypes, math, os, sys, json, subprocess, time
from fractions import Fraction
sys.path.insert(0, os.path.dirname(os.path.abspath(__file__)))
from common import *
import extract_c08

# hand-written expectation (what the Lean model's StepKind of each integrator is); the translator must agree
KIND = {"none": "once", "leapfrog": "halves", "whfast": "halves", "saba": "once", "janus": "janus", "eos": "once",
        "mercurius": "once", "sei": "halves", "trace": "once", "ias15": "adaptive", "bs": "adaptive"}
REAL = list(KIND)
FIXED = [k for k, v in KIND.items() if v != "adaptive"]
KIND["emulated"] = "adaptive"     # integrator NONE + a heartbeat that rewrites (t, dt_last_done, dt) like an adaptive integrator would
ADAPTIVE = ["ias15", "bs"]
# hand-written expectation of the Python layer (independent of the extracted table)
PY_EXC = {0: None, 1: "GenericError", 2: "NoParticles", 3: "Encounter", 4: "Escape", 5: None, 6: "KeyboardInterrupt",
          7: "Collision"}
STATUS_NAMES = {-10: "SINGLE_STEP", -5: "SCREENSHOT_READY", -4: "SCREENSHOT", -3: "PAUSED", -2: "LAST_STEP", -1: "RUNNING",
                0: "SUCCESS", 1: "GENERIC_ERROR", 2: "NO_PARTICLES", 3: "ENCOUNTER", 4: "ESCAPE", 5: "USER", 6: "SIGINT",
                7: "COLLISION"}
BS_USER_ODES = [False]   # reb_check_exit counts only user ODEs (fixes/C08-bs-no-particles.diff); else the internal N-body ODE of BS too
GUARD3 = [False]      # the no-progress guard of /repo addb1f3 (error at the top of the next loop pass): model integrateG
NAN_GUARD = [False]   # does reb_simulation_integrate refuse a NaN target (fixes/C08-nan-target.diff)?  set from the source by run()
CAP = 400          # in-process step cap per call (heartbeat calls reb_simulation_stop; the model gets the same flag)
F_COLL, F_USER, F_ESC, F_ENC, F_SIGINT, F_ERR, F_STEPERR = 1, 2, 4, 8, 16, 32, 64


def ulp_step(x, j):
    for _ in range(abs(j)):
        x = math.nextafter(x, math.inf if j > 0 else -math.inf)
    return x


# ----------------------------------------------------------------------------- real-code harness
class Harness:
    def __init__(self, rebound):
        self.rebound = rebound
        self.clib = rebound.clibrebound
        self.clib.reb_simulation_integrate.restype = ctypes.c_int
        self.clib.reb_simulation_integrate.argtypes = [ctypes.c_void_p, ctypes.c_double]
        self.sigint = ctypes.c_int.in_dll(self.clib, "reb_sigint")

    def make_sim(self, integ, t0, dt, rng, physics="planet"):
        rebound = self.rebound
        sim = rebound.Simulation()
        sim.integrator = integ
        if physics == "planet":
            sim.add(m=1.0)
            sim.add(m=rng.loguniform(1e-6, 1e-3), a=rng.uniform(1.0, 1.5), e=rng.uniform(0, 0.1), f=rng.uniform(0, 6.28))
            if rng.chance(0.4):
                sim.add(m=rng.loguniform(1e-6, 1e-3), a=rng.uniform(2.5, 4.0), e=rng.uniform(0, 0.1), f=rng.uniform(0, 6.28))
            sim.move_to_com()
        elif physics == "free":       # non-interacting particles on straight lines
            sim.gravity = "none"
        elif physics == "central":    # caller adds a massive anchor first
            pass
        if integ == "bs":
            sim.ri_bs.eps_rel = 1e-6
            sim.ri_bs.eps_abs = 1e-6
        sim.t = t0
        sim.dt = dt
        return sim

    def call(self, sim, tmax, exact, events=None, conds=None, cap=CAP, script=None, via="raw"):
        """one reb_simulation_integrate; returns dict(pre, beats, post, ret, flags).
        events: {boundary index: set of 'user'|'err'|'sigint'|'empty'};  conds: callable(sim)->mask of F_ESC|F_ENC|F_COLL
        recomputed from the particle arrays at every heartbeat.
        script (integrator NONE only): callable(k, dt_in, status) -> (accepted, fraction, dt_new); the heartbeat rewrites t, dt_last_done and dt
        after every step so that the real loop sees an adaptive integrator with exactly these decisions (emulated adaptive integrator)."""
        events = events or {}
        pre = (sim.t, sim.dt, sim.dt_last_done, sim._status, sim.steps_done)
        beats, flags, dtins = [], [], []
        clib, sigint = self.clib, self.sigint
        state = {"capped": False}

        def hb(sp):
            s = sp.contents
            k = len(beats)
            if script is not None and k > 0 and s._status < 0:
                tp, dldp = beats[-1][0], beats[-1][2]
                dt_in = s.dt                    # NONE leaves dt alone and has just done t += dt, dt_last_done = dt
                dtins.append(dt_in)
                acc, frac, dt_new = script(k - 1, dt_in, s._status)
                if acc:
                    done = dt_in if frac >= 1.0 else dt_in * frac
                    s.t = tp + done
                    s.dt_last_done = done
                else:
                    s.t = tp
                    s.dt_last_done = dldp
                s.dt = dt_new
            beats.append((s.t, s.dt, s.dt_last_done, s.steps_done, s._status))
            mask = 0
            if k > 0 and s._status == 1:
                # the step itself ended with GENERIC_ERROR (BS: NaN / missing derivatives; the no-progress guard): the error message it queued
                # is waiting when reb_check_exit runs
                mask |= F_STEPERR | F_ERR
            if conds is not None:
                mask |= conds(s)
            ev = events.get(k, ())
            if k > 0 and s._status == -2 and "last" in events:     # the step just done was a LAST_STEP step (cut to fit tmax)
                ev = set(ev) | set(events["last"])
            if "user" in ev or k >= cap:
                clib.reb_simulation_stop(sp)
                mask |= F_USER
                if k >= cap:
                    state["capped"] = True
            if "err" in ev:
                clib.reb_simulation_error(sp, b"C08 injected error")
                mask |= F_ERR
            if "sigint" in ev:
                sigint.value = 1
                if k > 0:
                    mask |= F_SIGINT
            if "empty" in ev:
                clib.reb_simulation_remove_all_particles(sp)
            flags.append([mask, s.N])
            # a non-zero reb_sigint persists over the following boundaries of this call
            if sigint.value and k > 0:
                flags[-1][0] |= F_SIGINT

        sim.heartbeat = hb
        raised = None
        if via == "raw":
            sim.exact_finish_time = exact
            ret = clib.reb_simulation_integrate(ctypes.byref(sim), ctypes.c_double(tmax))
        else:
            # the Python spellings of the same entry point (the exception is part of the contract, checked by the caller)
            try:
                if via == "py_kw":
                    sim.integrate(tmax=tmax, exact_finish_time=exact)
                elif via == "py_pos":
                    sim.integrate(tmax, exact)
                elif via == "py_default":
                    assert exact == 1
                    sim.integrate(tmax)
                else:
                    raise ValueError(via)
            except (AssertionError, ValueError):
                raise
            except BaseException as e:
                raised = type(e).__name__
            sigint.value = 0
            ret = sim._status
        post = (sim.t, sim.dt, sim.dt_last_done, sim._status, sim.steps_done)
        # drain messages so that a waiting error does not leak into the next call
        try:
            sim.process_messages()
        except RuntimeError:
            pass
        return dict(pre=pre, beats=beats, post=post, ret=ret, flags=flags, capped=state["capped"], tmax=tmax, exact=exact,
                    n_odes=(sim._N_odes - (1 if (BS_USER_ODES[0] and bool(sim.ri_bs._nbody_ode)) else 0)),
                    n_user_odes=(sim._N_odes - (1 if bool(sim.ri_bs._nbody_ode) else 0)),
                    dt_in=(dtins if script is not None else None), raised=raised, via=via)


def model_line(kind, rec, is_bs=False, n_odes=0, fuel=None):
    """driver line reproducing one recorded call: the model gets the start state, the flags observed / injected at
    every boundary and (adaptive) the observed accept/reject decisions with the proposed step sizes."""
    t, dt, dld, status, steps = rec["pre"]
    beats, flags = rec["beats"], rec["flags"]
    tmax = rec["tmax"]
    toks = ["I", kind, str(rec["exact"]), d2h(tmax), str((1 if tmax == math.inf else 0) + (2 if NAN_GUARD[0] else 0) + (4 if GUARD3[0] else 0)), d2h(t), d2h(dt), d2h(dld),
            str(status),
            str(steps), str(n_odes), "1" if is_bs else "0", str(fuel if fuel is not None else len(beats) + 5), str(len(flags))]
    toks += ["%d:%d" % (m, n) for m, n in flags]
    orc = []
    if kind == "adaptive":
        for k in range(1, len(beats)):
            tp, _, dldp = beats[k - 1][0], beats[k - 1][1], beats[k - 1][2]
            tn, dtn, dldn = beats[k][0], beats[k][1], beats[k][2]
            acc = (d2h(tn) != d2h(tp)) or (d2h(dldn) != d2h(dldp))
            orc.append("%d:%s:%s" % (1 if acc else 0, d2h(dldn), d2h(dtn)))
    toks.append(str(len(orc)))
    toks += orc
    return " ".join(toks)


def expected_answer(rec):
    t, dt, dld, status, steps = rec["post"]
    beats = rec["beats"][1:]
    toks = ["done", d2h(t), d2h(dt), d2h(dld), str(steps), str(status), str(len(beats))]
    for b in beats:
        toks += [d2h(b[0]), d2h(b[1]), d2h(b[2]), str(b[4])]
    return toks


def parse_answer(line):
    """-> (tokens comparable with expected_answer, syncs, [dt0 of every step])"""
    tk = line.split()
    if len(tk) < 8:
        return None
    # outcome t dt dld steps status syncs nbeats (dt0 t1 dt1 dld1 st)*
    nb = int(tk[7])
    if len(tk) != 8 + 5 * nb:
        return None
    out = [tk[0], tk[1], tk[2], tk[3], tk[4], tk[5], tk[7]]
    dt0s = []
    for i in range(nb):
        b = tk[8 + 5 * i: 13 + 5 * i]
        dt0s.append(b[0])
        out += b[1:]
    return out, int(tk[6]), dt0s


def tolerant_equal(a, e, rec):
    """policy for a non-bitwise property: model and implementation may differ in HOW the last step is taken (e.g. which of two equal
    comparisons fires) as long as every heartbeat sees the same times and step sizes to a few ulp, the same kind of status (still
    running vs. the same exit code), and the call ends in the same state.  A wrong bound / constant / sign / missing restore does not pass."""
    if len(a) != len(e) or a[0] != e[0] or a[4] != e[4] or a[6] != e[6]:      # outcome, steps_done, number of heartbeats
        return False
    T = max(abs(rec["tmax"]) if rec["tmax"] != math.inf else 0.0, abs(rec["pre"][0]), 1e-300)

    def close(x, y, scale):
        if x == y:
            return True
        try:
            u, v = h2d(x), h2d(y)
        except ValueError:
            return False
        return u == v or abs(u - v) <= 8 * math.ulp(scale) + 1e-9 * min(abs(u), abs(v)) * 0
    def st_same(x, y):
        x, y = int(x), int(y)
        return (x in (-1, -2) and y in (-1, -2)) or x == y      # RUNNING vs LAST_STEP only; pause / countdown statuses must match
    if not (close(a[1], e[1], T) and close(a[2], e[2], T) and close(a[3], e[3], T) and st_same(a[5], e[5])):
        return False
    for i in range(7, len(a), 4):
        if not (close(a[i], e[i], T) and close(a[i + 1], e[i + 1], T) and close(a[i + 2], e[i + 2], T) and st_same(a[i + 3], e[i + 3])):
            return False
    return True


# ----------------------------------------------------------------------------- generators
def gen_triple(rng):
    """(t0, dt, tmax, tag) aimed at the floating-point coincidences of the last-step logic"""
    fam = rng.choice(["kdt", "kdt", "kdt", "big_dt", "tmax0", "equal", "wrong_sign", "huge_t", "random", "random"])
    t0 = rng.choice([0.0, 0.0, rng.uniform(-5, 5), rng.uniform(-1e3, 1e3), 1.0, -1.0])
    mag = rng.choice([0.1, 0.01, 0.25, 1.0 / 3, rng.loguniform(1e-3, 3.0), 1e-3, 0.7])
    dt = mag if rng.chance(0.5) else -mag
    k = rng.randint(0, 30)
    if fam == "kdt":
        direction = rng.choice([1, -1])
        tmax = ulp_step(t0 + direction * k * mag, rng.randint(-3, 3))
    elif fam == "big_dt":
        tmax = t0 + rng.choice([1, -1]) * mag * rng.uniform(0.001, 0.999)
    elif fam == "tmax0":
        tmax = 0.0
        t0 = rng.choice([1, -1]) * k * mag if rng.chance(0.5) else rng.uniform(-3, 3)
    elif fam == "equal":
        tmax = t0
    elif fam == "wrong_sign":
        tmax = t0 - math.copysign(1, dt) * rng.uniform(0.5, 20) * mag
    elif fam == "huge_t":
        e = rng.randint(6, 14)
        t0 = rng.choice([1, -1]) * rng.uniform(1, 10) * 10 ** e
        # dt a few ulps of t0 .. a few thousand ulps (never absorbed completely: see gen_absorbed)
        u = math.ulp(t0)
        mag = u * rng.choice([1, 2, 3, 8, 100, 4096, 1e6])
        dt = mag if rng.chance(0.5) else -mag
        tmax = t0 + rng.choice([1, -1]) * mag * rng.choice([0.5, 1, 3, 7.5, 20])
    else:
        tmax = t0 + rng.choice([1, -1]) * rng.uniform(0, 30) * mag
    return t0, dt, tmax, fam


def partition(rng, t0, tmax, n):
    """n targets from t0 to tmax (last = tmax); mostly monotone, sometimes exactly on multiples"""
    if n == 1 or tmax == t0:
        return [tmax]
    fr = sorted(rng.uniform() for _ in range(n - 1))
    return [t0 + f * (tmax - t0) for f in fr] + [tmax]


# ----------------------------------------------------------------------------- search oracles (real code only)
def state_bytes(sim):
    out = [d2h(sim.t)]
    for i in range(sim.N):
        p = sim.particles[i]
        out += [d2h(v) for v in (p.m, p.x, p.y, p.z, p.vx, p.vy, p.vz)]
    return out


def exact_steps(t0, dt, tmax):
    """x = |tmax - t0| / |dt| exactly"""
    return abs(Fraction(tmax) - Fraction(t0)) / abs(Fraction(dt))


def ceil_frac(x):
    return -((-x.numerator) // x.denominator)


def expected_last_full(rec, sg):
    """the step size integrate() must leave behind with exact_finish_time=1, re-derived from what the heartbeats saw: dt_last_done at the
    boundary where LAST_STEP was entered for the last time (or the start dt if no step had been done before)"""
    beats = rec["beats"]
    last_full = math.copysign(abs(rec["pre"][1]), sg)
    for j in range(len(beats) - 1):
        was_running = (j == 0) or beats[j][4] == -1
        if was_running and beats[j + 1][4] == -2 and beats[j][2] != 0.0:
            last_full = beats[j][2]
    return last_full


def check_dt_restored_on_exit(integ, rec, fails, stats, what):
    """exact_finish_time=1 and the call ended with an exit code on the step that had been cut to fit tmax: dt must be back at the full step"""
    t0, dt_pre = rec["pre"][0], rec["pre"][1]
    tmax = rec["tmax"]
    sg = 1.0 if tmax > t0 else -1.0
    beats = rec["beats"]
    on_short = len(beats) >= 2 and beats[-1][4] in (-2, 7) and rec["ret"] != 0
    stats["exits"] = stats.get("exits", 0) + 1
    if on_short:
        stats["on_shortened_step"] = stats.get("on_shortened_step", 0) + 1
    dt1 = rec["post"][1]
    if KIND[integ] == "adaptive":
        want = expected_last_full(rec, sg)
    else:
        want = math.copysign(abs(dt_pre), sg)
    if d2h(dt1) != d2h(want):
        fails.append(("dt-restore-on-exit", "exact_finish_time=1: integrate() ended with status %s and left dt at %r instead of the full step %r"
                      % (STATUS_NAMES.get(rec["ret"], rec["ret"]), dt1, want),
                      dict(integrator=integ, exit=what, t0=t0, dt=dt_pre, tmax=tmax, status=rec["ret"], dt_after=dt1, expected_dt=want,
                           steps=rec["post"][4] - rec["pre"][4], exit_on_shortened_step=on_short)))


def check_contract(c, integ, rec, t0dt, fails, worst):
    """the time / step-size clauses of the property on one recorded real call.  t0dt = (|dt| the user set)."""
    t0, dt_pre, _, _, steps0 = rec["pre"]
    t1, dt1, _, status, steps1 = rec["post"]
    tmax, exact = rec["tmax"], rec["exact"]
    beats = rec["beats"]
    info = dict(integrator=integ, t0=t0, dt=dt_pre, tmax=tmax, exact_finish_time=exact, t_end=t1, dt_end=dt1,
                steps=steps1 - steps0, status=status)
    if rec["capped"] or rec["ret"] != 0 or tmax == math.inf:
        return
    fixed = KIND[integ] != "adaptive"
    if tmax == t0:
        if steps1 != steps0 or d2h(t1) != d2h(t0) or d2h(dt1) != d2h(dt_pre):
            fails.append(("noop", "integrate(t) with t == sim.t is not a no-op", info))
        return
    sg = 1.0 if tmax > t0 else -1.0
    # never against the direction of integration
    ts = [b[0] for b in beats]
    for a, b in zip(ts, ts[1:]):
        if (b - a) * sg < 0:
            fails.append(("time-backwards", "time moved against the direction of integration", dict(info, t_a=a, t_b=b)))
            break
    if exact == 1:
        # 1e-12 relative; absolute 1e-12 for a target at (or, as in the code's failsafe, indistinguishable from) zero
        tol = 1e-12 * abs(tmax) if 1e-12 * abs(tmax) >= 1e-200 else 1e-12
        err = abs(t1 - tmax)
        worst["exact_finish_rel_err"] = max(worst.get("exact_finish_rel_err", 0.0), err / (abs(tmax) if abs(tmax) >= 1e-188 else 1.0))
        if not err <= tol:
            fails.append(("exact-finish", "exact_finish_time=1 did not end within 1e-12 of tmax", info))
    else:
        over = (t1 - tmax) * sg
        if not over >= 0:
            fails.append(("undershoot", "exact_finish_time=0 ended before tmax", info))
        if fixed and not over < abs(t0dt) * (1 + 1e-9) + 4 * math.ulp(max(abs(t0), abs(tmax))) * max(1, steps1 - steps0):
            fails.append(("overshoot", "exact_finish_time=0 overshot tmax by a step or more", dict(info, overshoot=over)))
    # step size restored: sign always; magnitude for fixed step
    if math.copysign(1.0, dt1) != sg:
        fails.append(("dt-sign", "dt does not point in the direction of the integration afterwards", info))
    if fixed:
        if d2h(abs(dt1)) != d2h(abs(t0dt)):
            fails.append(("dt-restore", "fixed-step integrator: |dt| after integrate differs from the user's", info))
    elif exact == 1:
        last_full = expected_last_full(rec, sg)
        if d2h(dt1) != d2h(last_full):
            fails.append(("dt-restore-adaptive", "adaptive integrator: dt after exact finish is not the last full step",
                          dict(info, expected=last_full)))
    # number of steps of a fixed-step integrator
    if fixed:
        n = steps1 - steps0
        x = exact_steps(t0, t0dt, tmax)
        cx = ceil_frac(x)
        T = max(abs(t0), abs(tmax))
        adds = 2 if KIND[integ] == "halves" else 1
        noise = Fraction(math.ulp(T)) * (cx + 2) * adds / 2 / abs(Fraction(t0dt))   # worst accumulated rounding of t, in steps
        near_int = min(x - (x.numerator // x.denominator), Fraction(ceil_frac(x)) - x)
        amb = near_int <= noise + Fraction(1, 10 ** 12) * Fraction(T) / abs(Fraction(t0dt)) if T > 0 else near_int == 0
        slack = max(1, ceil_frac(noise))          # 1 for well-scaled triples; more only when dt is a few ulp of t
        ok = (n == cx) or (amb and abs(n - cx) <= slack)
        worst["step_count_ambiguous"] = worst.get("step_count_ambiguous", 0) + (1 if amb else 0)
        if n == cx + 1 and exact == 1 and len(beats) >= 2:
            extra = abs(beats[-1][0] - beats[-2][0])
            if not extra <= max(1e-12 * abs(tmax), 4 * math.ulp(T)):
                ok = False
        if not ok:
            fails.append(("step-count", "number of steps is not the one implied by the step size", dict(info, expected=cx, x=float(x))))


# ----------------------------------------------------------------------------- exit-condition scenes (straight-line particles)
def cond_fn(maxd, mind, radii):
    """independent re-evaluation of the exit conditions from the particle arrays of the sim a heartbeat sees
    (same association order as C, so that exact ties fall on the same side)"""
    def f(s):
        n = s.N - s.N_var
        ps = [(s.particles[i].x, s.particles[i].y, s.particles[i].z, s.particles[i].vx, s.particles[i].vy, s.particles[i].vz,
               s.particles[i].r) for i in range(n)]
        mask = 0
        if maxd:
            if any(p[0] * p[0] + p[1] * p[1] + p[2] * p[2] > maxd * maxd for p in ps):
                mask |= F_ESC
        for i in range(n):
            for j in range(i):
                dx, dy, dz = ps[i][0] - ps[j][0], ps[i][1] - ps[j][1], ps[i][2] - ps[j][2]
                d2 = dx * dx + dy * dy + dz * dz
                if mind and d2 < mind * mind:
                    mask |= F_ENC
                if radii:
                    sr = ps[i][6] + ps[j][6]
                    dvx, dvy, dvz = ps[i][3] - ps[j][3], ps[i][4] - ps[j][4], ps[i][5] - ps[j][5]
                    if not d2 > sr * sr and not dvx * dx + dvy * dy + dvz * dz > 0:
                        mask |= F_COLL
        return mask
    return f


KEPLER_BASED = ("whfast", "saba", "mercurius", "trace")


def make_scene(H, rng, integ):
    """a few particles that cross exit_max_distance / exit_min_distance / touch after some steps.  Straight lines without gravity, or
    (Kepler-splitting integrators, which need a central mass) fast fly-bys of a unit-mass anchor.  Returns (sim, conds, description)."""
    dt = rng.choice([0.1, 0.25, 0.05, rng.uniform(0.02, 0.5)])
    massive = integ in KEPLER_BASED
    sim = H.make_sim(integ, 0.0, dt, rng, physics=("central" if massive else "free"))
    kind = rng.choice(["escape", "encounter", "collision", "escape+encounter", "collision+escape", "collision+encounter", "none"])
    if integ in ("mercurius", "trace"):
        # these search for collisions inside their close-encounter sub-integration, not at the step boundary: not recomputable here
        kind = kind.replace("collision+", "").replace("collision", "none")
    maxd = mind = 0.0
    radii = False
    v = rng.uniform(2.5, 4.0) if massive else rng.uniform(0.5, 2.0)
    sim.add(m=(1.0 if massive else 0.0), x=0.0, y=0.0, z=0.0)                      # anchor at the origin
    if "escape" in kind:
        maxd = rng.uniform(1.0, 3.0)
        sim.add(m=0.0, x=rng.uniform(0, 0.5), y=0.3, vx=v)     # leaves the sphere
    if "encounter" in kind:
        mind = rng.uniform(0.05, 0.3)
        sim.add(m=0.0, x=-rng.uniform(1.0, 2.0), y=0.0, z=0.01, vx=v)   # runs into the anchor
    if "collision" in kind:
        radii = True
        sim.collision = "direct"
        sim.collision_resolve = "halt"
        sim.particles[0].r = rng.uniform(0.05, 0.2)
        sim.add(m=0.0, x=0.02, y=-rng.uniform(1.0, 2.0), vy=v, r=rng.uniform(0.05, 0.2))
    if kind == "none":
        sim.add(m=0.0, x=1.0, vy=(1.0 if massive else 0.1))
    sim.exit_max_distance = maxd
    sim.exit_min_distance = mind
    return sim, cond_fn(maxd, mind, radii), kind


def first_firing(rec, is_bs=False):
    """(boundary index, status by the code's evaluation order) of the first boundary whose recomputed flags fire.
    N == 0 does not end a BS integration that has user/N-body ODEs registered (rebound.c:718-727)."""
    for k, (mask, n) in enumerate(rec["flags"]):
        m = mask if k > 0 else (mask & ~(F_COLL | F_SIGINT))
        st = None
        if m & F_COLL: st = 7
        elif m & F_STEPERR: st = 1
        if m & F_USER: st = 5
        if m & F_ESC: st = 4
        if m & F_ENC: st = 3
        if m & F_SIGINT: st = 6
        if m & F_ERR: st = 1
        if n == 0 and not (is_bs and rec.get("n_user_odes", rec["n_odes"]) > 0): st = 2      # only USER ODEs keep BS going without particles
        if st is not None:
            return k, st
    return None, None


# ----------------------------------------------------------------------------- subprocess probes (may hang or crash)
PROBE = r'''
import sys, json, math
sys.path.insert(0, %(scratch)r)
import warnings; warnings.filterwarnings("ignore")
import rebound
job = json.loads(sys.argv[1])
sim = rebound.Simulation()
sim.integrator = job["integrator"]
sim.add(m=1.0); sim.add(m=1e-3, a=1.0, e=job.get("e", 0.05)); 
if job.get("third"): sim.add(m=1e-3, a=1.6, e=0.3, f=2.0)
sim.move_to_com()
sim.t = job["t0"]; sim.dt = job["dt"]
beats = []
def hb(sp):
    beats.append(sp.contents.t)
    if len(beats) > job.get("cap", 10**9): rebound.clibrebound.reb_simulation_stop(sp)
sim.heartbeat = hb
st = "ok"
try:
    sim.integrate(job["tmax"], exact_finish_time=job["exact"])
except Exception as e:
    st = type(e).__name__
print(json.dumps(dict(t=sim.t, dt=sim.dt, steps=sim.steps_done, status=st, nbeats=len(beats),
                      mono=all((b - a) * math.copysign(1, job["tmax"] - job["t0"]) >= 0 for a, b in zip(beats, beats[1:])))))
'''


MERC_PROBE = r'''
import sys, json, ctypes
sys.path.insert(0, %(scratch)r)
import warnings; warnings.filterwarnings("ignore")
import rebound
J = json.load(open(sys.argv[1]))
S = J["system"]
A = rebound.Simulation(); A.integrator = "mercurius"
for p in S["particles"]:
    A.add(m=p[0], x=p[1], y=p[2], z=p[3], vx=p[4], vy=p[5], vz=p[6])
A.N_active = S["N_active"]; A.testparticle_type = S["testparticle_type"]; A.dt = S["dt"]
A.ri_mercurius.safe_mode = int(J["line"].split()[1])
lib = rebound.clibrebound
lib.reb_simulation_integrate.argtypes = [ctypes.c_void_p, ctypes.c_double]
def cb(sp):
    s = sp.contents
    for i in range(1, s.N):
        q = s._particles[i]
        q.vx *= (1. - 1e-3); q.vy *= (1. - 1e-3); q.vz *= (1. - 2e-3)
state = 12345
def rnd():
    global state
    state = (state * 6364136223846793005 + 1442695040888963407) %% 2**64
    return state / 2**64
for op in J["ops"]:
    o = op[0]
    if o == "c":
        if op[1]: A.pre_timestep_modifications = cb
        if op[2]: A.post_timestep_modifications = cb
        lib.reb_simulation_step(ctypes.byref(A))
        FT = type(A._pre_timestep_modifications); A._pre_timestep_modifications = FT(); A._post_timestep_modifications = FT()
    elif o == "i":
        A.exact_finish_time = op[2]; lib.reb_simulation_integrate(ctypes.byref(A), op[1])
    elif o == "s": lib.reb_simulation_step(ctypes.byref(A))
    elif o == "y": lib.reb_simulation_synchronize(ctypes.byref(A))
    elif o == "f": A.ri_mercurius.recalculate_coordinates_this_timestep = 1
    elif o == "p":
        A.particles[int(rnd() * A.N)].vy += (rnd() - 0.5) * 2e-3
print(json.dumps(dict(t=A.t, dt=A.dt, steps=A.steps_done, status=A._status)))
'''


def probe(scratch, job, timeout=20):
    try:
        p = subprocess.run([sys.executable, "-c", PROBE % dict(scratch=scratch), json.dumps(job)], capture_output=True, text=True,
                           timeout=timeout)
    except subprocess.TimeoutExpired:
        return {"outcome": "timeout"}
    if p.returncode != 0:
        return {"outcome": "crash", "rc": p.returncode, "stderr": p.stderr[-300:]}
    try:
        return dict(json.loads(p.stdout.strip().splitlines()[-1]), outcome="ok")
    except Exception:
        return {"outcome": "garbled", "stdout": p.stdout[-300:]}


# ----------------------------------------------------------------------------- the check
def run(c):
    d = build()
    rebound = use_scratch_rebound(d)
    H = Harness(rebound)
    thorough = c.thorough

    # ---- translator: status enum, Python dispatch table, per-integrator time bookkeeping
    text, info = extract_c08.generate(REPO)
    write_if_changed(os.path.join(LEAN, "RV", "Gen", "C08Status.lean"), text)
    c.cov["extracted"] = {"status_enumerators": len(info["enum"]), "python_branches": len(info["table"]),
                          "python_irregularities": info["problems"],
                          "step_kinds": {k: v[0] for k, v in info["kinds"].items()}}
    if len(info["enum"]) != extract_c08.EXPECT_STATUS_COUNT:
        c.corr_break("enum REB_STATUS: extracted %d enumerators, expected %d" % (len(info["enum"]), extract_c08.EXPECT_STATUS_COUNT))
    if len(info["table"]) != extract_c08.EXPECT_PY_BRANCHES or info["problems"]:
        c.corr_break("Simulation.integrate dispatch: %d branches, irregularities %s" % (len(info["table"]), info["problems"]))
    # JANUS: before /repo 5e0351b part2 never wrote dt_last_done (model variant `stepJanus`), since then it does (`stepOnce`): both variants
    # are modelled and proved fixed-step (c08_step_kinds_fixed); the tie runs the one the source has
    if info["kinds"].get("janus", (None,))[0] in ("janus", "once"):
        KIND["janus"] = info["kinds"]["janus"][0]
    c.cov["janus_writes_dt_last_done"] = KIND["janus"] == "once"
    for k, (kind, sig) in info["kinds"].items():
        if kind is not None and kind != KIND[k]:
            c.corr_break("time bookkeeping of integrator %s is '%s' in the source, model runs it as '%s'" % (k, kind, KIND[k]), list(sig))
    c.cov["step_kinds_unrecognised"] = [k for k, v in info["kinds"].items() if v[0] is None]
    has_guard = info["has_progress_guard"]
    guard_needs = info["guard_needs"]            # 0 no guard; 1 / 2: error inside the 1st / 2nd stalled step; 3: error at the next loop pass
    GUARD3[0] = guard_needs == 3
    c.cov["no_progress_guard_needs_stalled_steps"] = guard_needs
    NAN_GUARD[0] = info["has_nan_guard"]
    BS_USER_ODES[0] = info["bs_user_odes"]
    c.cov["check_exit_counts_only_user_odes"] = BS_USER_ODES[0]
    c.cov["nan_target_check_in_source"] = NAN_GUARD[0]
    c.cov["no_progress_guard_in_source"] = has_guard

    c.prove(["RV.Props.C08"])
    exe = lean_exe("drv_c08")
    consts = run_driver(exe, ["consts"])[0].split()
    if consts != [d2h(1e-12), d2h(1e-200)]:
        c.corr_break("literals 1e-12 / 1e-200 of the model differ from the C literals", consts)

    c.cov["rule"] = (
        "tie: for each of the 11 integrators, (t0, dt, tmax) triples aimed at the last-step logic (tmax = t0 + k*dt +- j ulp, dt larger than "
        "the interval, tmax = 0, tmax = t0, dt pointing away from the target, |t| up to 1e15 with dt of a few ulp(t), random), split into 1-6 "
        "successive reb_simulation_integrate calls with exact_finish_time 0/1/2; every heartbeat's (t, dt, dt_last_done, status) and the final "
        "(t, dt, dt_last_done, steps_done, status) are compared bitwise with the Lean model run on doubles (adaptive integrators: the model consumes "
        "the observed dt_done / dt_new per step and re-derives everything else). Event scenes: user stop, error message, SIGINT flag, particle "
        "removal at a chosen boundary, N=0 from the start, tmax=inf; exit-condition scenes: straight-line particles crossing exit_max_distance / "
        "exit_min_distance / touching (halt resolver), conditions recomputed in Python at every heartbeat. distinct_nontrivial = distinct "
        "(integrator, family, exact_finish_time, number of calls, steps>0).  search: the contract clauses asserted on the same real runs with "
        "Fraction step counts, split-vs-single bitwise trajectories, status = first firing boundary, Python exception classes, and "
        "subprocess probes (TRACE backwards, absorbed step t+dt==t).")
    c.cov["trusted_base"] = ["Lean 4.33 kernel", "Mathlib order/field lemmas, linarith/nlinarith (kernel-checked)",
                             "differential tie drv_c08 vs compiled rebound.c / integrator*.c on generated inputs",
                             "ctypes Simulation layout (C18)", "Python ast / regex extraction of the finite tables"]
    c.assumptions += [
        "theorems are about exact (ordered-field) time arithmetic; that IEEE accumulation of t += dt lands inside the 1e-12 window is established "
        "only on the generated triples (tie + search)",
        "exit conditions enter the model as per-boundary flags; that the flags are what rebound.c computes from the particles is checked by "
        "recomputing them in Python at every heartbeat of the exit-condition scenes",
        "the PAUSED/SCREENSHOT wait loop and the SINGLE_STEP countdown are modelled (outcome `blocked`) but not tied: they need a second thread",
        "MPI, OPENGL, SERVER mutex and simulationarchive heartbeat branches of the loop are not modelled (no effect on t, dt, status)"]

    lines, expect, meta = [], [], []
    fails = []           # (key, what, replay)
    worst = {}
    hist_steps = {}
    fam_hist = {}

    guard_stats = {"stalled_steps": 0, "errors_raised_inside_step": 0}

    def record(integ, rec, tag, is_bs=False):
        # no-progress guard, recomputed from what the heartbeats saw (fixed-step integrators: dt never changes inside a step, so a step
        # stalls iff t is unchanged): with the guard in the source a stalled step must end with status GENERIC_ERROR, without it never
        if KIND.get(integ) in ("once", "halves", "janus") and rec.get("dt_in") is None and rec["tmax"] != math.inf:
            b = rec["beats"]
            for k in range(1, len(b)):
                stalled = d2h(b[k][0]) == d2h(b[k - 1][0]) and b[k][4] != 7
                stalled_before = k >= 2 and d2h(b[k - 1][0]) == d2h(b[k - 2][0]) and d2h(b[k][1]) == d2h(b[k - 1][1])
                seen = b[k][4] == 1
                guard_stats["stalled_steps"] += 1 if stalled else 0
                guard_stats["errors_raised_inside_step"] += 1 if seen else 0
                want_err = stalled and (guard_needs == 1 or (guard_needs == 2 and stalled_before))
                if guard_needs == 3 and stalled and k < len(b) - 1 and b[k][4] < 0:
                    # a further step was taken after a stalled one: reb_check_exit said "continue" and the guard did not stop the loop
                    fails.append(("no-progress-guard", "the loop went on after a step that did not advance the time", 
                                  dict(integrator=integ, case=tag, boundary=k, t=b[k][0], dt=b[k][1], tmax=rec["tmax"])))
                    break
                if seen != want_err:
                    fails.append(("no-progress-guard", "a step that did not advance the time %s" % ("was not stopped by the no-progress guard" if stalled else "— none — was reported as stalled"),
                                  dict(integrator=integ, case=tag, boundary=k, t=b[k][0], dt=b[k][1], status=b[k][4], tmax=rec["tmax"])))
                    break
            if guard_needs == 3 and rec["ret"] == 1 and rec["tmax"] == rec["tmax"] and not any(m & F_ERR for m, _ in rec["flags"]):
                if not (len(b) >= 2 and d2h(b[-1][0]) == d2h(b[-2][0])):
                    fails.append(("no-progress-guard", "GENERIC_ERROR without an error message injected and without a stalled last step",
                                  dict(integrator=integ, case=tag, tmax=rec["tmax"], t_end=rec["post"][0])))
        # an error raised by the no-progress guard although the call had reached its target: the contract says "ends within 1e-12 of the
        # target", not "fails"
        if rec["ret"] == 1 and rec["beats"] and rec["exact"] == 1 and rec["tmax"] not in (math.inf, -math.inf) \
                and (rec["beats"][-1][4] == 1 or (len(rec["beats"]) >= 2 and d2h(rec["beats"][-1][0]) == d2h(rec["beats"][-2][0]))) \
                and not any(m & F_ERR and not m & F_STEPERR for m, _ in rec["flags"]):
            tol_ = 1e-12 * abs(rec["tmax"]) if 1e-12 * abs(rec["tmax"]) >= 1e-200 else 1e-12
            cut_step = len(rec["beats"]) >= 2 and d2h(rec["beats"][-1][1]) == d2h(rec["tmax"] - rec["beats"][-2][0])   # the stalled step was the one cut to fit tmax
            if abs(rec["post"][0] - rec["tmax"]) <= tol_ and cut_step:
                fails.append(("C08-N5:no-progress-error-on-absorbed-last-step", "integrate() raised 'not making progress' although t is within 1e-12 of tmax "
                              "(the last, tiny step was absorbed; before the guard this call returned SUCCESS)",
                              dict(integrator=integ, case=tag, t0=rec["pre"][0], dt=rec["pre"][1], tmax=rec["tmax"], t_end=rec["post"][0],
                                   status=rec["ret"], steps=rec["post"][4] - rec["pre"][4])))
        lines.append(model_line(KIND[integ], rec, is_bs=is_bs, n_odes=rec["n_odes"]))
        expect.append(expected_answer(rec))
        meta.append((integ, tag, rec))
        nst = rec["post"][4] - rec["pre"][4]
        b = "0" if nst == 0 else ("1" if nst == 1 else ("2-9" if nst < 10 else ("10-99" if nst < 100 else "100+")))
        hist_steps[b] = hist_steps.get(b, 0) + 1

    # ------------------------------------------------------------------ A: time logic, all integrators
    nA = 300 if thorough else 9
    for integ in REAL:
        for rep in range(nA):
            rng = c.rng.fork()
            t0, dt, tmax, fam = gen_triple(rng)
            if KIND[integ] == "adaptive" and fam != "huge_t" and rng.chance(0.4):
                dt, tmax = dt * 8, t0 + (tmax - t0) * 8       # first step too large: the integrator shrinks / rejects
            ncalls = rng.choice([1, 1, 1, 2, 3, 4, 5, 6])
            exact = rng.choice([0, 1, 1, 1, 0, 2]) if ncalls == 1 else rng.choice([0, 1])
            sim = H.make_sim(integ, t0, dt, rng)
            targets = partition(rng, t0, tmax, ncalls)
            udt = abs(dt)
            anysteps = False
            for tgt in targets:
                if integ == "trace" and tgt < sim.t:
                    break                      # TRACE backwards: F10, probed in a subprocess below
                rec = H.call(sim, tgt, exact)
                record(integ, rec, fam, is_bs=(integ == "bs"))
                check_contract(c, integ, rec, udt, fails, worst)
                anysteps = anysteps or rec["post"][4] > rec["pre"][4]
                if rec["capped"]:
                    break
            c.count((integ, fam, exact, ncalls, anysteps), nontrivial=anysteps)
            fam_hist[fam] = fam_hist.get(fam, 0) + 1
            if rep < 1 and integ in ("whfast", "ias15"):
                c.sample({"integrator": integ, "t0": t0, "dt": dt, "targets": targets, "exact_finish_time": exact,
                          "end": [sim.t, sim.dt, sim.dt_last_done, sim.steps_done]})

    # ------------------------------------------------------------------ B: events at chosen boundaries
    nB = 150 if thorough else 8
    bstats = {}
    for integ in ["none", "leapfrog", "whfast", "ias15", "bs", "saba", "mercurius", "janus"]:
        for rep in range(nB):
            rng = c.rng.fork()
            dt = rng.choice([0.1, 0.05, 0.3])
            sim = H.make_sim(integ, 0.0, dt, rng)
            ev_kind = rng.choice(["user", "err", "sigint", "empty", "empty0", "inf", "user+err", "sigint+user", "empty+user"])
            kb = rng.randint(0, 6)
            tmax = rng.choice([1.0, 0.95, -1.0, 2.0])
            exact = rng.choice([0, 1])
            events = {}
            if ev_kind == "empty0":
                H.clib.reb_simulation_remove_all_particles(ctypes.byref(sim))
            elif ev_kind == "inf":
                tmax = math.inf
                events = {kb + 1: {"user"}}
            else:
                events = {kb: set(ev_kind.split("+"))}
            rec = H.call(sim, tmax, exact, events=events)
            H.sigint.value = 0
            record(integ, rec, "event:" + ev_kind, is_bs=(integ == "bs"))
            k, st = first_firing(rec, is_bs=(integ == "bs"))
            if st is None:
                st = 0
            if integ == "bs" and st == 2 and rec["ret"] != 2:
                fails.append(("C08-N6:bs-internal-ode-hides-no-particles", "BS without user ODEs: all particles gone but integrate() goes on instead of returning NO_PARTICLES (reb_check_exit counts the N-body ODE that BS registers itself)",
                              dict(integrator=integ, event=ev_kind, boundary=kb, tmax=tmax, exact_finish_time=exact, returned=rec["ret"],
                                   expected=2, N_odes=sim._N_odes, user_odes=rec["n_user_odes"], heartbeats=len(rec["beats"]))))
            elif rec["ret"] != st or (k is not None and len(rec["beats"]) != k + 1):
                fails.append(("status-first-boundary", "returned status is not that of the first boundary at which an exit condition holds",
                              dict(integrator=integ, event=ev_kind, boundary=kb, tmax=tmax, exact_finish_time=exact, returned=rec["ret"],
                                   expected=st, heartbeats=len(rec["beats"]), expected_heartbeats=(k + 1 if k is not None else None))))
            if exact == 1 and rec["ret"] != 0:
                check_dt_restored_on_exit(integ, rec, fails, bstats, ev_kind)
            c.count((integ, ev_kind, exact, min(kb, 3)))
            # a second call after the event must behave like a fresh call
            if ev_kind in ("user", "sigint", "err") and rng.chance(0.5):
                rec2 = H.call(sim, sim.t + 0.35, exact)
                record(integ, rec2, "after:" + ev_kind, is_bs=(integ == "bs"))
                check_contract(c, integ, rec2, abs(rec2["pre"][1]), fails, worst)

    # BS with a USER-defined ODE: removing all particles must NOT end the integration (rebound.c:733-737), the ODE is integrated on to tmax
    for rep in range(4 if thorough else 2):
        rng = c.rng.fork()
        sim = H.make_sim("bs", 0.0, 0.1 * rng.choice([1, -1]), rng)
        ode = sim.create_ode(length=2, needs_nbody=False)

        def deriv(ode_p, ydot, y, t):
            ydot[0] = y[1]; ydot[1] = -y[0]
        ode.derivatives = deriv
        ode.y[0] = 1.0; ode.y[1] = 0.0
        kb = rng.randint(1, 4)
        tmax = rng.choice([1.0, -1.3])
        rec = H.call(sim, tmax, rng.choice([0, 1]), events={kb: {"empty"}})
        record("bs", rec, "event:empty+user_ode", is_bs=True)
        c.count(("bs-user-ode", kb))
        if rec["ret"] != 0 or abs(ode.y[0] ** 2 + ode.y[1] ** 2 - 1.0) > 1e-3:
            fails.append(("bs-user-ode-stopped", "BS with a user ODE: integration did not continue to tmax after all particles were removed",
                          dict(returned=rec["ret"], t=rec["post"][0], tmax=tmax, y=[ode.y[0], ode.y[1]])))

    # ------------------------------------------------------------------ C: exit conditions from particle positions
    nC = 200 if thorough else 10
    scene_hist = {}
    for integ in ["leapfrog", "whfast", "ias15", "saba", "eos", "mercurius", "sei", "janus"]:
        for rep in range(nC):
            rng = c.rng.fork()
            sim, conds, kind = make_scene(H, rng, integ)
            if integ == "ias15":
                sim.ri_ias15.epsilon = 0          # straight lines: keep the step fixed so that crossings happen at boundaries
            tmax = rng.uniform(2.0, 6.0)
            exact = rng.choice([0, 1])
            rec = H.call(sim, tmax, exact, conds=conds)
            record(integ, rec, "scene:" + kind)
            k, st = first_firing(rec)
            want = st if st is not None else 0
            scene_hist[STATUS_NAMES.get(rec["ret"], str(rec["ret"]))] = scene_hist.get(STATUS_NAMES.get(rec["ret"], str(rec["ret"])), 0) + 1
            if rec["ret"] != want or (k is not None and len(rec["beats"]) != k + 1):
                fails.append(("status-first-boundary", "returned status is not that of the first boundary at which an exit condition holds",
                              dict(integrator=integ, scene=kind, tmax=tmax, exact_finish_time=exact, dt=rec["pre"][1], returned=rec["ret"],
                                   expected=want, heartbeats=len(rec["beats"]), expected_heartbeats=(k + 1 if k is not None else None),
                                   exit_max_distance=sim.exit_max_distance, exit_min_distance=sim.exit_min_distance)))
            if rec["ret"] == 0:
                check_contract(c, integ, rec, abs(rec["pre"][1]), fails, worst)
            else:
                # dt must be restored also when the call ends early
                if exact == 1 and d2h(abs(rec["post"][1])) != d2h(abs(rec["pre"][1])) and integ != "ias15":
                    fails.append(("dt-restore-early-exit", "dt not restored when integrate ended early", dict(integrator=integ, scene=kind)))
            c.count((integ, kind, exact, rec["ret"]), nontrivial=(rec["ret"] != 0 or kind == "none"))
    c.cov["scene_status_histogram"] = scene_hist

    c.log("section emulated")
    # ------------------------------------------------------------------ D: emulated adaptive integrator on the real loop
    nD = 3000 if thorough else 60
    emu = {"rejects": 0, "partial": 0, "last_step_short": 0, "fallback_to_running": 0, "another_step": 0}
    for rep in range(nD):
        rng = c.rng.fork()
        t0, dt, tmax, fam = gen_triple(rng)
        if rng.chance(0.3):
            e = rng.randint(3, 12)          # large |t|: the 1e-12*|tmax| window is wide compared with the steps
            t0 = rng.choice([1, -1]) * rng.uniform(1, 10) * 10 ** e
            tmax = t0 + rng.choice([1, -1]) * abs(dt) * rng.uniform(0.5, 30)
            fam = "emu_large_t"
        if tmax == t0 or fam == "huge_t" or abs(dt) < 4096 * math.ulp(max(abs(t0), abs(tmax))):
            continue            # (the no-progress guard looks at the raw step of NONE, before the heartbeat rewrites it: no absorbed steps here)
        sg = 1.0 if tmax > t0 else -1.0
        floor = abs(dt) * rng.choice([0.05, 0.2, 0.5])
        orc_rng = rng.fork()
        style = rng.choice(["mild", "rejecty", "short_last", "short_last", "grow"])

        def script(k, dt_in, status, orc_rng=orc_rng, style=style, tmax=tmax, floor=floor, sg=sg):
            r = orc_rng
            mag = abs(dt_in)
            new = max(floor, mag * r.uniform(0.6, 1.4)) if style != "grow" else max(floor, mag * r.uniform(1.0, 3.0))
            if status != -2:
                new = max(new, floor)
            if style == "rejecty" and r.chance(0.3) and mag > floor:
                emu["rejects"] += 1
                return False, 0.0, sg * max(floor, mag * r.uniform(0.3, 0.9))
            if status == -2 and style == "short_last" and r.chance(0.7):
                # stop short of tmax by a distance around the 1e-12*|tmax| threshold
                scale = abs(tmax) if abs(tmax) > 1e-188 else 1.0
                rem = scale * 10.0 ** (-r.uniform(9, 15))
                if rem < mag:
                    emu["last_step_short"] += 1
                    return True, 1.0 - rem / mag, sg * new
            if r.chance(0.25):
                emu["partial"] += 1
                return True, r.uniform(0.3, 1.0), sg * new
            return True, 1.0, sg * new

        sim = H.make_sim("none", t0, dt, rng)
        exact = rng.choice([1, 1, 1, 1, 0, 2])
        rec = H.call(sim, tmax, exact, script=script)
        record("emulated", rec, "emulated:" + style)
        sts = [b[4] for b in rec["beats"]]
        emu["fallback_to_running"] += sum(1 for a, b in zip(sts[1:], sts[2:]) if a == -2 and b == -1)
        emu["another_step"] += sum(1 for a, b in zip(sts[1:], sts[2:]) if a == -2 and b == -2)
        check_contract(c, "emulated", rec, abs(dt), fails, worst)
        c.count(("emulated", style, exact, fam))
    c.cov["emulated_adaptive"] = emu

    c.log("section options")
    # ------------------------------------------------------------------ E: the adaptive-step hypothesis on the real integrators
    # `IsAdaptive` (hypothesis of c08_adaptive_exact_finish) asserted at every heartbeat of real runs that force the step-size controller to
    # shrink / reject (e = 0.95 started at pericentre, crossing orbits), across the documented step-size options and both time directions:
    # sign(dt) == direction, t monotone in the direction, |dt| within [min_dt, max_dt] when set, termination within a step budget.
    def stiff_sim(integ, rng, dt):
        sim = rebound.Simulation()
        sim.integrator = integ
        sim.add(m=1.0)
        sim.add(m=rng.loguniform(1e-5, 1e-3), a=1.0, e=rng.choice([0.95, 0.95, 0.9, 0.98]), f=rng.choice([0.0, 0.0, 0.3, 3.0]))
        if rng.chance(0.5):      # a second planet on a crossing orbit: close encounters
            sim.add(m=rng.loguniform(1e-5, 1e-3), a=rng.uniform(0.6, 1.4), e=rng.uniform(0.3, 0.6), f=rng.uniform(0, 6.28), omega=rng.uniform(0, 6.28))
        sim.move_to_com()
        sim.dt = dt
        return sim

    opt_stats = {"runs": 0, "steps": 0, "min_dt_clamped_steps": 0, "capped": 0, "by_config": {}}
    BUDGET = 6000
    configs = []
    for mode in (0, 1, 2, 3):
        for min_dt in (0.0, 2e-3, 2e-2):
            configs.append(("ias15", dict(adaptive_mode=mode, min_dt=min_dt)))
    configs += [("ias15", dict(adaptive_mode=2, min_dt=0.0, epsilon=1e-5)), ("ias15", dict(adaptive_mode=1, min_dt=5e-3, epsilon=1e-6)),
                ("ias15", dict(adaptive_mode=2, min_dt=0.1)),
                ("bs", dict(min_dt=0.0, max_dt=0.0)), ("bs", dict(min_dt=2e-3, max_dt=0.0)), ("bs", dict(min_dt=0.0, max_dt=0.05)),
                ("bs", dict(min_dt=1e-3, max_dt=0.1, eps=1e-9)), ("bs", dict(min_dt=2e-2, max_dt=0.0, eps=1e-4)),
                ("mercurius", {}), ("mercurius", {}), ("trace", {}), ("trace", {})]
    reps = 4 if thorough else 1
    for rep in range(reps):
        for integ, opts in configs:
            for direction in ((1,) if integ == "trace" else (1, -1)):
                rng = c.rng.fork()
                dt0 = rng.choice([0.01, 0.05, 0.3]) * rng.choice([1, -1])
                if integ in ("mercurius", "trace"):
                    dt0 = abs(rng.choice([0.01, 0.03])) * (rng.choice([1, -1]) if integ == "mercurius" else 1)
                sim = stiff_sim(integ, rng, dt0)
                lo = hi = 0.0
                if integ == "ias15":
                    sim.ri_ias15.adaptive_mode = opts["adaptive_mode"]
                    sim.ri_ias15.min_dt = lo = opts["min_dt"]
                    if "epsilon" in opts:
                        sim.ri_ias15.epsilon = opts["epsilon"]
                elif integ == "bs":
                    sim.ri_bs.min_dt = lo = opts["min_dt"]
                    sim.ri_bs.max_dt = hi = opts["max_dt"]
                    sim.ri_bs.eps_abs = sim.ri_bs.eps_rel = opts.get("eps", 1e-6)
                tmax = direction * rng.uniform(3.0, 7.5)
                exact = rng.choice([1, 1, 0])
                rec = H.call(sim, tmax, exact, cap=BUDGET)
                if integ == "ias15" and lo:
                    rec["ias15_min_dt"] = lo
                record(integ, rec, "options", is_bs=(integ == "bs"))
                beats = rec["beats"]
                opt_stats["runs"] += 1
                opt_stats["steps"] += len(beats) - 1
                key = "%s %s" % (integ, json.dumps(opts, sort_keys=True))
                opt_stats["by_config"][key] = opt_stats["by_config"].get(key, 0) + len(beats) - 1
                info = dict(integrator=integ, options=opts, dt=dt0, tmax=tmax, exact_finish_time=exact, steps=len(beats) - 1,
                            t_end=rec["post"][0], dt_end=rec["post"][1], status=rec["ret"],
                            system=[[p.m, p.x, p.y, p.z, p.vx, p.vy, p.vz] for p in [sim.particles[i] for i in range(sim.N)]][:0])
                bad = None
                for k in range(1, len(beats)):
                    tb, dtb = beats[k][0], beats[k][1]
                    if math.copysign(1.0, dtb) != direction or dtb == 0.0:
                        bad = ("adaptive-dt-sign", "an adaptive integrator left dt pointing against the direction of integration at a step boundary",
                               dict(info, boundary=k, t=tb, dt_at_boundary=dtb))
                    elif (tb - beats[k - 1][0]) * direction < 0:
                        bad = ("time-backwards", "time moved against the direction of integration", dict(info, boundary=k, t_a=beats[k - 1][0], t_b=tb))
                    elif lo and abs(dtb) < min(lo, 4.0 * abs(beats[k][2])) * (1 - 1e-9):
                        # (IAS15 clamps to min_dt first and then limits growth to 4x the step just done: after a last step cut to fit tmax the
                        #  proposal may legitimately stay below min_dt)
                        bad = ("adaptive-min-dt", "step size below min_dt at a step boundary", dict(info, boundary=k, dt_at_boundary=dtb, min_dt=lo))
                    elif hi and abs(dtb) > hi * (1 + 1e-12):
                        bad = ("adaptive-max-dt", "step size above max_dt at a step boundary", dict(info, boundary=k, dt_at_boundary=dtb, max_dt=hi))
                    if lo and abs(dtb) <= lo * (1 + 1e-12):
                        opt_stats["min_dt_clamped_steps"] += 1
                    if bad:
                        break
                if bad is None and rec["ret"] == 1 and len(beats) >= 2 and d2h(beats[-1][0]) == d2h(beats[-2][0]) and \
                        (beats[-1][4] == 1 or guard_needs == 3) and has_guard:
                    # the no-progress guard (fixes/C08-absorbed-step-error.diff) turned the endless rejection into an error: that is the repair
                    opt_stats["stopped_by_progress_guard"] = opt_stats.get("stopped_by_progress_guard", 0) + 1
                elif bad is None and (rec["capped"] or rec["ret"] != 0):
                    opt_stats["capped"] += 1
                    tail = beats[-200:]
                    if integ == "bs" and lo and all(d2h(b[0]) == d2h(tail[0][0]) and abs(b[1]) <= lo * (1 + 1e-12) for b in tail):
                        bad = ("C08-N3:bs-min-dt-rejects-forever",
                               "BS with min_dt: a step that fails the tolerance at dt = min_dt is rejected and retried with the same dt for ever", 
                               dict(info, t_stuck=beats[-1][0], rejected_in_a_row=len(tail)))
                    else:
                        bad = ("adaptive-no-termination", "integrate() did not reach tmax within the step budget (%d steps)" % BUDGET,
                               dict(info, t_last=beats[-1][0]))
                if bad:
                    fails.append(bad)
                else:
                    check_contract(c, integ, rec, abs(dt0), fails, worst)
                c.count(("options", integ, json.dumps(opts, sort_keys=True), direction, exact))
    c.cov["adaptive_options"] = opt_stats

    # ------------------------------------------------------------------ F: the synchronize event of the overshoot branch is observable
    # WHFast with safe_mode = 0: ri_whfast.is_synchronized, read from an additional_forces callback (between part1 and part2 of a step), tells
    # whether reb_simulation_synchronize ran since the previous step.  Model: `checkExit` synchronizes exactly in the two branches that continue
    # with status LAST_STEP, so step k (k >= 1) must start synchronized  <=>  the heartbeat after it sees status LAST_STEP.
    sync_stats = {"steps": 0, "synchronized_starts": 0, "mismatch": 0}
    nF = 120 if thorough else 24
    for rep in range(nF):
        rng = c.rng.fork()
        t0, dt, tmax, fam = gen_triple(rng)
        if fam == "huge_t" or tmax == t0:
            continue
        sim = H.make_sim("whfast", t0, dt, rng)
        sim.ri_whfast.safe_mode = 0
        flags_seen = []

        def af(sp, flags_seen=flags_seen):
            flags_seen.append(sp.contents.ri_whfast.is_synchronized)
        sim.additional_forces = af
        rec = H.call(sim, tmax, 1)
        record("whfast", rec, "sync-observable")
        sts = [b[4] for b in rec["beats"][1:]]
        if len(flags_seen) != len(sts):
            c.corr_break("additional_forces ran %d times for %d steps" % (len(flags_seen), len(sts)))
            continue
        for k in range(1, len(sts)):
            sync_stats["steps"] += 1
            sync_stats["synchronized_starts"] += 1 if flags_seen[k] else 0
            if sts[k] == 1:
                continue            # the no-progress guard overwrote the status this step ran with
            if bool(flags_seen[k]) != (sts[k] == -2):
                sync_stats["mismatch"] += 1
                c.corr_break("reb_check_exit: synchronize event and LAST_STEP disagree (step %d of a WHFast safe_mode=0 run started %s, status during the step %d)"
                             % (k, "synchronized" if flags_seen[k] else "unsynchronized", sts[k]),
                             dict(t0=t0, dt=dt, tmax=tmax, flags=flags_seen, statuses=sts))
                break
        c.count(("sync-observable", fam))
    c.cov["synchronize_event"] = sync_stats

    # ------------------------------------------------------------------ G: exit conditions that first hold on the shortened last step
    # exact_finish_time = 1, tmax not on a step boundary: the last step is cut to tmax - t.  Every exit kind is made to fire exactly at the
    # boundary that ends this cut step; the call must return that code AND leave dt at the full step (rebound.c:881-884 restores on every path).
    gstats = {"exits": 0, "on_shortened_step": 0, "skipped_scenes": 0, "by_kind": {}}
    g_integs = ["leapfrog", "whfast", "saba", "eos", "mercurius", "sei", "janus", "none", "trace", "ias15", "bs", "emulated"]
    g_kinds = ["user", "err", "sigint", "empty", "escape", "encounter", "collision"]
    nG = 3 if thorough else 1
    for rep in range(nG):
        for integ in g_integs:
            for kind in g_kinds:
                rng = c.rng.fork()
                real = "none" if integ == "emulated" else integ
                direction = 1 if integ == "trace" else rng.choice([1, -1])
                if kind == "collision":
                    direction = 1        # the "approaching" test of the collision search uses forward-time velocities
                dt0 = rng.choice([0.1, 0.25, 0.07]) * rng.choice([1, -1])
                ksteps = rng.randint(1, 4)
                tmax = direction * abs(dt0) * (ksteps + rng.uniform(0.2, 0.8))
                physical = kind in ("escape", "encounter", "collision")
                if physical and integ in ("none", "emulated", "sei", "ias15", "bs", "mercurius", "trace"):
                    continue     # NONE does not move particles; adaptive step boundaries are not known beforehand; MERCURIUS/TRACE collide inside
                script = None
                if integ == "emulated":
                    def script(k, dt_in, status, sg=float(direction), mag=abs(dt0)):
                        return True, 1.0, sg * mag
                if not physical:
                    sim = H.make_sim(real, 0.0, dt0, rng)
                    rec = H.call(sim, tmax, 1, events={"last": {kind}}, script=script)
                    H.sigint.value = 0
                else:
                    massive = integ in KEPLER_BASED
                    v = (3.0 if massive else 1.0)
                    T = abs(tmax)

                    def scene():
                        sim = H.make_sim(real, 0.0, dt0, rng.fork(), physics=("central" if massive else "free"))
                        sim.add(m=(1.0 if massive else 0.0), x=0.0, r=0.0)
                        if kind == "escape":
                            sim.add(m=0.0, x=0.3, y=0.2, vx=direction * v)                    # moves outwards in the direction of time
                        else:
                            sim.add(m=0.0, x=-(1.5 * v * T + 1.0), y=0.02, vx=direction * v)     # approaches the anchor
                        return sim

                    def measure(sim):
                        p, q = sim.particles[1], sim.particles[0]
                        if kind == "escape":
                            return max(math.sqrt(a.x * a.x + a.y * a.y + a.z * a.z) for a in (p, q))
                        return math.sqrt((p.x - q.x) ** 2 + (p.y - q.y) ** 2 + (p.z - q.z) ** 2)
                    ref = scene()
                    ref.integrate(direction * abs(dt0) * ksteps)
                    qk = measure(ref)
                    ref.integrate(tmax)
                    qe = measure(ref)
                    ok_scene = (qe > qk * (1 + 1e-6)) if kind == "escape" else (qe < qk * (1 - 1e-6))
                    if not ok_scene or ref.steps_done != ksteps + 1:
                        gstats["skipped_scenes"] += 1
                        continue
                    thr = 0.5 * (qk + qe)
                    sim = scene()
                    maxd = mind = 0.0
                    radii = False
                    if kind == "escape":
                        sim.exit_max_distance = maxd = thr
                    elif kind == "encounter":
                        sim.exit_min_distance = mind = thr
                    else:
                        sim.collision = "direct"; sim.collision_resolve = "halt"
                        sim.particles[0].r = 0.5 * thr; sim.particles[1].r = 0.5 * thr
                        radii = True
                    rec = H.call(sim, tmax, 1, conds=cond_fn(maxd, mind, radii))
                record(integ, rec, "last-step-exit:" + kind, is_bs=(integ == "bs"))
                want = {"user": 5, "err": 1, "sigint": 6, "empty": 2, "escape": 4, "encounter": 3, "collision": 7}[kind]
                if kind == "empty" and integ == "bs" and rec["ret"] != 2:
                    fails.append(("C08-N6:bs-internal-ode-hides-no-particles", "BS without user ODEs: all particles gone but integrate() goes on instead of returning NO_PARTICLES (reb_check_exit counts the N-body ODE that BS registers itself)",
                                  dict(integrator=integ, exit=kind, dt=dt0, tmax=tmax, returned=rec["ret"], expected=2)))
                elif rec["ret"] != want:
                    fails.append(("status-first-boundary", "exit condition on the last step: returned status %s, expected %s" % (rec["ret"], want),
                                  dict(integrator=integ, exit=kind, dt=dt0, tmax=tmax, returned=rec["ret"], expected=want)))
                if rec["ret"] != 0:
                    check_dt_restored_on_exit(integ, rec, fails, gstats, kind)
                    gstats["by_kind"][kind] = gstats["by_kind"].get(kind, 0) + 1
                c.count(("last-step-exit", integ, kind, direction))
    c.cov["exit_on_shortened_last_step"] = gstats

    c.log("section pause")
    # ------------------------------------------------------------------ P: PAUSED / SINGLE_STEP machinery, driven from a second thread
    # reb_simulation_integrate runs in its own thread (ctypes releases the GIL); this thread plays the user of the web visualisation and sends
    # space / arrow-down / page-down to the REBOUND server's /keyboard endpoint (server.c:346-375).  The heartbeat signals the boundary at
    # which a pause is requested; r->usleep keeps the integrator asleep between heartbeat and reb_check_exit so that the key lands there.
    # Keys sent while the integrator waits in the PAUSED loop land at the boundary it is blocked at (steps_done is stable).  The observed
    # (boundary, key) schedule goes to the model (integrateP); independently, the paused run must equal an unpaused twin bit for bit.
    pstats = {"runs": 0, "keys": 0, "pauses_taken": 0, "pauses_ignored": 0, "single_steps": 0, "countdown_beats": 0, "retries": 0,
              "server_unavailable": 0}
    import threading, urllib.request
    KEYCODE = {"s": 32, "1": 264, "5": 267}
    port_base = 21000 + (os.getpid() * 7) % 20000

    def paused_run(integ, dt0, tmax, exact, episodes, seed, port):
        sim = H.make_sim(integ, 0.0, dt0, SplitMix(seed))
        twin = H.make_sim(integ, 0.0, dt0, SplitMix(seed))
        try:
            sim.start_server(port=port)
        except Exception:
            return None
        time.sleep(0.15)
        steps0 = sim.steps_done
        pre = (sim.t, sim.dt, sim.dt_last_done, sim._status, sim.steps_done)
        beats, flags = [], []
        want = {"k": None}
        reached = threading.Event()

        def hb(sp):
            q = sp.contents
            beats.append((q.t, q.dt, q.dt_last_done, q.steps_done, q._status))
            flags.append([0, q.N])
            if want["k"] is not None and len(beats) - 1 == want["k"]:
                q.usleep = 400000          # the integrator sleeps 0.4 s between this heartbeat and reb_check_exit: the key lands here
                reached.set()
            elif q.usleep:
                q.usleep = 0
        sim.heartbeat = hb
        sim.exact_finish_time = exact
        out = []
        th = threading.Thread(target=lambda: out.append(H.clib.reb_simulation_integrate(ctypes.byref(sim), ctypes.c_double(tmax))), daemon=True)

        def send(key):
            # (server.c does fclose(stream); close(childfd) - a double close that can hit a descriptor this process has just opened,
            #  e.g. our next client socket: retry the request, ignore errors when closing)
            import socket
            for attempt_no in range(4):
                sk = None
                try:
                    sk = socket.create_connection(("127.0.0.1", port), timeout=5)
                    sk.sendall(("GET /keyboard/%d HTTP/1.1\r\nHost: localhost\r\n\r\n" % KEYCODE[key]).encode())
                    sk.settimeout(5)
                    got = sk.recv(4096)
                    if got:
                        return True
                except OSError:
                    pstats["socket_errors"] = pstats.get("socket_errors", 0) + 1
                finally:
                    try:
                        if sk is not None:
                            sk.close()
                    except OSError:
                        pass
                time.sleep(0.02)
            raise Infra("the REBOUND server did not answer the keyboard request")

        def wait_blocked(min_steps, timeout=3.0):
            t_end = time.time() + timeout
            while time.time() < t_end and th.is_alive():
                if sim._status == -3 and sim.steps_done - steps0 >= min_steps:
                    time.sleep(0.003)
                    if sim._status == -3:
                        return True
                time.sleep(0.0005)
            return False

        sched = []          # (boundary, "pre" | "wait", key)
        episodes = list(episodes)
        want["k"] = episodes[0][0] if episodes else None
        th.start()
        try:
          for ktarget, keys, early in episodes:
              want["k"] = ktarget
              if len(beats) - 1 > ktarget:
                  break
              if not reached.wait(timeout=5.0) or not th.is_alive():
                  break
              reached.clear()
              keys = list(keys)
              send("s")                                   # lands while the integrator sleeps after the heartbeat of boundary ktarget
              sched.append((ktarget, "pre", "s"))
              if early and keys:                          # a second key before the integrator has even entered reb_check_exit
                  send(keys[0]); sched.append((ktarget, "pre", keys[0])); keys = keys[1:]
              time.sleep(0.45)                            # now the integrator is past its sleep: in the wait loop, or gone on
              for key in keys:
                  if not (th.is_alive() and sim._status == -3):
                      break
                  b = sim.steps_done - steps0
                  send(key)
                  sched.append((b, "wait", key))
                  if key == "s":
                      break
                  t_end = time.time() + 2.0               # one step (arrow-down) or up to 51 (page-down), then PAUSED again - or the end
                  while time.time() < t_end and th.is_alive() and not (sim._status == -3 and sim.steps_done - steps0 > b):
                      time.sleep(0.001)
                  time.sleep(0.01)
          # never leave the integrator paused
          t_end = time.time() + 10
          while th.is_alive() and time.time() < t_end:
              if sim._status == -3:
                  time.sleep(0.01)
                  if sim._status == -3 and th.is_alive():
                      b = sim.steps_done - steps0
                      send("s"); sched.append((b, "wait", "s"))
                      time.sleep(0.01)
              time.sleep(0.002)
        except Infra:
            sim._status = 5          # release the integrator whatever state it is in
            th.join(timeout=5)
            try:
                sim.stop_server()
            except Exception:
                pass
            raise
        th.join(timeout=10)
        try:
            sim.stop_server()
        except Exception:
            pass
        if th.is_alive() or not out:
            return "stuck"
        post = (sim.t, sim.dt, sim.dt_last_done, sim._status, sim.steps_done)
        rec = dict(pre=pre, beats=beats, post=post, ret=out[0], flags=flags, capped=False, tmax=tmax, exact=exact, n_odes=sim._N_odes,
                   dt_in=None, sched=sched)
        twin.integrate(tmax, exact_finish_time=exact)
        return rec, sim, twin

    nP = 24 if thorough else 8
    port_i = 0
    for rep in range(nP):
        rng = c.rng.fork()
        integ = rng.choice(["leapfrog", "whfast", "none", "ias15", "saba"])
        dt0 = rng.choice([0.1, 0.125])
        nsteps = rng.randint(8, 18)
        exact = rng.choice([0, 1])
        tmax = dt0 * (nsteps + rng.choice([0.0, 0.4]))
        style = rng.choice(["pause-resume", "single-steps", "page-down", "pause-at-last-step", "two-episodes"])
        if integ == "ias15":
            nsteps = 6
        k1 = rng.randint(1, max(1, nsteps - 4))
        early = rng.chance(0.5)
        episodes = {"pause-resume": [(k1, ["s"], early)],
                    "single-steps": [(k1, ["1"] * rng.randint(1, 3) + ["s"], early)],
                    "page-down": [(k1, ["5"], early)],
                    "pause-at-last-step": [(nsteps if tmax > dt0 * nsteps else nsteps - 1, ["s"], False)],
                    "two-episodes": [(k1, ["1", "s"], early), (k1 + 3, ["s"], False)]}[style]
        seed = rng.next()
        res = None
        for attempt in range(3):
            port_i += 1
            try:
                res = paused_run(integ, dt0, tmax, exact, episodes, seed, port_base + port_i)
            except Infra:
                res = None
                pstats["retries"] += 1
                continue
            if res is None:
                pstats["server_unavailable"] += 1
                break
            if res == "stuck":
                pstats["retries"] += 1
                continue
            rec, simp, twin = res
            # (scheduling is not under our control: if a key did not land where the handshake put it the beats would show a pause at
            #  another boundary; the model line uses the observed schedule, the twin comparison needs none)
            break
        if res is None or res == "stuck":
            if res == "stuck":
                fails.append(("pause-never-resumes", "integrate() did not return after the pause was released", dict(integrator=integ, style=style)))
            continue
        pstats["runs"] += 1
        pstats["keys"] += len(rec["sched"])
        sts = [b[4] for b in rec["beats"]]
        pstats["countdown_beats"] += sum(1 for x in sts if x <= -10)
        pstats["single_steps"] += sum(1 for k, ph, key in rec["sched"] if key == "1")
        pstats["keys_before_check_exit"] = pstats.get("keys_before_check_exit", 0) + sum(1 for k, ph, key in rec["sched"] if ph == "pre")
        pstats["pauses_taken"] += 1 if any(x == -3 or x <= -10 for x in sts) or len(rec["sched"]) > 1 else 0
        # independent assertion: pausing / stepping does not change what is integrated
        if state_bytes(simp) != state_bytes(twin) or simp.steps_done != twin.steps_done or d2h(simp.dt) != d2h(twin.dt) or rec["ret"] != twin._status:
            fails.append(("pause-changes-trajectory", "a paused / single-stepped integration differs from the uninterrupted one",
                          dict(integrator=integ, style=style, dt=dt0, tmax=tmax, exact_finish_time=exact, keys=rec["sched"],
                               t_paused=simp.t, t_plain=twin.t, steps_paused=simp.steps_done, steps_plain=twin.steps_done,
                               dt_paused=simp.dt, dt_plain=twin.dt, status_paused=rec["ret"], status_plain=twin._status)))
        # model tie with the observed schedule
        by_k = {}
        for k, phase, key in rec["sched"]:
            by_k.setdefault(k, {"pre": "", "wait": ""})[phase] += key
        line = model_line(KIND[integ], rec, is_bs=False, n_odes=rec["n_odes"], fuel=len(rec["beats"]) + 5)
        line += " %d " % len(by_k) + " ".join("%d:%s/%s" % (k, v["pre"], v["wait"]) for k, v in sorted(by_k.items()))
        lines.append(line)
        expect.append(expected_answer(rec))
        meta.append((integ, "paused:" + style, rec))
        c.count(("paused", integ, style, exact))
    c.cov["pause_machinery"] = pstats

    c.log("section ias15-controller")
    # ------------------------------------------------------------------ I: the IAS15 step-size controller itself (force-free runs)
    # Without forces the error estimate of IAS15 is not a normal number and it asks for dt_done/safety_factor: then every dt it uses is
    # decided by the controller alone (min_dt clamp with copysign, x4 growth limit) together with reb_check_exit's cuts.  The Lean model of the
    # controller (`stepIAS15 ... ias15RawFree`) must predict every heartbeat bit for bit: no observed step sizes are fed to the model here.
    istats = {"runs": 0, "steps": 0, "clamped_to_min_dt": 0}
    nI = 6 if thorough else 2
    for rep in range(nI):
        for mode in (0, 1, 2, 3):
            for min_dt in (0.0, 1e-3, 0.05, 0.7):
                rng = c.rng.fork()
                direction = rng.choice([1, -1])
                dt0 = rng.choice([1e-4, 1e-3, 0.01, 0.3]) * rng.choice([1, -1])
                sim = H.make_sim("ias15", rng.choice([0.0, 1.0, -3.0]), dt0, rng, physics="free")
                sim.add(m=0.0, x=0.0)
                sim.add(m=0.0, x=1.0, vy=0.3)
                sim.ri_ias15.adaptive_mode = mode
                sim.ri_ias15.min_dt = min_dt
                exact = rng.choice([1, 1, 0])
                t_a = sim.t
                targets = [t_a + direction * rng.uniform(0.5, 40.0)]
                if rng.chance(0.5):
                    targets.append(targets[0] + direction * rng.uniform(0.1, 30.0))
                for tgt in targets:
                    rec = H.call(sim, tgt, exact)
                    ln = model_line("once", rec).split()
                    ln[1] = "ias15free"
                    ln[-1:] = ["1", "1:%s:%s" % (d2h(min_dt), d2h(0.0))]
                    lines.append(" ".join(ln))
                    expect.append(expected_answer(rec))
                    meta.append(("ias15", "controller-free", rec))
                    istats["runs"] += 1
                    istats["steps"] += len(rec["beats"]) - 1
                    istats["clamped_to_min_dt"] += sum(1 for b in rec["beats"][1:] if min_dt and 4 * abs(b[2]) < min_dt)
                    check_contract(c, "ias15", rec, abs(dt0), fails, worst)
                c.count(("ias15-controller", mode, min_dt, direction, exact))
    c.cov["ias15_controller_tie"] = istats

    c.log("section encounter-collisions")
    # ------------------------------------------------------------------ M: halting collisions found INSIDE the encounter sub-integration
    # MERCURIUS and TRACE search for collisions during their close-encounter sub-steps, so the end-of-step positions a heartbeat sees do not
    # tell whether the step collided.  Independent oracle: the same system integrated with IAS15 (collision search at its own, much finer,
    # boundaries) gives the collision time t_c; if t_c lies well inside a step of the integrator under test (not within 12 % of a boundary),
    # integrate() must return COLLISION exactly at the boundary ending that step.  The flag handed to the model comes from this oracle.
    mstats = {"scenes": 0, "skipped_near_boundary": 0, "collisions": 0, "on_shortened_last_step": 0}
    nM = 6 if thorough else 2
    for integ in ("mercurius", "trace"):
        for rep in range(nM):
            rng = c.rng.fork()
            dt0 = rng.choice([0.02, 0.03, 0.05])
            theta = rng.uniform(0.25, 0.9)
            mp = rng.choice([1e-3, 3e-4])
            rad = rng.uniform(0.006, 0.015)

            def scene(name):
                sim = rebound.Simulation()
                sim.integrator = name
                sim.add(m=1.0)
                sim.add(m=mp, a=1.0, e=0.0, f=0.0, r=rad)
                sim.add(m=mp, a=1.0, e=0.0, f=theta, inc=math.pi, r=rad)       # same circle, retrograde: head-on
                sim.move_to_com()
                sim.dt = dt0
                sim.collision = "direct"
                sim.collision_resolve = "halt"
                return sim
            ref = scene("ias15")
            try:
                ref.integrate(5.0)
                t_c = None
            except rebound.Collision:
                t_c = ref.t
            if t_c is None:
                continue
            frac = (t_c / dt0) % 1.0
            if not 0.12 < frac < 0.88:
                mstats["skipped_near_boundary"] += 1
                continue
            k_exp = int(math.floor(t_c / dt0)) + 1
            # exact_finish_time = 1 with tmax inside the colliding step: the collision falls on the shortened last step
            last = rng.chance(0.5)
            tmax = (k_exp - 1) * dt0 + (0.5 * (frac + 1.0) * dt0 if last else 10 * dt0)
            sim = scene(integ)
            steps0 = sim.steps_done
            rec = H.call(sim, tmax, 1, conds=lambda q, k_exp=k_exp, steps0=steps0: (F_COLL if q.steps_done - steps0 == k_exp else 0))
            record(integ, rec, "encounter-collision")
            mstats["scenes"] += 1
            mstats["collisions"] += 1 if rec["ret"] == 7 else 0
            mstats["on_shortened_last_step"] += 1 if (last and rec["ret"] == 7) else 0
            if rec["ret"] != 7 or rec["post"][4] - rec["pre"][4] != k_exp:
                fails.append(("status-first-boundary", "%s: a collision inside the encounter sub-integration (reference IAS15 run: t_c = %.6f, step %d) "
                              "was returned as status %s after %d steps" % (integ, t_c, k_exp, rec["ret"], rec["post"][4] - rec["pre"][4]),
                              dict(integrator=integ, dt=dt0, theta=theta, m=mp, r=rad, t_collision_reference=t_c, expected_steps=k_exp,
                                   returned=rec["ret"], steps=rec["post"][4] - rec["pre"][4], tmax=tmax)))
            else:
                check_dt_restored_on_exit(integ, rec, fails, gstats, "encounter-collision")
            c.count(("encounter-collision", integ, last))
    c.cov["collisions_inside_encounter_substeps"] = mstats

    # ------------------------------------------------------------------ X: cross-cutting configuration dimensions x core oracles
    # Every case below goes through the model tie (record) and the time / step-size contract (check_contract); status cases also through
    # first_firing.  `dims[name]` counts evaluated cases per dimension; a dimension that stays at zero is a broken obligation.
    c.log("section dimensions")
    import pickle
    dims, dim_errors = {}, {}
    DIM_NAMES = ["roles:N_active<N", "roles:testparticle_type1", "roles:single_active_body", "roles:zero_mass_active",
                 "variational:first_order_nonzero", "variational:second_order", "variational:megno", "variational:escape_ignores_var",
                 "options:safe_mode0", "options:keep_unsynchronized", "options:whfast_coordinates_kernel_corrector", "options:saba_type",
                 "options:eos_phi", "options:mercurius_L_rcrit", "options:trace_peri", "options:G_softening", "options:janus_scales",
                 "time:reversal_between_calls", "time:step_longer_than_period", "time:huge_t_over_dt", "time:tmax_minus_inf",
                 "time:nan_target", "time:dt_sign_vs_target_all_integrators", "time:second_call_one_ulp_short",
                 "callbacks:pre_post_modifications", "callbacks:additional_forces", "callbacks:python_collision_resolve",
                 "callbacks:heartbeat_edits_status", "callbacks:post_modification_edits_dt",
                 "history:integrator_switch", "history:particles_added_removed", "history:explicit_synchronize",
                 "restore:copy", "restore:pickle", "restore:file", "restore:archive",
                 "geometry:moving_com", "geometry:open_boundary_removes_all", "geometry:merge_reduces_N",
                 "python:positional", "python:keyword", "python:bool_and_int_values", "python:numpy_and_int_targets", "python:minus_zero_target",
                 "scale:N_over_128"]

    def dim(*names):
        for nme in names:
            dims[nme] = dims.get(nme, 0) + 1

    def xcall(integ, sim, tmax, exact, tag, names, user_dt=None, **kw):
        rec = H.call(sim, tmax, exact, **kw)
        record(integ, rec, "dim:" + tag, is_bs=(integ == "bs"))
        if rec["ret"] == 0:
            check_contract(c, integ, rec, abs(user_dt if user_dt is not None else rec["pre"][1]), fails, worst)
        dim(*names)
        c.count(("dim", tag, integ, exact))
        return rec

    def attempt(names, fn):
        try:
            fn()
        except Exception as e:      # a configuration the API refuses is not covered (and shows up as a zero count)
            for nme in (names if isinstance(names, (list, tuple)) else [names]):
                dim_errors[nme] = "%s: %s" % (type(e).__name__, str(e)[:120])

    def planets(integ, rng, dt, n_test=0, tp_type=0, n_active=None, zero_mass_active=False, com_shift=False, G=1.0):
        sim = rebound.Simulation()
        sim.integrator = integ
        sim.G = G
        sim.add(m=1.0)
        sim.add(m=(0.0 if zero_mass_active else rng.loguniform(1e-5, 1e-3)), a=1.0, e=rng.uniform(0, 0.1), f=rng.uniform(0, 6.28))
        sim.add(m=rng.loguniform(1e-5, 1e-3), a=rng.uniform(1.8, 2.5), e=rng.uniform(0, 0.1), f=rng.uniform(0, 6.28))
        for i in range(n_test):
            sim.add(m=(0.0 if i % 2 == 0 else 1e-9), a=rng.uniform(3.0, 4.0) + 0.3 * i, f=rng.uniform(0, 6.28))
        sim.move_to_com()
        if n_active is not None:
            sim.N_active = n_active
        sim.testparticle_type = tp_type
        if com_shift:
            for p in sim.particles:
                p.x += 100.0; p.y += 50.0; p.vx += 3.0; p.vy -= 1.0
        sim.dt = dt
        return sim

    def targets_for(rng, dt):
        sg = rng.choice([1, -1])
        return sg, sg * abs(dt) * (rng.randint(2, 9) + rng.choice([0.0, 0.37, 0.5]))

    xin = ["leapfrog", "whfast", "saba", "eos", "mercurius", "janus", "sei", "ias15", "bs", "trace", "none"]
    xrep = 3 if thorough else 1
    for rep in range(xrep):
        # ---- 1 particle roles
        for integ in ["whfast", "mercurius", "ias15", "leapfrog", "saba", "trace", "eos", "bs"]:
            for role in ("N_active<N", "testparticle_type1", "single_active_body", "zero_mass_active"):
                def f(integ=integ, role=role):
                    rng = c.rng.fork()
                    dt = rng.choice([0.05, 0.1]) * rng.choice([1, -1])
                    sim = planets(integ, rng, dt, n_test=2, tp_type=(1 if role == "testparticle_type1" else 0),
                                  n_active=(1 if role == "single_active_body" else 3), zero_mass_active=(role == "zero_mass_active"))
                    sg, tmax = targets_for(rng, dt)
                    if integ == "trace":
                        tmax = abs(tmax)
                    xcall(integ, sim, tmax, rng.choice([0, 1]), "roles", ["roles:" + role], user_dt=dt)
                attempt("roles:" + role, f)
        # ---- 2 variational particles with non-zero data
        for integ in ["ias15", "whfast", "leapfrog"]:
            def f(integ=integ):
                rng = c.rng.fork()
                dt = rng.choice([0.05, 0.02]) * rng.choice([1, -1])
                sim = planets(integ, rng, dt)
                var = sim.add_variation()
                var.particles[1].x = 1e3; var.particles[1].vy = -7.0; var.particles[2].y = 5e2     # far outside any exit sphere
                names = ["variational:first_order_nonzero", "variational:escape_ignores_var"]
                if integ == "ias15":
                    v2 = sim.add_variation(order=2, first_order=var)
                    v2.particles[1].z = 2e3
                    names.append("variational:second_order")
                sim.exit_max_distance = 50.0          # real particles stay inside; variational data are not positions
                sg, tmax = targets_for(rng, dt)
                rec = xcall(integ, sim, tmax, rng.choice([0, 1]), "variational", names, user_dt=dt, conds=cond_fn(50.0, 0.0, False))
                if rec["ret"] != 0:
                    fails.append(("escape-counts-variational", "exit_max_distance fired although only variational particles are outside",
                                  dict(integrator=integ, status=rec["ret"], N=sim.N, N_var=sim.N_var)))
            attempt("variational:first_order_nonzero", f)

            def g(integ=integ):
                rng = c.rng.fork()
                dt = rng.choice([0.05, 0.02])
                sim = planets(integ, rng, dt)
                sim.init_megno(seed=7)
                sg, tmax = targets_for(rng, dt)
                xcall(integ, sim, tmax, rng.choice([0, 1]), "megno", ["variational:megno"], user_dt=dt)
            attempt("variational:megno", g)
        # ---- 3 options
        def opt_cases():
            out = []
            for coord in ("jacobi", "democraticheliocentric", "whds", "barycentric"):
                for kern, corr in (("default", 0), ("default", 11), ("modifiedkick", 3), ("lazy", 5), ("composition", 0)):
                    if coord != "jacobi" and (kern != "default" or corr != 0):
                        continue
                    for safe in (1, 0):
                        out.append(("whfast", dict(coordinates=coord, kernel=kern, corrector=corr, safe_mode=safe)))
            out.append(("whfast", dict(coordinates="jacobi", kernel="default", corrector=17, safe_mode=0, keep_unsynchronized=1)))
            out.append(("whfast", dict(coordinates="democraticheliocentric", kernel="default", corrector=0, safe_mode=0, keep_unsynchronized=1)))
            for typ in ("(10,6,4)", "CL(4)", "4", "(8,6,4)"):
                for safe in (1, 0):
                    out.append(("saba", dict(type=typ, safe_mode=safe)))
            for phi0, phi1 in (("LF", "LF"), ("LF4", "LF"), ("LF8", "LF4"), ("PMLF6", "LF")):
                for safe in (1, 0):
                    out.append(("eos", dict(phi0=phi0, phi1=phi1, safe_mode=safe)))
            for L in ("mercury", "infinity", "C4", "C5"):
                for safe in (1, 0):
                    out.append(("mercurius", dict(L=L, safe_mode=safe, r_crit_hill=(3.0 if safe else 5.0))))
            for pm in ("FULL_IAS15", "PARTIAL_BS", "FULL_BS"):
                out.append(("trace", dict(peri_mode=pm)))
            return out
        for integ, o in opt_cases():
            def f(integ=integ, o=o):
                rng = c.rng.fork()
                dt = rng.choice([0.05, 0.1]) * (1 if integ == "trace" else rng.choice([1, -1]))
                sim = planets(integ, rng, dt)
                names = []
                if integ == "whfast":
                    w = sim.ri_whfast
                    w.coordinates = o["coordinates"]; w.kernel = o["kernel"]; w.corrector = o["corrector"]; w.safe_mode = o["safe_mode"]
                    if o.get("keep_unsynchronized"):
                        w.keep_unsynchronized = 1; names.append("options:keep_unsynchronized")
                    names.append("options:whfast_coordinates_kernel_corrector")
                elif integ == "saba":
                    sim.ri_saba.type = o["type"]; sim.ri_saba.safe_mode = o["safe_mode"]; names.append("options:saba_type")
                elif integ == "eos":
                    sim.ri_eos.phi0 = o["phi0"]; sim.ri_eos.phi1 = o["phi1"]; sim.ri_eos.safe_mode = o["safe_mode"]; names.append("options:eos_phi")
                elif integ == "mercurius":
                    sim.ri_mercurius.L = o["L"]; sim.ri_mercurius.safe_mode = o["safe_mode"]; sim.ri_mercurius.r_crit_hill = o["r_crit_hill"]
                    names.append("options:mercurius_L_rcrit")
                elif integ == "trace":
                    sim.ri_trace.peri_mode = o["peri_mode"]; names.append("options:trace_peri")
                if o.get("safe_mode") == 0:
                    names.append("options:safe_mode0")
                sg, tmax = targets_for(rng, dt)
                if integ == "trace":
                    tmax = abs(tmax)
                # two consecutive calls: the second starts from whatever synchronisation state the first left
                xcall(integ, sim, tmax, 1, "options", names, user_dt=dt)
                xcall(integ, sim, tmax + (1 if tmax > 0 else -1) * abs(dt) * 3.3, rng.choice([0, 1]), "options", names, user_dt=dt)
            attempt(["options:" + integ], f)
        for integ in ["whfast", "leapfrog", "ias15", "mercurius", "saba"]:
            def f(integ=integ):
                rng = c.rng.fork()
                dt = rng.choice([0.01, 0.02]) * rng.choice([1, -1])
                sim = planets(integ, rng, dt, G=4 * math.pi ** 2)
                sim.softening = 0.01
                sg, tmax = targets_for(rng, dt)
                xcall(integ, sim, tmax, rng.choice([0, 1]), "G_softening", ["options:G_softening"], user_dt=dt)
            attempt("options:G_softening", f)

        def fj():
            rng = c.rng.fork()
            dt = 0.01 * rng.choice([1, -1])
            sim = planets("janus", rng, dt)
            sim.ri_janus.scale_pos = 1e-13; sim.ri_janus.scale_vel = 3e-15; sim.ri_janus.order = rng.choice([2, 4, 6])
            sg, tmax = targets_for(rng, dt)
            xcall("janus", sim, tmax, rng.choice([0, 1]), "janus_scales", ["options:janus_scales"], user_dt=dt)
        attempt("options:janus_scales", fj)
        # ---- 4 time
        for integ in xin:
            def f(integ=integ):
                rng = c.rng.fork()
                dt = rng.choice([0.05, 0.1]) * rng.choice([1, -1])
                sim = planets(integ, rng, dt) if integ != "sei" else H.make_sim("sei", 0.0, dt, rng)
                fwd_only = integ == "trace"
                seq = [1.03, 0.42, 2.5, -0.77, 0.0, 1.0] if not fwd_only else [1.03, 2.5, 2.5, 3.1]
                for tg in seq:                 # direction changes between calls; every integrator sees dt of either sign against either target
                    xcall(integ, sim, tg, rng.choice([0, 1, 1]), "reversal", ["time:reversal_between_calls", "time:dt_sign_vs_target_all_integrators"], user_dt=dt)
            attempt("time:reversal_between_calls", f)
        for integ in ["whfast", "saba", "mercurius", "leapfrog", "eos", "janus", "trace", "ias15", "bs"]:
            def f(integ=integ):
                rng = c.rng.fork()
                dt = rng.uniform(7.0, 25.0) * (1 if integ == "trace" else rng.choice([1, -1]))      # longer than the inner period 2 pi
                sim = planets(integ, rng, dt)
                sg, tmax = targets_for(rng, dt)
                if integ == "trace":
                    tmax = abs(tmax)
                xcall(integ, sim, tmax, rng.choice([0, 1]), "long_step", ["time:step_longer_than_period"], user_dt=dt)
            attempt("time:step_longer_than_period", f)
        for integ in ["leapfrog", "whfast", "sei", "saba", "none", "eos", "mercurius", "janus"]:
            def f(integ=integ):
                rng = c.rng.fork()
                dt = rng.choice([0.1, 0.01, 0.003]) * rng.choice([1, -1])
                t0 = rng.choice([1, -1]) * 10.0 ** rng.randint(5, 9) * rng.uniform(1, 9)          # |t|/dt from 1e6 to 3e12
                sim = H.make_sim(integ, t0, dt, rng)
                tmax = t0 + rng.choice([1, -1]) * abs(dt) * (rng.randint(1, 6) + rng.choice([0.0, 0.41]))
                for ex in (1, 0):
                    xcall(integ, sim, tmax, ex, "huge_ratio", ["time:huge_t_over_dt"], user_dt=dt)
                    tmax = sim.t + rng.choice([1, -1]) * abs(dt) * 2.6
            attempt("time:huge_t_over_dt", f)
        for integ in ["leapfrog", "whfast", "ias15", "none"]:
            def f(integ=integ):
                rng = c.rng.fork()
                sim = H.make_sim(integ, 0.0, 0.1 * rng.choice([1, -1]), rng)
                kb = rng.randint(2, 6)
                rec = xcall(integ, sim, -math.inf, rng.choice([0, 1]), "minus_inf", ["time:tmax_minus_inf"], events={kb: {"user"}})
                if rec["ret"] != 5 or len(rec["beats"]) != kb + 1 or not all(b2[0] <= b1[0] for b1, b2 in zip(rec["beats"], rec["beats"][1:])):
                    fails.append(("minus-inf-target", "integrate(-inf) does not run backwards until stopped", dict(integrator=integ, status=rec["ret"])))
            attempt("time:tmax_minus_inf", f)
        # regression of 0a3347a (C08-N5): a second integrate(tmax) with t one ulp short of tmax, exact_finish_time=1, SI-like magnitudes:
        # the cut step (1 ulp) is absorbed by the half-step time update; reb_check_exit ends the call inside the 1e-12 window: SUCCESS
        for integ in ["whfast", "leapfrog", "ias15", "sei", "saba", "mercurius"]:
            for tm_i in range(4):
                def f(integ=integ, tm_i=tm_i):
                    rng = c.rng.fork()
                    # (whether t + dt/2 rounds back to t depends on the parity of the last mantissa bit: random targets, not round numbers)
                    tm = rng.choice([1, -1]) * rng.uniform(1e8, 2e9)
                    fwd = rng.choice([True, False])
                    sim = rebound.Simulation()
                    sim.integrator = integ
                    sim.G = 6.674e-11
                    sim.add(m=1.989e30)
                    sim.add(m=5.97e24, a=1.496e11, e=0.0167, f=rng.uniform(0, 6.28))
                    sim.move_to_com()
                    start_side = -math.inf if fwd else math.inf
                    sim.t = math.nextafter(tm, start_side)            # where an exact-finish run may legitimately have ended
                    sim.dt = 8e5 * rng.choice([1, -1])
                    rec = xcall(integ, sim, tm, 1, "ulp_short_of_tmax", ["time:second_call_one_ulp_short"], user_dt=8e5)
                    if rec["ret"] != 0 or not abs(rec["post"][0] - tm) <= 1e-12 * abs(tm):
                        fails.append(("C08-N5:no-progress-error-on-absorbed-last-step",
                                      "integrate(tmax) called with t one ulp short of tmax (exact_finish_time=1) returned status %s instead of SUCCESS"
                                      % STATUS_NAMES.get(rec["ret"], rec["ret"]),
                                      dict(integrator=integ, t=math.nextafter(tm, start_side), tmax=tm, dt=rec["pre"][1], status=rec["ret"],
                                           t_end=rec["post"][0], steps=rec["post"][4] - rec["pre"][4])))
                attempt("time:second_call_one_ulp_short", f)
        # NaN target: refused by the argument check (if the source has it) or - finding C08-N4 - an endless backward integration
        for integ in ["leapfrog", "ias15"]:
            def f(integ=integ):
                rng = c.rng.fork()
                sim = H.make_sim(integ, 1.0, 0.1, rng)
                rec = H.call(sim, math.nan, rng.choice([0, 1]), cap=60)
                record(integ, rec, "dim:nan_target")
                dim("time:nan_target")
                if NAN_GUARD[0]:
                    if rec["ret"] != 1 or rec["post"][4] != rec["pre"][4] or d2h(rec["post"][0]) != d2h(rec["pre"][0]):
                        fails.append(("nan-target", "integrate(NaN) is not refused cleanly", dict(integrator=integ, status=rec["ret"], t=rec["post"][0])))
                elif rec["capped"]:
                    fails.append(("C08-N4:nan-target-runs-forever", "integrate(NaN) integrates backwards for ever (every comparison with the target is false)",
                                  dict(integrator=integ, t0=1.0, dt=0.1, steps_before_the_heartbeat_stopped_it=rec["post"][4] - rec["pre"][4], t=rec["post"][0])))
            attempt("time:nan_target", f)
        # ---- 5 callbacks
        for integ in ["leapfrog", "whfast", "ias15", "mercurius", "saba", "eos", "bs"]:
            def f(integ=integ):
                rng = c.rng.fork()
                dt = rng.choice([0.05, 0.1]) * rng.choice([1, -1])
                sim = planets(integ, rng, dt)
                seen = {"pre": 0, "post": 0, "af": 0}

                def pre(sp): seen["pre"] += 1
                def post(sp):
                    seen["post"] += 1
                    sp.contents.particles[2].vz += 1e-12          # an editing modification (physics only)
                def af(sp): seen["af"] += 1
                sim.pre_timestep_modifications = pre
                sim.post_timestep_modifications = post
                sim.additional_forces = af
                sg, tmax = targets_for(rng, dt)
                rec = xcall(integ, sim, tmax, rng.choice([0, 1]), "callbacks", ["callbacks:pre_post_modifications", "callbacks:additional_forces"], user_dt=dt)
                nst = rec["post"][4] - rec["pre"][4]
                if seen["pre"] != nst or seen["post"] != nst or (seen["af"] < nst):
                    fails.append(("callback-count", "pre/post_timestep_modifications not called once per step",
                                  dict(integrator=integ, steps=nst, **seen)))
            attempt("callbacks:pre_post_modifications", f)
        for integ in ["leapfrog", "whfast", "ias15"]:
            def f(integ=integ):
                rng = c.rng.fork()
                dt = 0.05 * rng.choice([1, -1])
                sim = planets(integ, rng, dt)
                sim.particles[1].r = 0.3; sim.particles[2].r = 0.3
                sim.collision = "direct"
                calls = [0]

                def resolver(sp, col):
                    calls[0] += 1
                    return 0
                sim.collision_resolve = resolver
                sg, tmax = targets_for(rng, dt)
                xcall(integ, sim, tmax, rng.choice([0, 1]), "py_resolver", ["callbacks:python_collision_resolve"], user_dt=dt)
            attempt("callbacks:python_collision_resolve", f)
        for integ in ["leapfrog", "whfast", "ias15", "saba", "none"]:
            for code, flag in ((3, F_ENC), (4, F_ESC), (5, F_USER)):
                def f(integ=integ, code=code, flag=flag):
                    rng = c.rng.fork()
                    dt = 0.1 * rng.choice([1, -1])
                    sim = H.make_sim(integ, 0.0, dt, rng)
                    kb = rng.randint(0, 5)
                    state = {"n": 0}

                    def cond(q):
                        state["n"] += 1
                        if state["n"] - 1 == kb:
                            q._status = code          # the user's heartbeat writes the status member directly
                            return flag
                        return 0
                    rec = xcall(integ, sim, dt * 8.5, rng.choice([0, 1]), "hb_status", ["callbacks:heartbeat_edits_status"], user_dt=dt, conds=cond)
                    if state["n"] > kb and (rec["ret"] != code or len(rec["beats"]) != kb + 1):     # (an adaptive run may be over before kb)
                        fails.append(("status-first-boundary", "status written by the heartbeat is not returned at that boundary",
                                      dict(integrator=integ, written=code, boundary=kb, returned=rec["ret"], heartbeats=len(rec["beats"]))))
                attempt("callbacks:heartbeat_edits_status", f)

        def fpm():
            # a post_timestep_modification that rescales dt: for the loop this is an adaptive integrator (model: observed dt per step)
            rng = c.rng.fork()
            dt = 0.1 * rng.choice([1, -1])
            sim = H.make_sim("saba", 0.0, dt, rng)

            def post(sp):
                q = sp.contents
                q.dt = q.dt * (1.3 if q.steps_done % 2 == 0 else 0.9)
            sim.post_timestep_modifications = post
            sg, tmax = targets_for(rng, dt)
            rec = H.call(sim, tmax * 3, 1)
            # (SABA does t += dt with the dt of the step; the edited dt is what the heartbeat sees: observed-step-size tie)
            ln = model_line("adaptive", rec)
            lines.append(ln); expect.append(expected_answer(rec)); meta.append(("ias15", "dim:post_edits_dt", rec))
            dim("callbacks:post_modification_edits_dt")
            if rec["ret"] == 0 and not abs(rec["post"][0] - rec["tmax"]) <= 1e-12 * abs(rec["tmax"]):
                fails.append(("exact-finish", "exact finish lost when a post_timestep_modification edits dt", dict(t=rec["post"][0], tmax=rec["tmax"])))
        attempt("callbacks:post_modification_edits_dt", fpm)
        # ---- 6 histories
        def fsw():
            rng = c.rng.fork()
            dt = 0.05 * rng.choice([1, -1])
            sim = planets("whfast", rng, dt)
            t = 0.0
            order = ["whfast", "ias15", "leapfrog", "mercurius", "saba", "bs", "eos", "whfast", "janus", "none"]
            rng.shuffle(order)
            for i, integ in enumerate(order[:6]):
                if rng.chance(0.5):
                    sim.reset_integrator()          # (also puts the integrator back to IAS15: select afterwards)
                sim.integrator = integ
                if KIND[integ] != "adaptive":
                    sim.dt = math.copysign(0.05, sim.dt)
                t += abs(dt) * (3 + 0.37 * i)
                xcall(integ, sim, t * (1 if dt > 0 else -1), rng.choice([0, 1, 1]), "switch", ["history:integrator_switch"],
                      user_dt=(0.05 if KIND[integ] != "adaptive" else None))
        attempt("history:integrator_switch", fsw)
        for integ in ["whfast", "ias15", "leapfrog", "mercurius", "saba"]:
            def f(integ=integ):
                rng = c.rng.fork()
                dt = 0.05 * rng.choice([1, -1])
                sim = planets(integ, rng, dt, n_test=1)
                sgn = 1 if dt > 0 else -1
                xcall(integ, sim, sgn * 0.52, 1, "addremove", ["history:particles_added_removed"], user_dt=dt)
                sim.add(m=1e-6, a=5.0)
                xcall(integ, sim, sgn * 0.93, rng.choice([0, 1]), "addremove", ["history:particles_added_removed"], user_dt=dt)
                sim.remove(index=2)
                xcall(integ, sim, sgn * 1.61, 1, "addremove", ["history:particles_added_removed"], user_dt=dt)
                sim.synchronize()
                xcall(integ, sim, sgn * 2.0, rng.choice([0, 1]), "sync", ["history:explicit_synchronize"], user_dt=dt)
            attempt("history:particles_added_removed", f)
        # restore paths: the flag of an earlier exact_finish_time=0 call is persisted; the default of the next call must still be exact
        for integ in ["whfast", "leapfrog", "ias15", "mercurius", "saba", "eos", "bs", "trace", "janus"]:
            for path in ("copy", "pickle", "file", "archive"):
                def f(integ=integ, path=path):
                    rng = c.rng.fork()
                    dt = 0.05 * (1 if integ == "trace" else rng.choice([1, -1]))
                    sgn = 1 if dt > 0 else -1
                    sim = planets(integ, rng, dt)
                    sim.integrate(sgn * 0.52, exact_finish_time=0)
                    if path == "copy":
                        s2 = sim.copy()
                    elif path == "pickle":
                        s2 = pickle.loads(pickle.dumps(sim))
                    else:
                        fn = os.path.join(d, "c08_restore_%s_%d.bin" % (integ, rng.next() % 10 ** 9))
                        sim.save_to_file(fn, delete_file=True)
                        s2 = rebound.Simulation(fn) if path == "file" else rebound.Simulationarchive(fn)[-1]
                    tgt = s2.t + sgn * abs(dt) * 4.37
                    s2.integrate(tgt)                       # default argument on the restored simulation
                    dim("restore:" + path)
                    c.count(("dim", "restore", integ, path))
                    if not abs(s2.t - tgt) <= 1e-12 * abs(tgt):
                        fails.append(("python-default-exact-finish", "Simulation.integrate(tmax) on a simulation restored by %s after an "
                                      "exact_finish_time=0 call did not end at tmax" % path,
                                      dict(integrator=integ, path=path, t_end=s2.t, tmax=tgt, dt=dt)))
                    # and the raw loop on the restored simulation ties with the model
                    xcall(integ, s2, s2.t + sgn * abs(dt) * 2.5, rng.choice([0, 1]), "restored", ["restore:" + path],
                          user_dt=(dt if KIND[integ] != "adaptive" else None))
                attempt("restore:" + path, f)
        # ---- 7 geometry
        for integ in ["whfast", "leapfrog", "ias15", "mercurius", "saba"]:
            def f(integ=integ):
                rng = c.rng.fork()
                dt = 0.05
                sim = planets(integ, rng, dt, com_shift=True)
                maxd = 125.0                  # the whole system drifts out of the sphere (distances are measured from the origin)
                sim.exit_max_distance = maxd
                rec = xcall(integ, sim, 20.0, rng.choice([0, 1]), "moving_com", ["geometry:moving_com"], user_dt=dt, conds=cond_fn(maxd, 0.0, False))
                k, st = first_firing(rec)
                if rec["ret"] != (st if st is not None else 0) or (k is not None and len(rec["beats"]) != k + 1):
                    fails.append(("status-first-boundary", "escape of a drifting system not reported at the first boundary",
                                  dict(integrator=integ, returned=rec["ret"], expected=st, boundary=k, heartbeats=len(rec["beats"]))))
            attempt("geometry:moving_com", f)
        for integ in ["leapfrog", "ias15", "eos"]:
            def f(integ=integ):
                rng = c.rng.fork()
                dt = 0.1
                sim = rebound.Simulation()
                sim.integrator = integ
                sim.gravity = "none"
                sim.configure_box(4.0)
                sim.boundary = "open"
                for i in range(3):
                    sim.add(m=0.0, x=rng.uniform(-0.5, 0.5), y=rng.uniform(-0.5, 0.5), vx=rng.choice([1, -1]) * rng.uniform(0.8, 2.0), vy=rng.uniform(-1, 1))
                sim.dt = dt
                if integ == "ias15":
                    sim.ri_ias15.epsilon = 0
                rec = xcall(integ, sim, 30.0, rng.choice([0, 1]), "open_boundary", ["geometry:open_boundary_removes_all"], user_dt=dt)
                k, st = first_firing(rec)
                if rec["ret"] != 2 or st != 2 or len(rec["beats"]) != k + 1:
                    fails.append(("status-first-boundary", "all particles removed by the open boundary: NO_PARTICLES not returned at that boundary",
                                  dict(integrator=integ, returned=rec["ret"], first_empty_boundary=k, heartbeats=len(rec["beats"]))))
            attempt("geometry:open_boundary_removes_all", f)
        for integ in ["leapfrog", "ias15", "whfast"]:
            def f(integ=integ):
                rng = c.rng.fork()
                dt = 0.02
                sim = planets(integ, rng, dt)
                sim.add(m=1e-4, a=1.0, f=sim.particles[1].f + 0.05, r=0.05)
                sim.particles[1].r = 0.05
                sim.collision = "direct"
                sim.collision_resolve = "merge"
                n0 = sim.N
                rec = xcall(integ, sim, 3.03, rng.choice([0, 1]), "merge", ["geometry:merge_reduces_N"], user_dt=dt)
            attempt("geometry:merge_reduces_N", f)
        # ---- 8 Python layer: how the arguments are passed
        try:
            import numpy as np
        except Exception:
            np = None
        for integ in ["whfast", "leapfrog", "ias15", "mercurius"]:
            def f(integ=integ):
                rng = c.rng.fork()
                dt = 0.05
                forms = [("python:positional", lambda s_, t_: s_.integrate(t_, 1), 1), ("python:positional", lambda s_, t_: s_.integrate(t_, 0), 0),
                         ("python:keyword", lambda s_, t_: s_.integrate(tmax=t_), 1), ("python:keyword", lambda s_, t_: s_.integrate(tmax=t_, exact_finish_time=0), 0),
                         ("python:keyword", lambda s_, t_: s_.integrate(exact_finish_time=1, tmax=t_), 1),
                         ("python:bool_and_int_values", lambda s_, t_: s_.integrate(t_, exact_finish_time=True), 1),
                         ("python:bool_and_int_values", lambda s_, t_: s_.integrate(t_, exact_finish_time=False), 0),
                         ("python:numpy_and_int_targets", lambda s_, t_: s_.integrate(int(math.ceil(t_))), 1)]
                if np is not None:
                    forms += [("python:numpy_and_int_targets", lambda s_, t_: s_.integrate(np.float64(t_)), 1),
                              ("python:numpy_and_int_targets", lambda s_, t_: s_.integrate(np.float32(t_)), 1)]
                sim = planets(integ, rng, dt)
                prev0 = False
                for name, call, expect_exact in forms:
                    tgt = sim.t + dt * (rng.randint(2, 5) + 0.37)
                    before = sim.t
                    call(sim, tgt)
                    dim(name)
                    c.count(("dim", "pyform", integ, name))
                    # the target as the C side received it
                    eff = float(np.float32(tgt)) if (np is not None and "float32" in repr(call.__code__.co_names)) else (float(int(math.ceil(tgt))) if "ceil" in call.__code__.co_names else tgt)
                    if expect_exact:
                        okp = abs(sim.t - eff) <= 1e-12 * abs(eff)
                    else:
                        okp = 0 <= sim.t - eff < dt * (1 + 1e-9) or KIND[integ] == "adaptive" and sim.t >= eff
                    if not okp:
                        fails.append(("python-argument-forms", "Simulation.integrate called as %s ended at %r for target %r" % (name, sim.t, eff),
                                      dict(integrator=integ, form=name, t_end=sim.t, target=eff, expect_exact=expect_exact)))
                # -0.0 as a target from a negative time: must end at zero exactly
                sim2 = planets(integ, rng, dt)
                sim2.integrate(-0.12)
                sim2.integrate(-0.0)
                dim("python:minus_zero_target")
                if sim2.t != 0.0:
                    fails.append(("python-argument-forms", "integrate(-0.0) did not end at zero", dict(integrator=integ, t_end=sim2.t)))
            attempt("python:positional", f)
        # ---- 9 scale
        def fN():
            rng = c.rng.fork()
            sim = rebound.Simulation()
            sim.integrator = "leapfrog"
            sim.gravity = "none"
            for i in range(140):
                sim.add(m=0.0, x=rng.uniform(-1, 1), y=rng.uniform(-1, 1), vx=rng.uniform(-0.2, 0.2), vy=rng.uniform(-0.2, 0.2))
            sim.particles[137].vx = 2.5
            sim.exit_max_distance = 3.0
            sim.dt = 0.1
            rec = xcall("leapfrog", sim, 5.0, 1, "N140", ["scale:N_over_128"], user_dt=0.1, conds=cond_fn(3.0, 0.0, False))
            k, st = first_firing(rec)
            if rec["ret"] != 4 or st != 4 or len(rec["beats"]) != k + 1:
                fails.append(("status-first-boundary", "escape of particle 137 of 140 not reported at the first boundary", dict(returned=rec["ret"], expected_boundary=k)))
        attempt("scale:N_over_128", fN)

    c.cov["dimensions"] = {k: dims.get(k, 0) for k in DIM_NAMES}
    c.cov["dimension_setup_errors"] = dim_errors
    for k in DIM_NAMES:
        if dims.get(k, 0) == 0:
            c.corr_break("dimension %s not covered%s" % (k, (" (" + dim_errors[k] + ")") if k in dim_errors else ""))

    # ------------------------------------------------------------------ Y: pairwise conjunctions of the configuration factors
    # Explicit factors with finite value sets; cases come from a greedy all-pairs covering array (deterministic, independent of VERIF_SEED);
    # quick runs the slice  index % 2 == seed % 2, thorough the whole array plus the full factorial integ x exact x event x dir (3-way and more
    # for the factors closest to the state machine).  Binary constraints = combinations the code rejects or that have no meaning, listed below.
    c.log("section pairwise")
    PF = {
        "integ": list(REAL),
        "dtsign": ["+", "-"],
        "dir": ["fwd", "bwd"],
        "exact": [0, 1],
        "pattern": ["single", "split", "outputs", "reversal"],
        "target": ["on", "off", "ulp", "short"],
        "safe": [1, 0],
        "roles": ["plain", "testp", "var"],
        "edit": ["none", "dt", "particle", "add", "sync"],
        "restore": ["none", "copy", "pickle", "file"],
        "callbacks": ["none", "prepost", "forces", "all"],
        "event": ["none", "user@0", "user@mid", "user@last", "err@mid", "err@last", "sigint@mid", "empty@mid", "empty@last", "status4@mid"],
        "after": ["nothing", "same_target", "further", "reversed"],
        "entry": ["raw", "py_kw", "py_pos", "py_default"],
        "archive": ["none", "step", "interval"],
        # what the integrator has to cope with during the run, and its non-default options (added after seed C08-j: TRACE peri_mode=FULL_IAS15
        # x pericentre passage in the last full step x exact finish off the step grid was in no case)
        "physics": ["benign", "encounter", "peri_early", "peri_last_step"],
        "opt": ["default", "alt1", "alt2"],
    }
    OPTS = {   # integrator -> (alt1, alt2): attribute settings
        "trace": ({"ri_trace.peri_mode": "FULL_IAS15"}, {"ri_trace.peri_mode": "FULL_BS"}),
        "mercurius": ({"ri_mercurius.L": "infinity", "ri_mercurius.r_crit_hill": 5.0}, {"ri_mercurius.L": "C4"}),
        "whfast": ({"ri_whfast.coordinates": "democraticheliocentric"}, {"ri_whfast.kernel": "lazy", "ri_whfast.corrector": 5}),
        "saba": ({"ri_saba.type": "(10,6,4)"}, {"ri_saba.type": "CL(4)"}),
        "eos": ({"ri_eos.phi0": "LF4"}, {"ri_eos.phi0": "PMLF6"}),
        "ias15": ({"ri_ias15.adaptive_mode": 1}, {"ri_ias15.adaptive_mode": 0, "ri_ias15.min_dt": 1e-3}),
        "bs": ({"ri_bs.eps_abs": 1e-9, "ri_bs.eps_rel": 1e-9}, {"ri_bs.max_dt": 0.02}),
        "janus": ({"ri_janus.order": 4}, {"ri_janus.scale_pos": 1e-13, "ri_janus.scale_vel": 3e-15}),
    }
    PNAMES = list(PF)
    SAFE_INTEGS = ("whfast", "saba", "eos", "mercurius")
    VAR_INTEGS = ("whfast", "ias15", "leapfrog")

    def excluded(f, a, g, b):
        """binary constraints (f,a) x (g,b) -> reason or None"""
        v = {f: a, g: b}
        it = v.get("integ")
        if it == "trace" and (v.get("dir") == "bwd" or v.get("pattern") == "reversal" or v.get("after") == "reversed"):
            return "TRACE backwards is unsupported (F10)"
        if v.get("safe") == 0 and it is not None and it not in SAFE_INTEGS:
            return "integrator has no safe_mode"
        if v.get("roles") == "var" and it is not None and it not in VAR_INTEGS:
            return "variational equations only for WHFast / IAS15 / LEAPFROG"
        if v.get("roles") == "testp" and it in ("none", "sei"):
            return "NONE / SEI scenes have no active-vs-test distinction"
        if str(v.get("event", "")).endswith("@last") and v.get("exact") == 0:
            return "no shortened last step without exact finishing"
        if v.get("entry") == "py_default" and v.get("exact") == 0:
            return "the omitted argument means exact_finish_time = 1"
        if v.get("edit") == "add" and v.get("roles") == "var":
            return "adding real particles after variational ones breaks the particle layout (refused by add)"
        if v.get("roles") == "var" and str(v.get("event", "")).startswith("empty"):
            return "remove_all_particles leaves var_config entries pointing at removed particles (undefined)"
        if v.get("opt") in ("alt1", "alt2") and it is not None and it not in OPTS:
            return "integrator has no options that reach the time bookkeeping"
        if v.get("physics") in ("encounter", "peri_early", "peri_last_step") and it in ("none", "sei"):
            return "NONE / SEI scenes have no orbits"
        return None

    def valid(case):
        # (ternary) variational equations exist only for the default WHFast options (Jacobi coordinates, default kernel)
        if case["integ"] == "whfast" and case["roles"] == "var" and case["opt"] != "default":
            return False
        for i, f in enumerate(PNAMES):
            for g in PNAMES[i + 1:]:
                if excluded(f, case[f], g, case[g]):
                    return False
        return True

    all_pairs, excl_pairs = set(), {}
    for i, f in enumerate(PNAMES):
        for g in PNAMES[i + 1:]:
            for a in PF[f]:
                for b in PF[g]:
                    r_ = excluded(f, a, g, b)
                    if r_:
                        excl_pairs[(f, a, g, b)] = r_
                    else:
                        all_pairs.add((f, a, g, b))

    def pairs_of(case):
        return {(f, case[f], g, case[g]) for i, f in enumerate(PNAMES) for g in PNAMES[i + 1:]}

    # greedy all-pairs (fixed seed: the array is the same in every run; only the quick slice rotates)
    grng = SplitMix(20250930)
    uncovered = set(all_pairs)
    array = []
    while uncovered and len(array) < 600:
        best, bestn = None, -1
        # seed the candidate with an uncovered pair so that progress is guaranteed
        seedp = sorted(uncovered, key=str)[grng.next() % len(uncovered)]
        for _ in range(60):
            cand = {f: grng.choice(PF[f]) for f in PNAMES}
            cand[seedp[0]] = seedp[1]; cand[seedp[2]] = seedp[3]
            if not valid(cand):
                continue
            n_ = len(pairs_of(cand) & uncovered)
            if n_ > bestn:
                best, bestn = cand, n_
        if best is None:
            # the seed pair cannot be completed to a valid case with random values: try systematically harder
            for _ in range(2000):
                cand = {f: grng.choice(PF[f]) for f in PNAMES}
                cand[seedp[0]] = seedp[1]; cand[seedp[2]] = seedp[3]
                if valid(cand):
                    best = cand
                    break
            if best is None:
                excl_pairs[seedp] = "no valid completion (ternary interaction of the constraints)"
                all_pairs.discard(seedp); uncovered.discard(seedp)
                continue
        array.append(best)
        uncovered -= pairs_of(best)
    if thorough:
        todo = list(array)
        for it in PF["integ"]:
            for ex in PF["exact"]:
                for ev in PF["event"]:
                    for dr in PF["dir"]:
                        for _ in range(20):
                            cand = {f: grng.choice(PF[f]) for f in PNAMES}
                            cand.update(integ=it, exact=ex, event=ev, dir=dr)
                            if valid(cand):
                                todo.append(cand)
                                break
    else:
        todo = [cs for i, cs in enumerate(array) if i % 2 == c.seed % 2]
    # 3-way (every tier): integrator x option x physics, with the core of the contract (exact finish, target off the step grid, one call,
    # nothing else going on) - the conjunction seed C08-j needed - and, in thorough, also without exact finish and with a follow-up call
    core = dict(dtsign="+", exact=1, pattern="single", target="off", safe=1, roles="plain", edit="none", restore="none", callbacks="none",
                event="none", after="further", entry="raw", archive="none")
    n3 = 0
    for it in PF["integ"]:
        for op_ in PF["opt"]:
            for ph in PF["physics"]:
                drs = PF["dir"] if thorough else (["fwd", "bwd"] if (n3 + c.seed) % 3 else ["bwd", "fwd"])
                done3 = False
                for dr in drs:
                    cand = dict(core, integ=it, opt=op_, physics=ph, dir=dr)
                    if done3 and not thorough:
                        break
                    if valid(cand):
                        done3 = True
                        todo.append(cand); n3 += 1
                        if thorough:
                            todo.append(dict(cand, exact=0, entry="py_kw"))
    c.cov["threeway_integ_opt_physics_cases"] = n3

    pstat = {"array_cases": len(array), "run": 0, "errors": {}, "calls": 0}
    seen_pairs = set()
    entry_used = set()

    def run_case(case, idx):
        rng = SplitMix(1000003 * (idx + 1) + 17)          # the case determines everything (seed-independent)
        integ = case["integ"]
        sgn = 1.0 if case["dtsign"] == "+" else -1.0
        dirn = 1.0 if case["dir"] == "fwd" else -1.0
        unit = 0.05
        dt = sgn * unit
        fn_archive = None
        if integ in ("none", "sei"):
            sim = H.make_sim(integ, 0.0, dt, rng)
        else:
            nt = 2 if case["roles"] == "testp" else 0
            sim = planets(integ, rng, dt, n_test=nt, n_active=(3 if nt else None))
            if case["physics"] in ("peri_early", "peri_last_step"):
                # the inner planet is replaced by one on an e = 0.95 orbit whose pericentre passage falls into the warm-up call, or into the
                # last FULL step before the (first) target of the pattern (mean motion 1: the mean anomaly is the time to pericentre)
                off_n = {"on": 4.0, "off": 4.37, "ulp": 4.0, "short": 0.4}[case["target"]]
                t_peri = 0.1 if case["physics"] == "peri_early" else 0.23 + unit * max(0.0, math.floor(off_n) - 0.6)
                p1 = rebound.Particle(simulation=sim, primary=sim.particles[0], m=sim.particles[1].m, a=1.0, e=0.95, M=-dirn * t_peri)
                for k_ in ("x", "y", "z", "vx", "vy", "vz"):
                    setattr(sim.particles[1], k_, getattr(p1, k_))
            elif case["physics"] == "encounter":
                p2 = rebound.Particle(simulation=sim, primary=sim.particles[0], m=sim.particles[2].m, a=rng.uniform(0.9, 1.2), e=rng.uniform(0.3, 0.5),
                                      f=rng.uniform(0, 6.28), omega=rng.uniform(0, 6.28))
                for k_ in ("x", "y", "z", "vx", "vy", "vz"):
                    setattr(sim.particles[2], k_, getattr(p2, k_))
            if case["opt"] != "default":
                for path_, val_ in OPTS[integ][0 if case["opt"] == "alt1" else 1].items():
                    obj_, attr_ = path_.split(".")
                    setattr(getattr(sim, obj_), attr_, val_)
        if case["roles"] == "var":
            var = sim.add_variation()
            var.particles[1].x = 1.0; var.particles[2].vy = 0.5
        if integ in SAFE_INTEGS:
            getattr(sim, "ri_" + integ).safe_mode = case["safe"]

        def install(sim):
            if case["callbacks"] in ("prepost", "all"):
                def pre(sp): pass
                def post(sp):
                    if sp.contents.N > 1:
                        sp.contents.particles[1].vz += 1e-13
                sim.pre_timestep_modifications = pre
                sim.post_timestep_modifications = post
            if case["callbacks"] in ("forces", "all"):
                def af(sp): pass
                sim.additional_forces = af
            if case["archive"] != "none":
                fnA = os.path.join(d, "c08_pair_%d_%d.bin" % (idx, rng.next() % 10 ** 9))
                if case["archive"] == "step":
                    sim.save_to_file(fnA, step=2, delete_file=True)
                else:
                    sim.save_to_file(fnA, interval=0.13, delete_file=True)
                return fnA
            return None
        fn_archive = install(sim)
        kind_is_adaptive = KIND[integ] == "adaptive"

        def one(tmax, exact, via="raw", events=None, conds=None, tag=""):
            pre_dt = sim.dt
            rec = H.call(sim, tmax, exact, events=events, conds=conds, via=via)
            pstat["calls"] += 1
            entry_used.add("Simulation.integrate[%s]" % via if via != "raw" else "reb_simulation_integrate")
            record(integ, rec, "pair:" + tag, is_bs=(integ == "bs"))
            if rec["ret"] == 0:
                check_contract(c, integ, rec, abs(pre_dt), fails, worst)
            k, st = first_firing(rec, is_bs=(integ == "bs"))
            want = st if st is not None else 0
            if rec["ret"] != want or (k is not None and len(rec["beats"]) != k + 1):
                fails.append(("status-first-boundary", "pairwise case: returned status %s, expected %s (first firing boundary %s, heartbeats %d)"
                              % (rec["ret"], want, k, len(rec["beats"])), dict(case=case, call=tag, tmax=tmax, exact_finish_time=exact)))
            if exact == 1 and rec["ret"] != 0:
                check_dt_restored_on_exit(integ, rec, fails, gstats, "pair:" + tag)
            if via != "raw":
                okexc = rec["raised"] == PY_EXC.get(rec["ret"]) or (rec["ret"] == 1 and rec["raised"] == "RuntimeError")
                if not okexc:
                    fails.append(("python-exception", "pairwise case: Simulation.integrate (%s) raised %s for status %s" % (via, rec["raised"], rec["ret"]),
                                  dict(case=case, call=tag)))
            return rec

        # warm-up call (so that edits / restores happen mid-run), then the edit, then the restore
        one(dirn * 0.23, 1, tag="warmup")
        ed = case["edit"]
        if ed == "dt":
            sim.dt = sim.dt * 0.7
        elif ed == "particle" and sim.N > 1:
            sim.particles[1].vy += 1e-6
        elif ed == "add":
            sim.add(m=1e-7, a=6.0) if integ not in ("none", "sei") else sim.add(m=0.0, x=3.0, vy=0.1)
        elif ed == "sync":
            sim.synchronize(); entry_used.add("Simulation.synchronize")
        rs = case["restore"]
        if rs != "none":
            if rs == "copy":
                sim2 = sim.copy()
            elif rs == "pickle":
                sim2 = pickle.loads(pickle.dumps(sim))
            else:
                fnR = os.path.join(d, "c08_pairR_%d.bin" % idx)
                sim.save_to_file(fnR, delete_file=True)
                sim2 = rebound.Simulation(fnR)
            sim = sim2
            fn_archive = install(sim)
        unit = abs(sim.dt) if not kind_is_adaptive else 0.05
        base = sim.t
        off = {"on": 4.0, "off": 4.37, "ulp": 4.0, "short": 0.4}[case["target"]] * unit
        T1 = base + dirn * off
        if case["target"] == "ulp":
            T1 = math.nextafter(T1, dirn * math.inf)
        pat = case["pattern"]
        if pat == "single":
            targets = [T1]
        elif pat == "split":
            targets = [base + (T1 - base) * 0.31, base + (T1 - base) * 0.64, T1]
        elif pat == "outputs":
            targets = [base + (T1 - base) * j for j in (1, 2, 3, 4)]
        else:
            targets = [T1, base, base + (T1 - base) * 0.5]
        ev = case["event"]
        for j, tg in enumerate(targets):
            events, conds = None, None
            if j == len(targets) - 1 and ev != "none":
                what, where = ev.split("@")
                kb = 0 if where == "0" else (1 if (kind_is_adaptive or case["target"] == "short") else 2)
                if what == "status4":
                    st_ = {"n": 0}

                    def conds(q, st_=st_, kb=kb):
                        st_["n"] += 1
                        if st_["n"] - 1 == kb:
                            q._status = 4
                            return F_ESC
                        return 0
                elif where == "last":
                    events = {"last": {what}}
                else:
                    events = {kb: {what}}
            rec = one(tg, case["exact"], via=case["entry"], events=events, conds=conds, tag="%s%d" % (pat, j))
            H.sigint.value = 0
        af = case["after"]
        if af != "nothing" and sim.N > 0:
            tg2 = {"same_target": targets[-1], "further": targets[-1] + dirn * 2.6 * unit, "reversed": base - dirn * 1.3 * unit}[af]
            one(tg2, case["exact"], via=case["entry"], tag="after:" + af)
        if fn_archive is not None and os.path.exists(fn_archive):
            sa = rebound.Simulationarchive(fn_archive)
            if len(sa) < 1:
                fails.append(("archive-hook", "integrate with an archive attached left an unreadable archive", dict(case=case)))
            if os.path.exists(fn_archive):
                os.remove(fn_archive)

    for idx, case in enumerate(todo):
        try:
            run_case(case, array.index(case) if case in array else 10000 + idx)
            seen_pairs |= pairs_of(case)
            pstat["run"] += 1
            c.count(("pair", case["integ"], case["event"], case["pattern"], case["entry"]))
        except Exception as e:
            pstat["errors"][json.dumps(case, sort_keys=True)[:300]] = "%s: %s" % (type(e).__name__, str(e)[:160])
    covered = len(seen_pairs & all_pairs)
    missing_pairs = sorted(all_pairs - seen_pairs, key=str)
    c.cov["pairs"] = {"covered": covered, "total": len(all_pairs), "excluded": len(excl_pairs),
                      "factors": {f: len(PF[f]) for f in PNAMES}, "array_cases": len(array), "cases_run": pstat["run"], "calls": pstat["calls"],
                      "excluded_reasons": sorted(set(excl_pairs.values())), "missing": [list(m) for m in missing_pairs[:20]],
                      "errors": dict(list(pstat["errors"].items())[:8])}
    if thorough and missing_pairs:
        c.corr_break("pairwise coverage incomplete: %d of %d applicable pairs never generated; first: %s" % (len(missing_pairs), len(all_pairs), list(missing_pairs[0])))
    if pstat["errors"]:
        c.corr_break("%d pairwise cases could not be executed; first: %s" % (len(pstat["errors"]), list(pstat["errors"].items())[0]))

    # ------------------------------------------------------------------ Z: public entry points, each exercised with an oracle
    c.log("section entry points")
    ep_c, ep_py = extract_c08.entry_points(REPO)
    used = set(entry_used)
    aux_lines, aux_expect, aux_meta = [], [], []
    # -- reb_run_heartbeat called directly: the exit conditions computed by the model (heartbeatFlags) vs the real routine
    H.clib.reb_run_heartbeat.argtypes = [ctypes.c_void_p]
    nHB = 400 if thorough else 80
    hb_stats = {"cases": 0, "escape": 0, "encounter": 0, "user": 0, "exact_ties": 0, "with_variational": 0}
    for rep in range(nHB):
        rng = c.rng.fork()
        n = rng.randint(0, 6)
        sim = rebound.Simulation()
        pts = []
        for i in range(n):
            p = (rng.uniform(-2, 2), rng.uniform(-2, 2), rng.choice([0.0, rng.uniform(-1, 1)]))
            pts.append(p)
            sim.add(m=(1.0 if i == 0 else 0.0), x=p[0], y=p[1], z=p[2])
        nvar = 0
        if n >= 1 and rng.chance(0.25):
            var = sim.add_variation()
            var.particles[0].x = 50.0        # variational data far outside: must not count
            nvar = 1
            hb_stats["with_variational"] += 1
        r2 = [x * x + y * y + z * z for x, y, z in pts]
        d2 = [((pts[i][0] - pts[j][0]) * (pts[i][0] - pts[j][0]) + (pts[i][1] - pts[j][1]) * (pts[i][1] - pts[j][1])) + (pts[i][2] - pts[j][2]) * (pts[i][2] - pts[j][2])
              for i in range(n) for j in range(i)]
        maxd = rng.choice([0.0, rng.uniform(0.5, 3.0)] + ([ulp_step(math.sqrt(max(r2)), rng.randint(-2, 2))] if r2 else []))
        mind = rng.choice([0.0, rng.uniform(0.1, 1.5)] + ([ulp_step(math.sqrt(min(d2)), rng.randint(-2, 2))] if d2 else []))
        if r2 and maxd * maxd == max(r2) or d2 and mind * mind == min(d2):
            hb_stats["exact_ties"] += 1
        user = rng.chance(0.2)
        st0 = rng.choice([-1, -2, -1])
        sim.exit_max_distance = maxd
        sim.exit_min_distance = mind
        if user:
            def hbu(sp):
                sp.contents.stop()
            sim.heartbeat = hbu
        sim._status = st0
        H.clib.reb_run_heartbeat(ctypes.byref(sim))
        got = sim._status
        aux_lines.append("HB %d %d %s %s %d " % (st0, 1 if user else 0, d2h(maxd), d2h(mind), n) + " ".join(d2h(v) for p in pts for v in p))
        aux_expect.append(str(got))
        aux_meta.append(("reb_run_heartbeat", dict(n=n, maxd=maxd, mind=mind, user=user, status0=st0, particles=pts)))
        hb_stats["cases"] += 1
        hb_stats["escape"] += got == 4; hb_stats["encounter"] += got == 3; hb_stats["user"] += got == 5
        c.count(("entry", "reb_run_heartbeat", n, got))
    used |= {"reb_run_heartbeat", "Simulation.exit_max_distance", "Simulation.exit_min_distance", "Simulation.stop", "reb_simulation_stop"}
    c.cov["heartbeat_direct_tie"] = hb_stats
    # -- reb_check_exit called directly on crafted states (also the SINGLE_STEP countdown and PAUSED + SIGINT, which need no second thread here)
    H.clib.reb_check_exit.argtypes = [ctypes.c_void_p, ctypes.c_double, ctypes.POINTER(ctypes.c_double)]
    H.clib.reb_check_exit.restype = ctypes.c_int
    nCE = 1500 if thorough else 300
    ce_stats = {"cases": 0, "ret_histogram": {}}
    for rep in range(nCE):
        rng = c.rng.fork()
        t0, dt, tmax, fam = gen_triple(rng)
        if rng.chance(0.15):
            tmax = rng.choice([math.inf, -math.inf])
        status = rng.choice([-1, -1, -2, -2, -10, -11, -37, -60, 1, 4, 5, 7, 0, -3, -4])
        exact = rng.choice([0, 1, 1, 2])
        dld = rng.choice([0.0, dt, dt * 0.5, -dt])
        lf0 = rng.choice([dt, dt * 3, 0.125])
        npart = rng.choice([1, 1, 1, 0])
        err = rng.chance(0.15)
        sig = 1 if status in (-3, -4, -10) else rng.choice([0, 0, 1])      # PAUSED / SCREENSHOT (also reached from SINGLE_STEP) without SIGINT would wait for ever
        sim = rebound.Simulation()
        sim.integrator = rng.choice(["whfast", "leapfrog", "ias15", "bs", "none"])
        if npart:
            sim.add(m=1.0)
        sim.t = t0; sim.dt = dt; sim.dt_last_done = dld; sim._status = status; sim.exact_finish_time = exact
        if err:
            H.clib.reb_simulation_error(ctypes.byref(sim), b"C08 injected error")
        H.sigint.value = sig
        lf = ctypes.c_double(lf0)
        ret = H.clib.reb_check_exit(ctypes.byref(sim), ctypes.c_double(tmax), ctypes.byref(lf))
        H.sigint.value = 0
        try:
            sim.process_messages()
        except RuntimeError:
            pass
        mask = (F_ERR if err else 0) | (F_SIGINT if sig else 0)
        aux_lines.append("CE %s %s %s %d %d %s %s %s %d:%d 0 %s" % (d2h(t0), d2h(dt), d2h(dld), status, exact, d2h(tmax), "1" if tmax == math.inf else "0",
                                                                   d2h(lf0), mask, npart, "1" if sim.integrator == "bs" else "0"))
        aux_expect.append("ret %d %s %s" % (ret, d2h(sim.dt), d2h(lf.value)))
        aux_meta.append(("reb_check_exit", dict(t=t0, dt=dt, dt_last_done=dld, status=status, exact_finish_time=exact, tmax=tmax, last_full_dt=lf0,
                                                N=npart, error_waiting=err, sigint=sig, returned=ret, dt_after=sim.dt, last_full_after=lf.value)))
        ce_stats["cases"] += 1
        ce_stats["ret_histogram"][str(ret)] = ce_stats["ret_histogram"].get(str(ret), 0) + 1
        c.count(("entry", "reb_check_exit", status, exact, ret))
    used |= {"reb_check_exit", "reb_sigint"}
    c.cov["check_exit_direct_tie"] = ce_stats
    # -- reb_simulation_step / steps and their Python spellings: time bookkeeping of one step without the loop
    step_stats = {"steps": 0}
    for integ in FIXED:
        rng = c.rng.fork()
        dt = rng.choice([0.05, -0.1])
        sim = H.make_sim(integ, rng.uniform(-2, 2), dt, rng)
        for form in ("Simulation.step", "reb_simulation_step", "Simulation.steps", "reb_simulation_steps"):
            nst = 1 if form.endswith("step") else 3
            t_b, st_b, sd_b = sim.t, sim._status, sim.steps_done
            if form == "Simulation.step":
                sim.step()
            elif form == "reb_simulation_step":
                H.clib.reb_simulation_step(ctypes.byref(sim))
            elif form == "Simulation.steps":
                sim.steps(nst)
            else:
                H.clib.reb_simulation_steps(ctypes.byref(sim), ctypes.c_uint(nst))
            want = t_b
            for _ in range(nst):
                want = (want + dt / 2.) + dt / 2. if KIND[integ] == "halves" else want + dt
            okst = d2h(sim.t) == d2h(want) and d2h(sim.dt) == d2h(dt) and sim.steps_done == sd_b + nst and sim._status == st_b and \
                (KIND[integ] == "janus" or d2h(sim.dt_last_done) == d2h(dt))
            step_stats["steps"] += nst
            c.count(("entry", form, integ))
            if not okst:
                fails.append(("step-bookkeeping", "%s: t / dt / dt_last_done / steps_done / status after the call are not those of %d step(s)" % (form, nst),
                              dict(integrator=integ, t_before=t_b, dt=dt, t_after=sim.t, expected_t=want, dt_after=sim.dt, dt_last_done=sim.dt_last_done,
                                   steps_done=sim.steps_done - sd_b, status_before=st_b, status_after=sim._status)))
            used.add(form)
    c.cov["step_entry_points"] = step_stats
    # -- the halting resolver called directly, and selected through the Python attribute
    class RebCollision(ctypes.Structure):
        _fields_ = [("p1", ctypes.c_int), ("p2", ctypes.c_int), ("gb", ctypes.c_double * 6), ("ri", ctypes.c_int)]
    rng = c.rng.fork()
    sim = H.make_sim("leapfrog", 1.25, 0.1, rng)
    sim._status = -1
    H.clib.reb_collision_resolve_halt.argtypes = [ctypes.c_void_p, RebCollision]
    H.clib.reb_collision_resolve_halt.restype = ctypes.c_int
    rv_ = H.clib.reb_collision_resolve_halt(ctypes.byref(sim), RebCollision(p1=0, p2=1))
    if rv_ != 0 or sim._status != 7 or sim.particles[0].last_collision != 1.25 or sim.particles[1].last_collision != 1.25:
        fails.append(("halt-resolver", "reb_collision_resolve_halt does not set COLLISION / last_collision / return 0", dict(ret=rv_, status=sim._status)))
    used.add("reb_collision_resolve_halt")
    sim2 = H.make_sim("leapfrog", 0.0, 0.05, rng, physics="free")
    sim2.add(m=0.0, x=0.0, r=0.2); sim2.add(m=0.0, x=-0.6, vx=1.0, r=0.2)
    sim2.collision = "direct"
    sim2.collision_resolve = "halt"
    got_exc = None
    try:
        sim2.integrate(2.0, exact_finish_time=0)
    except Exception as e_:
        got_exc = type(e_).__name__
    if got_exc != "Collision" or sim2._status != 7 or sim2.exact_finish_time != 0:
        fails.append(("halt-resolver", "collision_resolve='halt' through the Python attribute did not end integrate with Collision",
                      dict(raised=got_exc, status=sim2._status, exact_finish_time_member=sim2.exact_finish_time)))
    used |= {"Simulation.collision_resolve", "Simulation.integrate", "Simulation.exact_finish_time", "reb_simulation_integrate"}
    c.count(("entry", "halt"))
    # run the direct ties through the driver
    got_aux = run_driver(exe, aux_lines) if aux_lines else []
    naux = 0
    for g_, e_, (nm_, det_) in zip(got_aux, aux_expect, aux_meta):
        gg = g_.split()
        ok_ = (g_.strip() == e_) if nm_ == "reb_run_heartbeat" else (gg[:1] == ["ret"] and " ".join(["ret", gg[1], gg[2], gg[3]]) == e_)
        if not ok_:
            naux += 1
            if naux == 1:
                c.corr_break("%s called directly differs from the model: model '%s', implementation '%s'" % (nm_, g_.strip()[:80], e_), det_)
    c.cov["entry_points"] = {"c": ep_c, "python": ep_py, "exercised": sorted(used & (set(ep_c) | set(ep_py))),
                             "direct_tie_lines": len(aux_lines), "direct_tie_disagreements": naux}
    if len(ep_c) < 8 or len(ep_py) < 8:
        c.corr_break("entry-point extraction found only %d C / %d Python entry points (expected >= 8 / 8)" % (len(ep_c), len(ep_py)))
    not_used = sorted((set(ep_c) | set(ep_py)) - used)
    if not_used:
        c.corr_break("public entry points of the integrate() mechanism not exercised in this run: " + ", ".join(not_used))

    # ------------------------------------------------------------------ model vs implementation
    c.log("running %d integrate calls through drv_c08" % len(lines))
    got = run_driver(exe, lines)
    ndis, nwithin, first = 0, 0, None
    adaptive_pred = {"checked": 0, "shrunk_inside_step": 0}
    ias15_obs = {"steps": 0, "proposal_below_min_dt": 0, "retried_inside_step": 0}
    if len(got) != len(lines):
        c.corr_break("driver returned %d lines for %d calls" % (len(got), len(lines)))
    else:
        for g, e, (integ, tag, rec), l in zip(got, expect, meta, lines):
            pa = parse_answer(g)
            if pa is not None and pa[0] != e and tolerant_equal(pa[0], e, rec):
                nwithin += 1
                continue
            if pa is None or pa[0] != e:
                ndis += 1
                if first is None:
                    a = pa[0] if pa else [g]
                    idx = next((i for i, (x, y) in enumerate(zip(a, e)) if x != y), min(len(a), len(e)))
                    first = {"integrator": integ, "case": tag, "tmax": rec["tmax"], "exact_finish_time": rec["exact"], "pre": rec["pre"],
                             "first_difference_at_token": idx, "model": a[max(0, idx - 3): idx + 4], "impl": e[max(0, idx - 3): idx + 4],
                             "model_head": a[:7], "impl_head": e[:7], "line": l[:300]}
                continue
            # synchronize calls of the model: one per step taken in LAST_STEP (the two overshoot branches) + the final one
            # (runs that end with SUCCESS: every LAST_STEP entry / continuation is followed by a step, so the count is determined by what the
            #  real heartbeats saw)
            if pa[0][0] == "done" and rec["ret"] == 0:
                nlast = sum(1 for b in rec["beats"][1:] if b[4] == -2)
                if pa[1] != nlast + 1:
                    ndis += 1
                    if first is None:
                        first = {"integrator": integ, "case": tag, "what": "number of synchronize calls in the model", "model_syncs": pa[1],
                                 "steps_in_LAST_STEP": nlast}
                    continue
            # emulated adaptive integrator: the step size every step was called with is observable -> compare it too
            if rec.get("dt_in") is not None and [d2h(x) for x in rec["dt_in"]] != pa[2][:len(rec["dt_in"])]:
                ndis += 1
                if first is None:
                    first = {"integrator": integ, "case": tag, "tmax": rec["tmax"], "exact_finish_time": rec["exact"], "pre": rec["pre"],
                             "what": "step size the step function was called with", "model": pa[2][:8],
                             "impl": [d2h(x) for x in rec["dt_in"]][:8]}
                continue
            # hypothesis of the adaptive theorem, observed: an accepted step advances by dt_done with 0 < |dt_done| <= |dt on entry|
            if KIND[integ] == "adaptive":
                for dt0h, b_prev, b in zip(pa[2], rec["beats"], rec["beats"][1:]):
                    dt0, done = h2d(dt0h), b[2]
                    if d2h(b[0]) == d2h(b_prev[0]):
                        continue
                    adaptive_pred["checked"] += 1
                    if d2h(done) != d2h(dt0):
                        adaptive_pred["shrunk_inside_step"] += 1
                    # conclusions of c08_ias15_progress, observed per step (dt0 = the step the model says it was called with)
                    md = rec.get("ias15_min_dt")
                    if md:
                        ias15_obs["steps"] += 1
                        newdt = b[1]
                        c1 = d2h(done) == d2h(dt0) or abs(done) >= md
                        c2 = abs(newdt) >= md or (d2h(newdt) == d2h(done / 0.25) and d2h(done) == d2h(dt0) and abs(dt0) < md)
                        ias15_obs["proposal_below_min_dt"] += 0 if abs(newdt) >= md else 1
                        ias15_obs["retried_inside_step"] += 0 if d2h(done) == d2h(dt0) else 1
                        if not (c1 and c2 and math.copysign(1, newdt) == math.copysign(1, dt0)):
                            fails.append(("ias15-progress", "an IAS15 step violates the bounds derived from its step-size controller (c08_ias15_progress)",
                                          dict(min_dt=md, dt_in=dt0, dt_done=done, dt_new=newdt, tmax=rec["tmax"])))
                    if not (done != 0 and math.copysign(1, done) == math.copysign(1, dt0) and abs(done) <= abs(dt0)) or (integ == "bs" and d2h(done) != d2h(dt0)):
                        fails.append(("adaptive-step-predicate", "an accepted adaptive step advanced by more than / against the dt it was called with",
                                      dict(integrator=integ, dt_in=dt0, dt_done=done, tmax=rec["tmax"])))
    c.cov["no_progress_guard"] = guard_stats
    c.cov["model_calls_compared"] = len(lines)
    c.cov["disagreements"] = ndis
    c.cov["bitwise_mismatches_within_tolerance"] = nwithin
    c.cov["steps_per_call_histogram"] = hist_steps
    c.cov["family_histogram"] = fam_hist
    c.cov["adaptive_step_predicate"] = adaptive_pred
    c.cov["ias15_progress_observed"] = ias15_obs
    if ndis:
        c.corr_break("%d of %d integrate calls differ between model and implementation; first: %s %s" %
                     (ndis, len(lines), first["integrator"], first["case"]), first)

    search_more(c, H, d, fails, worst)
    c.cov["worst_measured"] = {k: (float("%.3g" % v) if isinstance(v, float) else v) for k, v in worst.items()}
    seen = set()
    for key, what, rep in fails:
        if key in seen:
            continue
        seen.add(key)
        c.violation(key, what, rep)


def search_more(c, H, scratch, fails, worst):
    c.log("search")
    rebound = H.rebound
    thorough = c.thorough

    # ------------------------------------------------------------------ split integration == single call (fixed step, no exact finish)
    nS = 150 if thorough else 8
    split_stats = {"compared": 0, "reversing_partitions": 0}
    for integ in FIXED:
        for rep in range(nS):
            rng = c.rng.fork()
            t0 = rng.choice([0.0, rng.uniform(-3, 3)])
            mag = rng.choice([0.1, 0.25, 0.01 * rng.randint(1, 40), rng.uniform(0.05, 1.0)])
            direction = 1 if integ == "trace" else rng.choice([1, -1])
            dt = mag * rng.choice([1, -1]) if integ != "trace" else mag
            span = mag * rng.uniform(0.3, 25)
            tmax = t0 + direction * span
            ncalls = rng.randint(2, 6)
            targets = partition(rng, t0, tmax, ncalls)
            if rng.chance(0.3):     # targets exactly on step boundaries
                targets = [t0 + direction * mag * round(abs(tg - t0) / mag) for tg in targets[:-1]] + [tmax]
            seed = rng.next()
            simA = H.make_sim(integ, t0, dt, SplitMix(seed))
            simB = H.make_sim(integ, t0, dt, SplitMix(seed))
            reversed_ = False
            for tg in targets:
                if (tg - simA.t) * direction < 0:
                    reversed_ = True
                if integ == "trace" and tg < simA.t:
                    break
                simA.integrate(tg, exact_finish_time=0)
            else:
                simB.integrate(tmax, exact_finish_time=0)
                same = state_bytes(simA) == state_bytes(simB) and simA.steps_done == simB.steps_done
                split_stats["compared"] += 1
                c.count(("split", integ, ncalls, reversed_))
                if not same:
                    rep_ = dict(integrator=integ, t0=t0, dt=dt, targets=targets, t_split=simA.t, t_single=simB.t,
                                steps_split=simA.steps_done, steps_single=simB.steps_done, dt_after_split=simA.dt)
                    if reversed_:
                        split_stats["reversing_partitions"] += 1
                        fails.append(("C08-N1:split-overshoot-reverses",
                                      "integrate(t1); integrate(t2) with exact_finish_time=0 and a step that carries the first call past t2 "
                                      "turns the second call into a backward integration (ends before t2, dt sign flipped)", rep_))
                    else:
                        fails.append(("split-trajectory", "split integration (exact_finish_time=0) differs from the single call", rep_))
            if reversed_ and integ == "trace":
                split_stats["reversing_partitions"] += 1
    c.cov["split_vs_single"] = split_stats

    # ------------------------------------------------------------------ Python API: call sequences mixing explicit and default exact_finish_time
    # The documented default of Simulation.integrate is exact finishing.  It must hold for every call that omits the argument, whatever an
    # earlier call on the same simulation (or the simulation it was copied from) asked for.
    seq_stats = {"sequences": 0, "calls": 0, "default_after_0": 0, "on_copy": 0}
    nQ = 12 if thorough else 3
    for integ in REAL:
        for rep in range(nQ):
            rng = c.rng.fork()
            direction = 1 if integ == "trace" else rng.choice([1, -1])
            dt0 = rng.choice([0.1, 0.25, 0.07, rng.uniform(0.05, 0.4)]) * (1 if integ == "trace" else rng.choice([1, -1]))
            sim = H.make_sim(integ, 0.0, dt0, rng)
            seq_stats["sequences"] += 1
            prev = None
            hist = []
            for call in range(rng.randint(3, 6)):
                mode = rng.choice(["default", "default", 0, 1])
                if prev == 0 and rng.chance(0.6):
                    mode = "default"
                if mode == "default" and prev == 0 and rng.chance(0.4):
                    sim = sim.copy()                      # the flag travels with copies / snapshots
                    seq_stats["on_copy"] += 1
                # next target well beyond the current time (an overshooting call may have passed the previous one), never on a boundary
                tgt = sim.t + direction * abs(dt0) * (rng.randint(1, 4) + rng.uniform(0.15, 0.85))
                t_before = sim.t
                if mode == "default":
                    sim.integrate(tgt)
                else:
                    sim.integrate(tgt, exact_finish_time=mode)
                hist.append([mode, tgt, sim.t])
                seq_stats["calls"] += 1
                c.count(("pyseq", integ, str(mode), str(prev)))
                if mode == "default" and prev == 0:
                    seq_stats["default_after_0"] += 1
                tol = 1e-12 * abs(tgt) if 1e-12 * abs(tgt) >= 1e-200 else 1e-12
                if mode in ("default", 1):
                    if not abs(sim.t - tgt) <= tol:
                        fails.append(("python-default-exact-finish",
                                      "Simulation.integrate(tmax%s) did not end at tmax (previous call used exact_finish_time=%s)"
                                      % ("" if mode == "default" else ", exact_finish_time=1", prev),
                                      dict(integrator=integ, dt=dt0, calls=hist, t_end=sim.t, tmax=tgt, overshoot=(sim.t - tgt) * direction)))
                        break
                else:
                    over = (sim.t - tgt) * direction
                    if not (0 <= over < abs(dt0) * (1 + 1e-9)) and KIND[integ] != "adaptive":
                        fails.append(("python-no-exact-finish", "Simulation.integrate(tmax, exact_finish_time=0) did not end at the first boundary past tmax",
                                      dict(integrator=integ, dt=dt0, calls=hist, overshoot=over)))
                        break
                prev = mode if mode != "default" else 1
    c.cov["python_call_sequences"] = seq_stats

    # ------------------------------------------------------------------ Python API: exception raised on the shortened last step, dt afterwards
    pyexit = {"raised": 0}
    for integ in ["leapfrog", "whfast", "eos", "saba"]:
        for kind in ("escape", "encounter", "collision", "user"):
            rng = c.rng.fork()
            massive = integ in KEPLER_BASED
            direction = 1 if kind == "collision" else rng.choice([1, -1])
            dt0 = rng.choice([0.1, 0.25]) * rng.choice([1, -1])
            ksteps = rng.randint(1, 3)
            tmax = direction * abs(dt0) * (ksteps + rng.uniform(0.25, 0.75))
            v = 3.0 if massive else 1.0

            def scene():
                sim = H.make_sim(integ, 0.0, dt0, rng.fork(), physics=("central" if massive else "free"))
                sim.add(m=(1.0 if massive else 0.0), x=0.0)
                if kind == "escape":
                    sim.add(m=0.0, x=0.3, y=0.2, vx=direction * v)
                else:
                    sim.add(m=0.0, x=-(1.5 * v * abs(tmax) + 1.0), y=0.02, vx=direction * v)
                return sim

            def measure(sim):
                p, q = sim.particles[1], sim.particles[0]
                if kind == "escape":
                    return max(math.sqrt(a.x * a.x + a.y * a.y + a.z * a.z) for a in (p, q))
                return math.sqrt((p.x - q.x) ** 2 + (p.y - q.y) ** 2 + (p.z - q.z) ** 2)
            ref = scene()
            ref.integrate(direction * abs(dt0) * ksteps)
            qk = measure(ref)
            ref.integrate(tmax)
            qe = measure(ref)
            sim = scene()
            thr = 0.5 * (qk + qe)
            if kind == "escape":
                sim.exit_max_distance = thr
            elif kind == "encounter":
                sim.exit_min_distance = thr
            elif kind == "collision":
                sim.collision = "direct"; sim.collision_resolve = "halt"
                sim.particles[0].r = 0.5 * thr; sim.particles[1].r = 0.5 * thr
            else:
                nb = [0]

                def hb(sp, nb=nb):
                    nb[0] += 1
                    if nb[0] == ksteps + 2:
                        H.clib.reb_simulation_stop(sp)
                sim.heartbeat = hb
            got = None
            try:
                sim.integrate(tmax)
            except Exception as e:
                got = type(e).__name__
            pyexit["raised"] += 1 if got else 0
            c.count(("py-last-step-exit", integ, kind))
            want_dt = math.copysign(abs(dt0), direction)
            if sim._status != 0 and d2h(sim.dt) != d2h(want_dt):
                fails.append(("dt-restore-on-exit", "Simulation.integrate ended with %s (status %d) on the shortened last step and left sim.dt = %r instead of %r"
                              % (got, sim._status, sim.dt, want_dt),
                              dict(integrator=integ, exit=kind, dt=dt0, tmax=tmax, raised=got, status=sim._status, dt_after=sim.dt, expected_dt=want_dt,
                                   steps=sim.steps_done)))
    c.cov["python_exit_on_last_step"] = pyexit

    # ------------------------------------------------------------------ Python layer: exception class per status
    exc_seen = {}
    for integ in ["leapfrog", "whfast", "ias15"]:
        for want, setup in ((1, "err"), (2, "empty"), (3, "encounter"), (4, "escape"), (5, "user"), (6, "sigint"), (7, "collision"), (0, "none")):
            rng = c.rng.fork()
            massive = integ in KEPLER_BASED
            sim = H.make_sim(integ, 0.0, 0.1, rng, physics=("central" if massive else "free"))
            sim.add(m=(1.0 if massive else 0.0), x=0.0)
            sim.add(m=0.0, x=-1.0, y=0.03, vx=(3.0 if massive else 1.0), r=0.01)
            if setup == "encounter":
                sim.exit_min_distance = 0.2
            if setup == "escape":
                sim.exit_max_distance = 0.5
            if setup == "collision":
                sim.collision = "direct"; sim.collision_resolve = "halt"; sim.particles[0].r = 0.5
            if integ == "ias15":
                sim.ri_ias15.epsilon = 0
            nb = [0]

            def hb(sp, setup=setup, nb=nb):
                nb[0] += 1
                if nb[0] == 3:
                    if setup == "err": H.clib.reb_simulation_error(sp, b"C08 injected error")
                    if setup == "empty": H.clib.reb_simulation_remove_all_particles(sp)
                    if setup == "user": H.clib.reb_simulation_stop(sp)
                    if setup == "sigint": H.sigint.value = 1
            sim.heartbeat = hb
            got = None
            try:
                sim.integrate(5.0)
            except BaseException as e:      # KeyboardInterrupt is not an Exception
                got = type(e).__name__
            H.sigint.value = 0
            try:
                sim.process_messages()
            except RuntimeError:
                pass
            exc_seen[STATUS_NAMES[want]] = got
            c.count(("pyexc", integ, want))
            # status 1 with a waiting error message surfaces as the RuntimeError carrying that message (process_messages)
            okexc = (got == PY_EXC[want]) or (want == 1 and got == "RuntimeError")
            if sim._status != want or not okexc:
                fails.append(("python-exception", "Simulation.integrate raised %s for status %s (expected %s)" % (got, sim._status, PY_EXC[want]),
                              dict(integrator=integ, setup=setup, status=sim._status, raised=got, expected_status=want,
                                   expected_exception=PY_EXC[want])))
    c.cov["python_exception_per_status"] = exc_seen

    # ------------------------------------------------------------------ subprocess probes
    probes = {}
    # TRACE with a negative step (F10): does the contract itself trip?
    nT = 12 if thorough else 3
    trace_bad = []
    for i in range(nT):
        rng = c.rng.fork()
        # every other probe has a deep pericentre passage (e = 0.95): the pericentre switch of TRACE is what F10 is about
        job = dict(integrator="trace", t0=0.0, dt=rng.choice([0.01, 0.05]), tmax=-rng.uniform(0.5, 3.0), exact=rng.choice([0, 1]),
                   third=(i % 2 == 1), e=(0.95 if i % 2 == 0 else 0.05), cap=5000)
        if job["e"] > 0.5:
            job["tmax"] = -rng.uniform(5.0, 7.0)
        r = probe(scratch, job, timeout=60)
        c.count(("probe", "trace-backward", i))
        ok = r["outcome"] == "ok" and r["status"] == "ok" and r.get("mono") and \
            (abs(r["t"] - job["tmax"]) <= 1e-12 * abs(job["tmax"]) if job["exact"] == 1 else r["t"] <= job["tmax"]) and r["dt"] < 0
        if not ok:
            trace_bad.append(dict(job=job, result=r))
    probes["trace_backward"] = {"runs": nT, "contract_trips": len(trace_bad)}
    if trace_bad:
        fails.append(("F10:trace-negative-dt", "TRACE integrated backwards in time breaks the integrate() contract (crash / wrong end time)",
                      trace_bad[0]))
    # absorbed step: |t| so large that t + dt == t
    nH = 6 if thorough else 2
    hang = []
    guarded = 0
    for i in range(nH):
        rng = c.rng.fork()
        integ = rng.choice(["leapfrog", "whfast", "none", "saba"])
        t0 = rng.choice([1, -1]) * 10.0 ** rng.randint(15, 17)
        dt = math.ulp(t0) / rng.choice([8, 64, 1024])
        job = dict(integrator=integ, t0=t0, dt=dt, tmax=t0 + math.copysign(4 * math.ulp(t0), rng.choice([1, -1])), exact=rng.choice([0, 1]))
        if i == 1:
            job = dict(integrator=integ, t0=0.0, dt=0.0, tmax=1.0, exact=rng.choice([0, 1]))     # dt == 0: the same mechanism
        r = probe(scratch, job, timeout=6)
        c.count(("probe", "absorbed", integ))
        if r["outcome"] == "ok" and r.get("status") == "RuntimeError" and r.get("t") == job["t0"]:
            guarded += 1          # stopped with an error by the no-progress guard: repaired behaviour
        elif r["outcome"] != "ok" or r.get("status") != "ok":
            hang.append(dict(job=job, result=r))
    probes["absorbed_step"] = {"runs": nH, "hangs_or_errors": len(hang), "stopped_by_progress_guard": guarded}
    if hang:
        fails.append(("C08-N2:absorbed-step-hang", "integrate() never returns when |t| is so large that t + dt == t in double precision "
                      "(the loop makes no progress and has no guard)", hang[0]))
    # MERCURIUS encounter sub-integration with a collapsed IAS15 step (two planets falling onto each other after a drag callback): the
    # escape hatch of reb_mercurius_encounter_step (|dt/old_dt| > 1e-14) is missed by a hair while dt is ~10 ulp of t, so one outer step
    # would need ~1e13 sub-steps: integrate() does not return in any reasonable time.  Replayed from corpus/C08 in a subprocess.
    cj = os.path.join(ROOT, "corpus", "C08", "mercurius_encounter_collapse.json")
    if os.path.exists(cj):
        try:
            p = subprocess.run([sys.executable, "-c", MERC_PROBE % dict(scratch=scratch), cj], capture_output=True, text=True, timeout=12)
            outm = p.stdout.strip().splitlines()[-1] if p.stdout.strip() else ""
            probes["mercurius_encounter_collapse"] = {"outcome": "returned", "result": outm[:200], "rc": p.returncode}
            if p.returncode != 0:
                fails.append(("mercurius-encounter-probe", "replay of the MERCURIUS encounter case failed", dict(rc=p.returncode, stderr=p.stderr[-300:])))
        except subprocess.TimeoutExpired:
            probes["mercurius_encounter_collapse"] = {"outcome": "timeout"}
            fails.append(("C08-N7:mercurius-encounter-step-collapse",
                          "MERCURIUS: integrate() does not return - the encounter sub-integration runs with dt of a few ulp of t, just above its own "
                          "give-up threshold 1e-14*dt (integrator_mercurius.c:338)", dict(corpus="corpus/C08/mercurius_encounter_collapse.json", timeout_s=12)))
        c.count(("probe", "mercurius-encounter-collapse"))
    c.cov["subprocess_probes"] = probes


if __name__ == "__main__":
    # --replay <file>: the run is deterministic in (seed, tier); re-run the check with the ones recorded in the replay file
    if "--replay" in sys.argv:
        path = sys.argv[sys.argv.index("--replay") + 1]
        rep = json.load(open(path if os.path.exists(path) else os.path.join(ROOT, path)))
        print("replaying", path, "->", rep.get("key", "broken obligation"), json.dumps(rep.get("replay", rep.get("no_longer_checks")), default=str)[:600])
        os.environ["VERIF_SEED"] = str(rep.get("seed", 1))
        sys.argv += ["--tier", rep.get("tier", "quick")]
    main("C08", run)
