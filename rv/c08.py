"""C08 — integrate() honours its time, step-size and status contract.

proof:   lean/RV/Props/C08.lean — theorems over a linearly ordered field about
         lean/RV/Model/Integrate.lean (reb_check_exit, reb_run_heartbeat, reb_simulation_integrate_raw,
         per-integrator time bookkeeping, status -> exception table)
tie:     the same model on IEEE doubles (drv_c08) vs the compiled reb_simulation_integrate, for every
         integrator: every heartbeat's (t, dt, dt_last_done, status) and the final
         (t, dt, dt_last_done, steps_done, status), bit for bit
search:  the contract asserted on the real code (Fraction step counts, independently recomputed exit
         conditions, split integrations, Python exception classes)
"""
import ctypes, math, os, sys, json, subprocess
from fractions import Fraction
sys.path.insert(0, os.path.dirname(os.path.abspath(__file__)))
from common import *
import extract_c08

# hand-written expectation (what the Lean model's StepKind of each integrator is); the translator must agree
KIND = {"none": "once", "leapfrog": "halves", "whfast": "halves", "saba": "once", "janus": "janus", "eos": "once",
        "mercurius": "once", "sei": "halves", "trace": "once", "ias15": "adaptive", "bs": "adaptive"}
FIXED = [k for k, v in KIND.items() if v != "adaptive"]
ADAPTIVE = ["ias15", "bs"]
# hand-written expectation of the Python layer (independent of the extracted table)
PY_EXC = {0: None, 1: "GenericError", 2: "NoParticles", 3: "Encounter", 4: "Escape", 5: None, 6: "KeyboardInterrupt",
          7: "Collision"}
STATUS_NAMES = {-10: "SINGLE_STEP", -5: "SCREENSHOT_READY", -4: "SCREENSHOT", -3: "PAUSED", -2: "LAST_STEP", -1: "RUNNING",
                0: "SUCCESS", 1: "GENERIC_ERROR", 2: "NO_PARTICLES", 3: "ENCOUNTER", 4: "ESCAPE", 5: "USER", 6: "SIGINT",
                7: "COLLISION"}
CAP = 400          # in-process step cap per call (heartbeat calls reb_simulation_stop; the model gets the same flag)
F_COLL, F_USER, F_ESC, F_ENC, F_SIGINT, F_ERR = 1, 2, 4, 8, 16, 32


def ulp_step(x, j):
    for _ in range(abs(j)):
        x = math.nextafter(x, math.inf if j > 0 else -math.inf)
    return x


# ----------------------------------------------------------------------------- real-code harness
class Harness:
    def __init__(self, rebound):
        self.rebound = rebound
        self.clib = rebound.clibrebound
        self.clib.reb_simulation_integrate.restype = ctypes.c_int
        self.clib.reb_simulation_integrate.argtypes = [ctypes.c_void_p, ctypes.c_double]
        self.sigint = ctypes.c_int.in_dll(self.clib, "reb_sigint")

    def make_sim(self, integ, t0, dt, rng, physics="planet"):
        rebound = self.rebound
        sim = rebound.Simulation()
        sim.integrator = integ
        if physics == "planet":
            sim.add(m=1.0)
            sim.add(m=rng.loguniform(1e-6, 1e-3), a=rng.uniform(1.0, 1.5), e=rng.uniform(0, 0.1), f=rng.uniform(0, 6.28))
            if rng.chance(0.4):
                sim.add(m=rng.loguniform(1e-6, 1e-3), a=rng.uniform(2.5, 4.0), e=rng.uniform(0, 0.1), f=rng.uniform(0, 6.28))
            sim.move_to_com()
        elif physics == "free":       # non-interacting particles on straight lines (exit conditions are exactly predictable)
            sim.gravity = "none"
        if integ == "bs":
            sim.ri_bs.eps_rel = 1e-6
            sim.ri_bs.eps_abs = 1e-6
        sim.t = t0
        sim.dt = dt
        return sim

    def call(self, sim, tmax, exact, events=None, conds=None, cap=CAP):
        """one reb_simulation_integrate; returns dict(pre, beats, post, ret, flags).
        events: {boundary index: set of 'user'|'err'|'sigint'|'empty'};  conds: callable(sim)->mask of F_ESC|F_ENC|F_COLL
        recomputed from the particle arrays at every heartbeat."""
        events = events or {}
        pre = (sim.t, sim.dt, sim.dt_last_done, sim._status, sim.steps_done)
        beats, flags = [], []
        clib, sigint = self.clib, self.sigint
        state = {"capped": False}

        def hb(sp):
            s = sp.contents
            k = len(beats)
            beats.append((s.t, s.dt, s.dt_last_done, s.steps_done, s._status))
            mask = 0
            if conds is not None:
                mask |= conds(s)
            ev = events.get(k, ())
            if "user" in ev or k >= cap:
                clib.reb_simulation_stop(sp)
                mask |= F_USER
                if k >= cap:
                    state["capped"] = True
            if "err" in ev:
                clib.reb_simulation_error(sp, b"C08 injected error")
                mask |= F_ERR
            if "sigint" in ev:
                sigint.value = 1
                if k > 0:
                    mask |= F_SIGINT
            if "empty" in ev:
                clib.reb_simulation_remove_all_particles(sp)
            flags.append([mask, s.N])
            # a non-zero reb_sigint persists over the following boundaries of this call
            if sigint.value and k > 0:
                flags[-1][0] |= F_SIGINT

        sim.heartbeat = hb
        sim.exact_finish_time = exact
        ret = clib.reb_simulation_integrate(ctypes.byref(sim), ctypes.c_double(tmax))
        post = (sim.t, sim.dt, sim.dt_last_done, sim._status, sim.steps_done)
        # drain messages so that a waiting error does not leak into the next call
        try:
            sim.process_messages()
        except RuntimeError:
            pass
        return dict(pre=pre, beats=beats, post=post, ret=ret, flags=flags, capped=state["capped"], tmax=tmax, exact=exact,
                    n_odes=sim._N_odes)


def model_line(kind, rec, is_bs=False, n_odes=0, fuel=None):
    """driver line reproducing one recorded call: the model gets the start state, the flags observed / injected at
    every boundary and (adaptive) the observed accept/reject decisions with the proposed step sizes."""
    t, dt, dld, status, steps = rec["pre"]
    beats, flags = rec["beats"], rec["flags"]
    tmax = rec["tmax"]
    toks = ["I", kind, str(rec["exact"]), d2h(tmax), "1" if tmax == math.inf else "0", d2h(t), d2h(dt), d2h(dld), str(status),
            str(steps), str(n_odes), "1" if is_bs else "0", str(fuel if fuel is not None else len(beats) + 5), str(len(flags))]
    toks += ["%d:%d" % (m, n) for m, n in flags]
    orc = []
    if kind == "adaptive":
        for k in range(1, len(beats)):
            tp, _, dldp = beats[k - 1][0], beats[k - 1][1], beats[k - 1][2]
            tn, dtn, dldn = beats[k][0], beats[k][1], beats[k][2]
            acc = (d2h(tn) != d2h(tp)) or (d2h(dldn) != d2h(dldp))
            orc.append("%d:%s" % (1 if acc else 0, d2h(dtn)))
    toks.append(str(len(orc)))
    toks += orc
    return " ".join(toks)


def expected_answer(rec):
    t, dt, dld, status, steps = rec["post"]
    beats = rec["beats"][1:]
    toks = ["done", d2h(t), d2h(dt), d2h(dld), str(steps), str(status), str(len(beats))]
    for b in beats:
        toks += [d2h(b[0]), d2h(b[1]), d2h(b[2]), str(b[4])]
    return toks


def parse_answer(line):
    tk = line.split()
    if len(tk) < 8:
        return None
    # outcome t dt dld steps status syncs nbeats beats...
    return [tk[0], tk[1], tk[2], tk[3], tk[4], tk[5], tk[7]] + tk[8:], int(tk[6])


# ----------------------------------------------------------------------------- generators
def gen_triple(rng):
    """(t0, dt, tmax, tag) aimed at the floating-point coincidences of the last-step logic"""
    fam = rng.choice(["kdt", "kdt", "kdt", "big_dt", "tmax0", "equal", "wrong_sign", "huge_t", "random", "random"])
    t0 = rng.choice([0.0, 0.0, rng.uniform(-5, 5), rng.uniform(-1e3, 1e3), 1.0, -1.0])
    mag = rng.choice([0.1, 0.01, 0.25, 1.0 / 3, rng.loguniform(1e-3, 3.0), 1e-3, 0.7])
    dt = mag if rng.chance(0.5) else -mag
    k = rng.randint(0, 30)
    if fam == "kdt":
        direction = rng.choice([1, -1])
        tmax = ulp_step(t0 + direction * k * mag, rng.randint(-3, 3))
    elif fam == "big_dt":
        tmax = t0 + rng.choice([1, -1]) * mag * rng.uniform(0.001, 0.999)
    elif fam == "tmax0":
        tmax = 0.0
        t0 = rng.choice([1, -1]) * k * mag if rng.chance(0.5) else rng.uniform(-3, 3)
    elif fam == "equal":
        tmax = t0
    elif fam == "wrong_sign":
        tmax = t0 - math.copysign(1, dt) * rng.uniform(0.5, 20) * mag
    elif fam == "huge_t":
        e = rng.randint(6, 14)
        t0 = rng.choice([1, -1]) * rng.uniform(1, 10) * 10 ** e
        # dt a few ulps of t0 .. a few thousand ulps (never absorbed completely: see gen_absorbed)
        u = math.ulp(t0)
        mag = u * rng.choice([1, 2, 3, 8, 100, 4096, 1e6])
        dt = mag if rng.chance(0.5) else -mag
        tmax = t0 + rng.choice([1, -1]) * mag * rng.choice([0.5, 1, 3, 7.5, 20])
    else:
        tmax = t0 + rng.choice([1, -1]) * rng.uniform(0, 30) * mag
    return t0, dt, tmax, fam


def partition(rng, t0, tmax, n):
    """n targets from t0 to tmax (last = tmax); mostly monotone, sometimes exactly on multiples"""
    if n == 1 or tmax == t0:
        return [tmax]
    fr = sorted(rng.uniform() for _ in range(n - 1))
    return [t0 + f * (tmax - t0) for f in fr] + [tmax]
